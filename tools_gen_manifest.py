"""Regenerates MANIFEST.json from checks/manifest_data.py (kept valid at all times)."""
import json, os, sys
sys.path.insert(0, os.path.dirname(os.path.abspath(__file__)))
from checks.manifest_data import CHECKS, NOT_APPLICABLE

man = {
    "version": 1,
    "setup_cmd": "python3-vt -c \"import z3, sys; sys.path.insert(0, '/verif'); import pyvc.verify; print('pyvc ok, z3', z3.get_version_string())\" && /venv/bin/python -c \"import frequenz.sdk\"",
    "hooks": {
        "guard": "FREQUENZ_SDK_VERIF",
        "enable": "none needed: contracts are sidecars in /verif/contracts bound to the real functions by qualified name; /repo carries no instrumentation",
        "baseline_off_cmd": "cd /repo && /venv/bin/python -m pytest -ra -q -p no:cacheprovider --timeout=900 --continue-on-collection-errors",
        "source_commits": [],
        "add_only": True,
    },
    "engines": [
        {"name": "pyvc", "path": "/verif/pyvc", "serves_properties": [c["property_id"] for c in CHECKS],
         "kind_free_text": "self-written deductive verifier for a Python subset: re-reads the real source with ast on every run, "
                           "executes each function under contract symbolically path by path against sidecar contracts "
                           "(requires/ensures/loop invariants/frames/ghosts), callers use callee contracts, obligations discharged by z3 "
                           "(cvc5 for unknowns); counter-models are replayed on the real code under /venv/bin/python"},
        {"name": "native", "path": "/verif/native", "serves_properties": [c["property_id"] for c in CHECKS],
         "kind_free_text": "CPython evaluation of the same contract text around the real functions: counterexample replay, semantic probes of the assumed library models, bounded stand-ins (labelled bounded)"},
    ],
    "checks": CHECKS,
    "not_applicable": NOT_APPLICABLE,
    "notes": "Technique family: contract-based deductive verification of the real code. See DESIGN.md. Exit codes of every check: 0 held, 1 VIOLATION, 2 undecided (solver unknown), 3 checker error.",
}
with open(os.path.join(os.path.dirname(os.path.abspath(__file__)), "MANIFEST.json"), "w") as fh:
    json.dump(man, fh, indent=1)
print("MANIFEST.json written:", len(CHECKS), "checks,", len(NOT_APPLICABLE), "not applicable")
