"""Aggregates and sorting over collections of symbolic size."""
from __future__ import annotations

import z3

from .interp import zof, mk, zbool, Frame, Infeasible, NeedFork
from .values import S, SymSeq, SymSet, SymMap, Unsupported, fresh_name


def leaves(arrays):
    if arrays is None:
        return []
    if isinstance(arrays, dict):
        out = []
        for v in arrays.values():
            out.extend(leaves(v))
        return out
    if isinstance(arrays, (list, tuple)):
        out = []
        for v in arrays:
            out.extend(leaves(v))
        return out
    return [arrays]


def fresh_arrays(arrays, prefix):
    if arrays is None:
        return None
    if isinstance(arrays, dict):
        return {k: fresh_arrays(v, f"{prefix}.{k}") for k, v in arrays.items()}
    if isinstance(arrays, tuple):
        return tuple(fresh_arrays(v, f"{prefix}.{i}") for i, v in enumerate(arrays))
    if isinstance(arrays, list):
        return [fresh_arrays(v, f"{prefix}.{i}") for i, v in enumerate(arrays)]
    return z3.Array(fresh_name(prefix), arrays.sort().domain(), arrays.sort().range())


def sorted_symbolic(engine, it, seq, kwargs):
    """sorted(seq, key=None, reverse=...) for a sequence/set of symbolic size.

    Assumed contract of `sorted`: the result is a permutation of the input and, for
    i < j, the later element is not less than the earlier one (reverse: the earlier is
    not less than the later).  `__lt__` of the elements is taken from the real source.
    """
    ctx = it.ctx
    keyfn = kwargs.get("key")
    rev = it.decide(kwargs.get("reverse", False))
    memo_key = (id(seq), rev, id(getattr(keyfn, "node", keyfn)) if keyfn is not None else None)
    cache = ctx.__dict__.setdefault("sorted_cache", {})
    if memo_key in cache:
        return cache[memo_key][1]
    ctx.trusted.add("model:sorted() returns a permutation of its input, ordered by the elements' __lt__")
    n = seq.length
    out = SymSeq(n, seq.shape, fresh_arrays(seq.arrays, "sorted"))
    out.pyshape = seq.pyshape
    out.sorted_from = seq
    pi = z3.Function(fresh_name("perm"), z3.IntSort(), z3.IntSort())
    inv = z3.Function(fresh_name("perm_inv"), z3.IntSort(), z3.IntSort())
    i = z3.Int(fresh_name("si"))
    rng = z3.And(0 <= i, i < n)
    eqs = [z3.Select(a, i) == z3.Select(b, pi(i) + seq.offset) for a, b in zip(leaves(out.arrays), leaves(seq.arrays))]
    ctx.assume(z3.ForAll([i], z3.Implies(rng, z3.And(0 <= pi(i), pi(i) < n, inv(pi(i)) == i, *eqs)),
                         patterns=[pi(i)]))
    ctx.assume(z3.ForAll([i], z3.Implies(rng, z3.And(0 <= inv(i), inv(i) < n, pi(inv(i)) == i)),
                         patterns=[inv(i)]))
    out.perm = (pi, inv)
    # ordering
    a = z3.Int(fresh_name("sa"))
    b = z3.Int(fresh_name("sb"))
    rng2 = z3.And(0 <= a, a < b, b < n)
    try:
        def thunk():
            ea, eb = out.get(a), out.get(b)
            if keyfn is not None:
                # ordered by the key only (python's sort is stable: ties keep the input order, which for a set
                # is arbitrary - the model leaves the order of ties open)
                ea, eb = it.call(keyfn, [ea], {}), it.call(keyfn, [eb], {})
            lt = it.compare("Lt", ea, eb) if rev else it.compare("Lt", eb, ea)
            return it.truth(lt)
        lt = it.try_nofork(rng2, thunk)
        ltz = zbool(lt) if not isinstance(lt, bool) else z3.BoolVal(lt)
        ctx.assume(z3.ForAll([a, b], z3.Implies(rng2, z3.Not(ltz))))
    except Infeasible:
        pass
    cache[memo_key] = (seq, out)
    return out


def genexp_parts(it, g):
    """(sequence, element -> frame) of a single-`for` generator expression over a symbolic sequence."""
    from .exec import GenExp
    node = g.node
    if len(node.generators) != 1:
        raise Unsupported("nested generator over a symbolic collection")
    gen = node.generators[0]
    import ast as _ast
    enum = (isinstance(gen.iter, _ast.Call) and isinstance(gen.iter.func, _ast.Name) and gen.iter.func.id == "enumerate"
            and len(gen.iter.args) == 1)
    src = it.eval(gen.iter.args[0], g.fr) if enum else (getattr(g, "cached_iter", None) or it.eval(gen.iter, g.fr))
    seq = it.as_symbolic_iterable(src)
    if not isinstance(seq, SymSeq):
        raise Unsupported("generator over a non-sequence symbolic collection")

    def frame_at(i):
        fr2 = Frame(g.fr.module, {}, closure=g.fr)
        it.assign_target(gen.target, (S(i, "int"), seq.get(i)) if enum else seq.get(i), fr2)
        return fr2
    return seq, gen, frame_at


def fold_symbolic(engine, it, name, seq, kwargs, start=0):
    from .exec import GenExp
    from .values import VOpt
    ctx = it.ctx
    if name == "next" and isinstance(seq, GenExp):
        # first element satisfying the filters, or the default
        s, gen, frame_at = genexp_parts(it, seq)
        j = z3.Int(fresh_name("first"))
        found = z3.Bool(fresh_name("found"))
        i = z3.Int(fresh_name("ni"))

        def cond_at(ix):
            fr2 = frame_at(ix)
            acc = True
            for c in gen.ifs:
                acc = it.and_(acc, it.truth(it.eval(c, fr2)))
            return zbool(acc) if not isinstance(acc, bool) else z3.BoolVal(acc)
        try:
            cj = it.try_nofork(z3.And(0 <= j, j < s.length), lambda: cond_at(j))
            ctx.assume(z3.Implies(found, z3.And(0 <= j, j < s.length, cj)))
            ci = it.try_nofork(z3.And(0 <= i, i < s.length), lambda: cond_at(i))
            ctx.assume(z3.ForAll([i], z3.Implies(z3.And(0 <= i, i < s.length, z3.Or(z3.Not(found), i < j)), z3.Not(ci))))
        except Infeasible:
            ctx.assume(z3.Not(found))
        elem = it.eval(seq.node.elt, frame_at(j))
        if "default" in kwargs:
            d = kwargs["default"]
            if d is None:
                return VOpt(z3.Not(found), elem)
            return it.ite_value(found, elem, d)
        if ctx.branch(z3.Not(found), "next(): nothing found"):
            from .interp import PyRaise
            raise PyRaise("StopIteration")
        return elem
    raise Unsupported(f"{name}() over a symbolic collection (needs a fold model)")
