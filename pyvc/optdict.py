"""Operations on dicts whose key presence is symbolic (HOptDict)."""
from __future__ import annotations

import z3

from .interp import PyRaise, CannotMerge, NeedFork, mk
from .values import HOptDict, VOpt, Unsupported


def _has(it, h, key):
    e = h.entries.get(key)
    if e is None:
        return False
    return e[0]


def contains(it, h, key):
    key = it.hashable(key)
    r = _has(it, h, key)
    return r if isinstance(r, bool) else mk(r, "bool")


def get(it, h, key, default=None):
    key = it.hashable(key)
    e = h.entries.get(key)
    if e is None or e[0] is False:
        return default
    if e[0] is True:
        return e[1]
    try:
        return it.ite_value(e[0], e[1], default)
    except CannotMerge:
        return e[1] if it.ctx.branch(e[0], f"dict has key {key!r}") else default


def getitem(it, h, key):
    key = it.hashable(key)
    e = h.entries.get(key)
    if e is None or e[0] is False:
        raise PyRaise("KeyError", repr(key))
    if e[0] is not True and it.ctx.branch(z3.Not(e[0]), f"dict lacks key {key!r}"):
        raise PyRaise("KeyError", repr(key))
    return e[1]


def setitem(it, h, key, v):
    it.ctx.mutate()
    h.entries[it.hashable(key)] = [True, v]


def delitem(it, h, key):
    getitem(it, h, key)
    it.ctx.mutate()
    del h.entries[it.hashable(key)]


def present_keys(it, h):
    """Keys present on this path (forks on symbolic presence)."""
    out = []
    for k, e in list(h.entries.items()):
        if e[0] is True or (e[0] is not False and it.ctx.branch(e[0], f"dict has key {k!r}")):
            out.append(k)
    return out


def method(it, ref, h, name, args, kwargs):
    if name == "get":
        return get(it, h, args[0], args[1] if len(args) > 1 else None)
    if name == "setdefault":
        key = it.hashable(args[0])
        e = h.entries.get(key)
        if e is not None and (e[0] is True or (e[0] is not False and it.ctx.branch(e[0], f"dict has key {key!r}"))):
            return e[1]
        d = args[1] if len(args) > 1 else None
        setitem(it, h, key, d)
        return d
    if name == "pop":
        key = it.hashable(args[0])
        e = h.entries.get(key)
        if e is not None and (e[0] is True or (e[0] is not False and it.ctx.branch(e[0], f"dict has key {key!r}"))):
            it.ctx.mutate()
            del h.entries[key]
            return e[1]
        if len(args) > 1:
            return args[1]
        raise PyRaise("KeyError", repr(key))
    if name == "keys":
        return tuple(present_keys(it, h))
    if name == "values":
        return tuple(h.entries[k][1] for k in present_keys(it, h))
    if name == "items":
        return tuple((k, h.entries[k][1]) for k in present_keys(it, h))
    if name == "clear":
        it.ctx.mutate()
        h.entries.clear()
        return None
    raise Unsupported(f"dict.{name} on a dict with symbolic keys")


def length(it, h):
    n = 0
    for k, e in h.entries.items():
        if e[0] is True:
            n = n + 1
        elif e[0] is not False:
            n = it.num_binop("Add", n, mk(z3.If(e[0], 1, 0), "int"))
    return n


def truth(it, h):
    acc = False
    for e in h.entries.values():
        acc = it.or_(acc, e[0])
    return acc
