"""Symbolic value universe of the pyvc engine.

Concrete Python values are used wherever the analysed code computes with
constants (ints, bools, str, None, tuples, Fractions for float literals); the
classes below stand for values that depend on the function's symbolic inputs.
"""
from __future__ import annotations

import itertools
from fractions import Fraction

import z3


class Unsupported(Exception):
    """The analysed code left the subset the engine can execute."""


class S:
    """Symbolic scalar. kind in {'real','int','bool','fp'}."""

    __slots__ = ("z", "kind")

    def __init__(self, z, kind):
        self.z = z
        self.kind = kind

    def __repr__(self):
        return f"S<{self.kind}:{self.z}>"


class VOpt:
    """Value that may be None: `isnone` is a z3 Bool, `val` the non-None value."""

    __slots__ = ("isnone", "val")

    def __init__(self, isnone, val):
        self.isnone = isnone
        self.val = val

    def __repr__(self):
        return f"Opt<{self.isnone}?{self.val}>"


class VQty:
    """frequenz.quantities.Quantity subclass instance; val = base value (real scalar)."""

    __slots__ = ("unit", "val")

    def __init__(self, unit, val):
        self.unit = unit
        self.val = val

    def __repr__(self):
        return f"{self.unit}<{self.val}>"


class VTime:
    """datetime as integer microseconds since an arbitrary epoch (aware/UTC assumed)."""

    __slots__ = ("us",)

    def __init__(self, us):
        self.us = us

    def __repr__(self):
        return f"Time<{self.us}>"


class VDelta:
    """timedelta as integer microseconds."""

    __slots__ = ("us",)

    def __init__(self, us):
        self.us = us

    def __repr__(self):
        return f"Delta<{self.us}>"


class VEnum:
    """Concrete enum member."""

    __slots__ = ("cls", "name")

    def __init__(self, cls, name):
        self.cls = cls
        self.name = name

    def __eq__(self, o):
        return isinstance(o, VEnum) and o.cls == self.cls and o.name == self.name

    def __hash__(self):
        return hash((self.cls, self.name))

    def __repr__(self):
        return f"{self.cls}.{self.name}"


class SEnum:
    """Symbolic enum member: z is an Int index into members."""

    __slots__ = ("cls", "members", "z")

    def __init__(self, cls, members, z):
        self.cls = cls
        self.members = members
        self.z = z

    def __repr__(self):
        return f"SEnum<{self.cls}:{self.z}>"


class VRec:
    """Immutable record (frozen dataclass / NamedTuple instance), by value."""

    __slots__ = ("cls", "fields")

    def __init__(self, cls, fields):
        self.cls = cls  # qualified class name "module:Class"
        self.fields = fields

    def __repr__(self):
        return f"{self.cls.split(':')[-1]}({', '.join(f'{k}={v!r}' for k, v in self.fields.items())})"


class VRef:
    """Reference to a mutable heap object (concrete address)."""

    __slots__ = ("addr",)

    def __init__(self, addr):
        self.addr = addr

    def __eq__(self, o):
        return isinstance(o, VRef) and o.addr == self.addr

    def __hash__(self):
        return hash(("ref", self.addr))

    def __repr__(self):
        return f"Ref#{self.addr}"


class HObj:
    """Heap object: instance of a (mutable) class."""

    def __init__(self, cls, fields):
        self.cls = cls
        self.fields = fields

    def copy(self):
        return HObj(self.cls, dict(self.fields))


class HList:
    def __init__(self, items, maxlen=None):
        self.items = list(items)
        self.maxlen = maxlen

    def copy(self):
        return HList(self.items, self.maxlen)


class HDict:
    """Dict with concrete (hashable, python-level) keys; insertion ordered."""

    def __init__(self, items=None):
        self.items = dict(items or {})

    def copy(self):
        return HDict(self.items)


class HSet:
    """Set with concrete structure (python-level hashable keys)."""

    def __init__(self, items=()):
        self.items = dict.fromkeys(items)

    def copy(self):
        h = HSet()
        h.items = dict(self.items)
        return h


class SymSeq:
    """Immutable sequence of symbolic length: `length` z3 Int, `get(i)` value at z3 Int i.

    `arrays` is a pytree of z3 arrays mirroring the element shape (struct of arrays).
    """

    def __init__(self, length, shape, arrays, offset=0):
        self.length = length
        self.shape = shape
        self.arrays = arrays
        self.offset = offset       # element i lives at arrays[offset + i] (cheap slicing / popleft)

    def get(self, i):
        if isinstance(self.offset, int) and self.offset == 0:
            return self.shape.select(self.arrays, i)
        return self.shape.select(self.arrays, i + self.offset)

    def __repr__(self):
        return f"SymSeq<len={self.length}>"


class SymSet:
    """Set of scalar keys of symbolic extent: member = Array K Bool."""

    def __init__(self, member, keyshape):
        self.member = member
        self.keyshape = keyshape


class SymMap:
    """Map from scalar keys: dom Array K Bool, vals struct of arrays keyed by K."""

    def __init__(self, dom, keyshape, valshape, arrays):
        self.dom = dom
        self.keyshape = keyshape
        self.valshape = valshape
        self.arrays = arrays

    def get(self, k):
        return self.valshape.select(self.arrays, k)


class FuncRef:
    """Reference to a function/method of the repository (by AST)."""

    def __init__(self, module, qualname, node, self_val=None, closure=None, cls=None):
        self.module = module
        self.qualname = qualname
        self.node = node
        self.self_val = self_val
        self.closure = closure
        self.cls = cls

    def __repr__(self):
        return f"FuncRef<{self.module.name}:{self.qualname}>"


class ClassRef:
    def __init__(self, module, name, node):
        self.module = module
        self.name = name
        self.node = node

    @property
    def qual(self):
        return f"{self.module.name}:{self.name}"

    def __repr__(self):
        return f"ClassRef<{self.qual}>"


class ModRef:
    def __init__(self, module):
        self.module = module


class ExtRef:
    """Reference to something external (library) by dotted name; models decide."""

    def __init__(self, name):
        self.name = name

    def __repr__(self):
        return f"Ext<{self.name}>"

    def __eq__(self, o):
        return isinstance(o, ExtRef) and o.name == self.name

    def __hash__(self):
        return hash(("ext", self.name))


class BoundBuiltin:
    """Method of a model value, e.g. list.append bound to a heap list."""

    def __init__(self, name, target):
        self.name = name
        self.target = target


class Opaque:
    """Uninterpreted python value we never look inside (strings built by f-strings, etc.)."""

    def __init__(self, tag="opaque"):
        self.tag = tag

    def __repr__(self):
        return f"Opaque<{self.tag}>"


_counter = itertools.count()


def reset_fresh():
    global _counter
    _counter = itertools.count()


def fresh_name(prefix):
    return f"{prefix}!{next(_counter)}"


def zreal(x):
    """Python number -> z3 real numeral."""
    if isinstance(x, bool):
        return z3.RealVal(int(x))
    if isinstance(x, int):
        return z3.RealVal(x)
    if isinstance(x, Fraction):
        return z3.RealVal(f"{x.numerator}/{x.denominator}")
    if isinstance(x, float):
        fr = Fraction(str(x)) if x == x and abs(x) != float("inf") else None
        if fr is None:
            raise Unsupported(f"non-finite float literal {x}")
        return z3.RealVal(f"{fr.numerator}/{fr.denominator}")
    raise TypeError(x)


def float_literal(x: float):
    """Float literal under real-mode: the decimal value written in the source."""
    if x != x or x in (float("inf"), float("-inf")):
        return x
    return Fraction(str(x))


class GhostSeq:
    """Ghost sequence defined by recursion over a symbolic sequence: G(0)=init, G(k+1)=step(G(k), elem_k)."""

    def __init__(self, name, arrshape, arrays):
        self.name = name
        self.arrshape = arrshape
        self.arrays = arrays

    def at(self, i):
        return self.arrshape.select(self.arrays, i)

    def __repr__(self):
        return f"GhostSeq<{self.name}>"


class KeySetVal:
    """Immutable value of a key-identified set of records: present[key], fields[key]."""

    def __init__(self, shape, present, arrays):
        self.shape = shape          # spec.KeySet
        self.present = present      # nested Array key.. -> Bool
        self.arrays = arrays        # struct of nested arrays for every field of the element record
        self.enum = None            # memoized enumeration (SymSeq)

    def __repr__(self):
        return "KeySetVal<>"


class HKeySet:
    """Heap cell holding a KeySetVal (python sets are mutable)."""

    def __init__(self, val):
        self.val = val

    def copy(self):
        return HKeySet(self.val)


class HOptDict:
    """dict with concrete keys whose presence may be symbolic: key -> [has (bool | z3 Bool), value]."""

    def __init__(self, entries=None):
        self.entries = {k: list(v) for k, v in (entries or {}).items()}

    def copy(self):
        return HOptDict(self.entries)


class HSymList:
    """Heap cell holding a list/deque of symbolic length (functional SymSeq inside)."""

    def __init__(self, seq, maxlen=None):
        self.seq = seq
        self.maxlen = maxlen

    def copy(self):
        return HSymList(self.seq, self.maxlen)


class HSymSet:
    """Heap cell holding a mutable set of scalar keys of symbolic extent."""

    def __init__(self, val):
        self.val = val     # SymSet

    def copy(self):
        return HSymSet(self.val)


class Coro:
    """A coroutine object: an `async def` call not yet awaited."""

    def __init__(self, thunk, label="coro", scripted=False):
        self.thunk = thunk
        self.label = label
        self.done = False
        self.outcome = None
        self.scripted = scripted     # a scripted collaborator's coroutine (its effects are its whole meaning)

    def __repr__(self):
        return f"Coro<{self.label}>"


class Stream:
    """Unbounded stream of fresh items of a shape (timers, receivers in `async for`)."""

    def __init__(self, shape, source=None):
        self.shape = shape
        self.source = source
