"""The verification driver: contracts -> obligations -> solver verdicts."""
from __future__ import annotations

import ast
import os
import subprocess
import tempfile
import time
from fractions import Fraction

import z3

from . import models, spec as specmod
from .classinfo import ClassInfo
from .exec import Interp, GenExp
from .interp import (Ctx, Frame, PyRaise, _Return, _Break, _Continue, PathEnd, Infeasible, NeedFork,
                     Obligation, zof, mk, kind_of, zbool, FP, exc_is_subclass)
from .modules import Repo, node_hash
from .values import (S, VOpt, VQty, VTime, VDelta, VEnum, SEnum, VRec, VRef, HObj, HList, HDict,
                     HSet, SymSeq, SymSet, SymMap, FuncRef, ClassRef, ModRef, ExtRef,
                     BoundBuiltin, Opaque, Unsupported, fresh_name, reset_fresh, GhostSeq, KeySetVal, HKeySet, HOptDict, HSymList, HSymSet)


TASK_OUTCOMES = ["returned", "Exception", "CancelledError", "OperationOutOfRange", "ApiClientError", "TimeoutError"]


class FunctionReport:
    def __init__(self, target):
        self.target = target
        self.source_hash = None
        self.paths = 0
        self.exits = 0
        self.obligations = []
        self.error = None         # Unsupported / contract out of date ...
        self.trusted = set()
        self.uses_contracts = set()
        self.solver_time = 0.0
        self.wall = 0.0
        self.loops_used = set()
        self.fallback_loops = set()   # declared loops attached to a loop whose header no longer matches literally
        self.excluded = []        # obligations excluded by known-finding regimes
        self.cover_ok = None
        self.live_exits = 0       # exits whose path condition (with quantified facts) has a model
        self.unknown_exits = 0


class Engine:
    def __init__(self, repo_root="/repo", verif_root="/verif", seed=0, timeout_ms=10000):
        self.repo = Repo(repo_root, verif_root)
        self.repo_root = repo_root
        self.verif_root = verif_root
        self.seed = seed
        self.timeout_ms = timeout_ms
        self.global_cache = {}
        self.class_cache = {}
        self.checked = set()
        self.unroll_limit = 8
        self.ufs = {}
        self.current = None       # contract under verification
        self.current_report = None
        self.active_regimes = []  # known-finding regimes for the current function
        self.external_hooks = []  # callables (it, name, args, kwargs) -> value | NotImplemented
        self.await_hooks = []
        self.with_hooks = []
        self.second_opinions = 0

    # ------------------------------------------------------------------ class info
    def class_info(self, qual):
        if qual in self.class_cache:
            return self.class_cache[qual]
        modname, name = qual.split(":")
        mi = self.repo.find(modname)
        ci = None
        if mi is not None and name in mi.classes:
            self.class_cache[qual] = None
            ci = ClassInfo(self, mi, mi.classes[name])
        self.class_cache[qual] = ci
        return ci

    def resolve_class_name(self, module, dotted):
        """Resolve a base-class expression (source text) in `module` to a ClassInfo or None."""
        parts = dotted.split(".")
        head = parts[0]
        if head in module.classes and len(parts) == 1:
            return self.class_info(f"{module.name}:{head}")
        if head in module.imports:
            imp = module.imports[head]
            if imp[0] == "from":
                mi = self.repo.find(imp[1])
                if mi is not None:
                    if len(parts) == 1:
                        if imp[2] in mi.classes:
                            return self.class_info(f"{mi.name}:{imp[2]}")
                        if imp[2] in mi.imports:
                            return self.resolve_class_name(mi, imp[2])
                    sub = self.repo.find(imp[1] + "." + imp[2])
                    if sub is not None and len(parts) == 2:
                        return self.resolve_class_name(sub, parts[1])
        return None

    def is_subclass(self, qual, other):
        if qual.startswith("ext:"):
            qual = qual[4:]        # a scripted collaborator standing for an instance of that class
        if qual == other:
            return True
        ci = self.class_info(qual) if ":" in qual else None
        if ci is None:
            return False
        for b, bi in zip(ci.bases, ci.base_infos + [None] * len(ci.bases)):
            pass
        for bi in ci.base_infos:
            if self.is_subclass(bi.qual, other):
                return True
        last = other.split(":")[-1].split(".")[-1]
        return any(b.split(".")[-1] == last for b in ci.bases)

    def enum_members(self, qual):
        if qual == "task_outcome":
            return TASK_OUTCOMES
        if qual.startswith("ext:"):
            if qual not in specmod.EXT_ENUMS:
                raise Unsupported(f"external enum {qual}: members not declared")
            return specmod.EXT_ENUMS[qual]
        ci = self.class_info(qual)
        if ci is None:
            raise Unsupported(f"enum {qual} not found")
        return ci.enum_members

    def enum_value(self, it, v):
        ci = self.class_info(v.cls)
        return it.eval(ci.enum_values[v.name], Frame(ci.module))

    def fieldwise_equal(self, it, a, b):
        """Same record, field by field (ignores a custom __eq__)."""
        acc = True
        for f in a.fields:
            x, y = a.fields[f], b.fields[f]
            if isinstance(x, Opaque) or isinstance(y, Opaque):
                continue
            if isinstance(x, VRec) and isinstance(y, VRec):
                acc = it.and_(acc, it.truth(self.fieldwise_equal(it, x, y)))
            else:
                acc = it.and_(acc, it.truth(it.equal(x, y)))
        return it.wrap_bool(acc)

    def const_value(self, ctx, v):
        """A python constant from a sidecar -> engine value (dicts and lists become heap objects)."""
        if isinstance(v, specmod.EnumKey):
            return VEnum(v.cls, v.member)
        if isinstance(v, dict):
            return ctx.alloc(HDict({self.const_value(ctx, k): self.const_value(ctx, x) for k, x in v.items()}))
        if isinstance(v, list):
            return ctx.alloc(HList([self.const_value(ctx, x) for x in v]))
        if isinstance(v, set):
            return ctx.alloc(HSet([self.const_value(ctx, x) for x in v]))
        if isinstance(v, tuple):
            return tuple(self.const_value(ctx, x) for x in v)
        if isinstance(v, float):
            from .values import float_literal
            return float_literal(v)
        return v

    def dict_key(self, key):
        """Key of a DictOpt shape -> the engine's value for it."""
        if isinstance(key, specmod.EnumKey):
            return VEnum(key.cls, key.member)
        return key

    def uf(self, name, *sorts):
        if name not in self.ufs:
            self.ufs[name] = z3.Function(name, *sorts)
        return self.ufs[name]

    # ------------------------------------------------------------------ hooks used by exec/models
    def contract_for_call(self, it, target):
        cur = self.current
        key = target
        if cur is not None and target in getattr(cur, "use", {}):
            key = cur.use[target]
        c = specmod.CONTRACTS.get(key)
        if c is None:
            return None
        if cur is not None:
            if target == cur.target:
                return None
            if target in getattr(cur, "inline", []):
                return None
            if cur.by_contract is not None and target not in cur.by_contract:
                return None
        return c

    def may_inline(self, it, target, f):
        if f.module.name.startswith("contracts"):
            return True
        cur = self.current
        if cur is not None and (target in cur.inline or "*" in cur.inline):
            return True
        name = f.qualname.split(".")[-1]
        if name.startswith("__") and name.endswith("__"):
            return True
        if f.cls:
            ci = self.class_info(f.cls)
            if ci and name in ci.methods and ci.method_kind(name) == "property":
                return True
        if it.ctx.contract_stack:
            return True  # inside an inlined function chain explicitly allowed
        # A repository function without a contract is executed as written: inlining is always sound (it is the real
        # code); contracts exist to keep paths small and to state what a caller may rely on.  This keeps the checks
        # decided when code is moved into a new helper function or method.
        it.ctx.trusted.add(f"inlined {target} (no contract declared; executed as written)")
        return True

    def note_write(self, it, ref, attr):
        pass

    def call_external(self, it, name, args, kwargs):
        for h in self.external_hooks:
            r = h(it, name, args, kwargs)
            if r is not NotImplemented:
                return r
        cur = self.current
        if cur is not None and name in cur.opaque_calls:
            shape = cur.opaque_calls[name]
            it.ctx.trusted.add(f"opaque:{name} returns an arbitrary value of its declared shape")
            return self.make_sym(it.ctx, shape, fresh_name(name.split(".")[-1]))
        return NotImplemented

    def await_value(self, it, v, fr):
        from .values import Coro
        for h in self.await_hooks:
            r = h(it, v, fr)
            if r is not NotImplemented:
                return r
        self.interfere(it)
        if isinstance(v, Coro):
            return self.run_coro(it, v)
        if isinstance(v, VRef) and isinstance(it.ctx.heap.get(v.addr), HObj) and it.ctx.heap[v.addr].cls == "ext:asyncio.Task":
            return models.await_task(it, v)
        return v

    def interfere(self, it):
        """At an await of the function under contract other tasks may run: the contract's `at_await`
        statements (its rely condition, e.g. "somebody adds a task") are executed, or not."""
        cur = self.current
        lines = getattr(cur, "at_await", None) if cur is not None else None
        fr = getattr(self, "entry_frame", None)
        if not lines or fr is None or it.ctx.nofork or getattr(self, "_interfering", False):
            return
        if it.ctx.choose("another task runs at this await"):
            self._interfering = True
            try:
                gfr = Frame(self.contract_module(cur), fr.locals, closure=None)   # same locals, spec vocabulary
                for line in lines:
                    it.exec_block(ast.parse(line).body, gfr)
            finally:
                self._interfering = False

    def run_coro(self, it, co):
        if co.done:
            raise Unsupported("coroutine awaited twice")
        co.done = True
        return co.thunk()

    def exec_with(self, it, node, fr):
        for h in self.with_hooks:
            r = h(it, node, fr)
            if r is not NotImplemented:
                return r
        raise Unsupported("with statement")

    def now(self, it):
        """datetime.now(): successive calls return non-decreasing instants now_0, now_1, ... (ghosts)."""
        ctx = it.ctx
        ctx.trusted.add("model:datetime.now() returns arbitrary non-decreasing instants (ghosts now_0, now_1, ..)")
        k = sum(1 for g in ctx.ghost if g.startswith("now_"))
        z = z3.Int(f"now_{k}")
        if k > 0:
            ctx.assume(zof(ctx.ghost[f"now_{k - 1}"].us, "int") <= z)
        v = VTime(S(z, "int"))
        ctx.ghost[f"now_{k}"] = v
        return v

    def len_model(self, it, x):
        return NotImplemented

    def symseq_method(self, it, t, name, args, kwargs):
        raise Unsupported(f"SymSeq.{name}")

    def genexp_is_symbolic(self, it, g):
        gi = g.node.generators[0].iter
        if isinstance(gi, ast.Call) and isinstance(gi.func, ast.Name) and gi.func.id == "enumerate" and len(gi.args) == 1:
            try:
                src = it.as_symbolic_iterable(it.eval(gi.args[0], g.fr))
            except Unsupported:
                return False
            return isinstance(src, SymSeq)
        try:
            src = it.eval(g.node.generators[0].iter, g.fr)
        except Unsupported:
            return False
        src = it.as_symbolic_iterable(src)
        g.cached_iter = src
        return isinstance(src, (SymSeq, SymSet, SymMap))

    def fold_symbolic(self, it, name, seq, kwargs, start=0):
        from . import folds
        return folds.fold_symbolic(self, it, name, seq, kwargs, start)

    def sorted_symbolic(self, it, seq, kwargs):
        from . import folds
        return folds.sorted_symbolic(self, it, seq, kwargs)

    # ------------------------------------------------------------------ symbolic values from shapes
    def make_sym(self, ctx, shape, name):
        k = shape.kind
        mode = ctx.mode
        if k == "real":
            return S(z3.Real(name), "real")
        if k == "fp":
            return S(z3.FP(name, FP), "fp")
        if k == "int":
            return S(z3.Int(name), "int")
        if k == "strid":
            z = z3.Int(name)
            ctx.assume(z >= 0)
            ctx.trusted.add("model:identifier strings = non-negative integers with the same equality and order")
            return S(z, "int")
        if k == "bool":
            return S(z3.Bool(name), "bool")
        if k == "time":
            return VTime(S(z3.Int(name), "int"))
        if k == "delta":
            return VDelta(S(z3.Int(name), "int"))
        if k == "none":
            return None
        if k == "opt":
            return VOpt(z3.Bool(name + "?none"), self.make_sym(ctx, shape.inner, name))
        if k == "qty":
            if mode == "ieee":
                return VQty(shape.unit, S(z3.FP(name, FP), "fp"))
            return VQty(shape.unit, S(z3.Real(name), "real"))
        if k == "rec":
            return VRec(shape.cls, {f: self.make_sym(ctx, s, f"{name}.{f}") for f, s in shape.fields.items()})
        if k == "obj":
            fields = {f: self.make_sym(ctx, s, f"{name}.{f}") for f, s in shape.fields.items()}
            return ctx.alloc(HObj(shape.cls, fields))
        if k == "tup":
            return tuple(self.make_sym(ctx, s, f"{name}[{i}]") for i, s in enumerate(shape.items))
        if k == "fixedlist":
            items = [self.make_sym(ctx, s, f"{name}[{i}]") for i, s in enumerate(shape.items)
                     if not shape.optional or ctx.branch(z3.Bool(f"{name}.has[{i}]"), f"{name} has item {i}")]
            if shape.container == "tuple":
                return tuple(items)
            if shape.container == "set":
                return ctx.alloc(HSet(items))
            return ctx.alloc(HList(items))
        if k == "enum":
            members = shape.members or self.enum_members(shape.cls)
            z = z3.Int(name)
            ctx.assume(z3.And(z >= 0, z < len(members)))
            return SEnum(shape.cls, list(members), z)
        if k == "const":
            return self.const_value(ctx, shape.value)
        if k == "oneof":
            for i, v in enumerate(shape.values[:-1]):
                if ctx.branch(z3.Bool(f"{name}.is[{i}]"), f"{name} == {v!r}"):
                    return self.const_value(ctx, v)
            return self.const_value(ctx, shape.values[-1])
        if k == "variant":
            for i, sh in enumerate(shape.shapes[:-1]):
                if ctx.branch(z3.Bool(f"{name}.variant[{i}]"), f"{name} is variant {i}"):
                    return self.make_sym(ctx, sh, name)
            return self.make_sym(ctx, shape.shapes[-1], name)
        if k == "task":
            oc = z3.Int(name + ".outcome")
            ctx.assume(z3.Or(*[oc == TASK_OUTCOMES.index(o) for o in shape.outcomes]))
            return ctx.alloc(HObj("ext:asyncio.Task", {
                "_done": S(z3.Bool(name + ".done"), "bool"), "_outcome": SEnum("task_outcome", list(TASK_OUTCOMES), oc),
                "callbacks": ctx.alloc(HList([])), "cancel_requested": False, "__methods__": {}, "__stream__": None,
                "calls": ctx.alloc(HList([])), "results": ctx.alloc(HList([]))}))
        if k == "subset":
            items = [e for e in shape.elems if ctx.branch(z3.Bool(f"{name}.has[{e!r}]"), f"{e!r} in {name}")]
            return frozenset(items) if shape.frozen else ctx.alloc(HSet(items))
        if k == "opaque":
            return Opaque(shape.tag)
        if k == "seq":
            n = z3.Int(name + ".len")
            ctx.assume(n >= 0)
            ctx.seq_lens.append(n)
            arrays = self.make_arrays(ctx, shape.elem, name, z3.IntSort())
            sq = SymSeq(n, ArrShape(self, shape.elem, ctx), arrays)
            sq.pyshape = shape
            if shape.container in ("list", "deque"):
                ml = None
                if shape.maxlen is not None:
                    ml = self.make_sym(ctx, shape.maxlen, name + ".maxlen") if hasattr(shape.maxlen, "kind") else shape.maxlen
                    ctx.assume(n <= zof(ml, "int"))
                return ctx.alloc(HSymList(sq, ml))
            return sq
        if k == "extobj":
            fields = {f: self.make_sym(ctx, sh, f"{name}.{f}") for f, sh in shape.fields.items()}
            fields["calls"] = ctx.alloc(HList([]))
            fields["results"] = ctx.alloc(HList([]))
            fields["__methods__"] = shape.methods
            fields["__stream__"] = shape.stream
            return ctx.alloc(HObj("ext:" + shape.cls, fields))
        if k == "keyset":
            from . import keysets
            ks = keysets.make_keyset(self, ctx, shape, name)
            ref = ctx.alloc(HKeySet(ks))
            keysets.enumeration(self, ctx.it, ks)   # finite; also what model extraction lists
            return ref
        if k == "dictopt":
            d = HOptDict()
            for key, vshape in shape.entries.items():
                kn = repr(key).replace(" ", "")
                has = True if key in shape.always else z3.Bool(f"{name}.has[{kn}]")
                d.entries[self.dict_key(key)] = [has, self.make_sym(ctx, vshape, f"{name}[{kn}]")]
            return ctx.alloc(d)
        if k == "setseq":
            n = z3.Int(name + ".len")
            ctx.assume(n >= 0)
            ctx.seq_lens.append(n)
            arrays = self.make_arrays(ctx, shape.elem, name, z3.IntSort())
            sq = SymSeq(n, ArrShape(self, shape.elem, ctx), arrays)
            sq.pyshape = shape
            sq.is_set = True
            it = ctx.it
            a = z3.Int(fresh_name("da"))
            b = z3.Int(fresh_name("db"))
            rng = z3.And(0 <= a, a < b, b < n)
            try:
                eq = it.try_nofork(rng, lambda: it.truth(it.equal(sq.get(a), sq.get(b))))
                eqz = zbool(eq) if not isinstance(eq, bool) else z3.BoolVal(eq)
                ctx.assume(z3.ForAll([a, b], z3.Implies(rng, z3.Not(eqz))))
            except Infeasible:
                pass
            return sq
        if k == "set":
            ks = self.key_sort(shape.elem)
            st = SymSet(z3.Array(name, ks, z3.BoolSort()), shape.elem)
            st.pyshape = shape
            if not shape.frozen:
                return ctx.alloc(HSymSet(st))
            return st
        if k == "map":
            ks = self.key_sort(shape.key)
            arrays = self.make_arrays(ctx, shape.val, name + ".val", ks)
            mp = SymMap(z3.Array(name + ".dom", ks, z3.BoolSort()), shape.key, ArrShape(self, shape.val, ctx), arrays)
            mp.pyshape = shape
            return mp
        raise Unsupported(f"shape {k}")

    def key_sort(self, shape):
        if shape.kind in ("int", "strid", "enum"):
            return z3.IntSort()
        raise Unsupported(f"key shape {shape.kind}")

    def make_arrays(self, ctx, shape, name, idx_sort):
        """Struct of arrays mirroring `shape` (idx_sort: one sort, or a list for nested arrays)."""
        k = shape.kind

        def arr(rng):
            if isinstance(idx_sort, (list, tuple)):
                srt = rng
                for d in reversed(idx_sort):
                    srt = z3.ArraySort(d, srt)
                return z3.Const(name, srt)
            return z3.Array(name, idx_sort, rng)
        if k in ("real",):
            return arr(z3.RealSort())
        if k == "fp":
            return arr(FP)
        if k in ("int", "strid", "time", "delta", "enum"):
            return arr(z3.IntSort())
        if k == "bool":
            return arr(z3.BoolSort())
        if k == "qty":
            return arr(FP if ctx.mode == "ieee" else z3.RealSort())
        if k == "opt":
            return (self.make_arrays(ctx, specmod.Bool, name + "?none", idx_sort), self.make_arrays(ctx, shape.inner, name, idx_sort))
        if k in ("rec", "obj"):
            return {f: self.make_arrays(ctx, s, f"{name}.{f}", idx_sort) for f, s in shape.fields.items()}
        if k == "tup":
            return [self.make_arrays(ctx, s, f"{name}[{i}]", idx_sort) for i, s in enumerate(shape.items)]
        if k == "const":
            return None
        if k == "opaque":
            return None
        if k == "dictopt":
            return {key: (self.make_arrays(ctx, specmod.Bool, f"{name}.has[{key!r}]", idx_sort),
                          self.make_arrays(ctx, vs, f"{name}[{key!r}]", idx_sort)) for key, vs in shape.entries.items()}
        raise Unsupported(f"array of {k}")

    def fresh_like(self, ctx, v, name):
        """Havoc: a fresh symbolic value with the same structure as v."""
        nm = fresh_name(name)
        if isinstance(v, bool):
            return S(z3.Bool(nm), "bool")
        if isinstance(v, int):
            return S(z3.Int(nm), "int")
        if isinstance(v, Fraction):
            return S(z3.Real(nm), "real")
        if isinstance(v, S):
            if v.kind == "fp":
                return S(z3.FP(nm, FP), "fp")
            return S(z3.Const(nm, v.z.sort()), v.kind)
        if isinstance(v, VOpt):
            return VOpt(z3.Bool(nm + "?none"), self.fresh_like(ctx, v.val, name))
        if v is None:
            return None
        if isinstance(v, VQty):
            return VQty(v.unit, self.fresh_like(ctx, v.val if not isinstance(v.val, (int, Fraction)) else
                                                (Fraction(0) if ctx.mode != "ieee" else S(z3.FPVal(0, FP), "fp")), name))
        if isinstance(v, VTime):
            return VTime(S(z3.Int(nm), "int"))
        if isinstance(v, VDelta):
            return VDelta(S(z3.Int(nm), "int"))
        if isinstance(v, tuple):
            return tuple(self.fresh_like(ctx, x, f"{name}{i}") for i, x in enumerate(v))
        if isinstance(v, VRec):
            return VRec(v.cls, {k: self.fresh_like(ctx, x, f"{name}.{k}") for k, x in v.fields.items()})
        if isinstance(v, (VEnum, SEnum)):
            members = self.enum_members(v.cls)
            z = z3.Int(nm)
            ctx.assume(z3.And(z >= 0, z < len(members)))
            return SEnum(v.cls, list(members), z)
        if isinstance(v, (Opaque, FuncRef, ClassRef, ExtRef, str)):
            return v
        if isinstance(v, VRef):
            return v  # objects keep identity; fields are havocked separately
        if isinstance(v, SymSeq):
            n = z3.Int(nm + ".len")
            ctx.assume(n >= 0)
            ctx.seq_lens.append(n)
            arrays = self.make_arrays(ctx, v.pyshape.elem, nm, z3.IntSort())
            sq = SymSeq(n, v.shape, arrays)
            sq.pyshape = v.pyshape
            return sq
        raise Unsupported(f"havoc of {v!r}")

    # ------------------------------------------------------------------ model extraction
    def extract_model(self, ctx, model):
        out = {}
        for name, (shape, val) in ctx.input_syms.items():
            try:
                out[name] = self.val_json(ctx, shape, val, model)
            except Exception as e:  # pylint: disable=broad-except
                out[name] = {"__error__": str(e)}
        ghost = {}
        for name, val in ctx.ghost.items():
            if isinstance(val, GhostSeq):
                continue
            try:
                ghost[name] = self.val_json(ctx, None, val, model)
            except Exception:  # pylint: disable=broad-except
                pass
        if ghost:
            out["__ghost__"] = ghost
        st = getattr(ctx, "state_for_model", None)
        if st:
            state = {}
            for name, val in st.items():
                if isinstance(val, (FuncRef, ClassRef, ModRef, ExtRef, GhostSeq)):
                    continue
                try:
                    state[name] = self.val_json(ctx, None, val, model)
                except Exception:  # pylint: disable=broad-except
                    pass
            out["__state__"] = state
        return out

    def zval(self, model, z):
        return model.eval(z, model_completion=True)

    def val_json(self, ctx, shape, v, model):
        if v is None:
            return None
        if isinstance(v, bool) or isinstance(v, int) and not isinstance(v, bool):
            return v
        if isinstance(v, Fraction):
            return {"q": [v.numerator, v.denominator]}
        if isinstance(v, str):
            return v
        if isinstance(v, S):
            r = self.zval(model, v.z)
            if v.kind == "bool":
                return bool(z3.is_true(r))
            if v.kind == "int":
                return r.as_long()
            if v.kind == "real":
                if z3.is_algebraic_value(r):
                    r = r.approx(20)
                return {"q": [r.numerator_as_long(), r.denominator_as_long()]}
            if v.kind == "fp":
                return {"fp": fp_to_str(r)}
        if isinstance(v, VOpt):
            if z3.is_true(self.zval(model, v.isnone)):
                return None
            return self.val_json(ctx, getattr(shape, "inner", None), v.val, model)
        if isinstance(v, VQty):
            return {"qty": v.unit, "v": self.val_json(ctx, None, v.val, model)}
        if isinstance(v, VTime):
            return {"time_us": self.val_json(ctx, None, v.us, model)}
        if isinstance(v, VDelta):
            return {"delta_us": self.val_json(ctx, None, v.us, model)}
        if isinstance(v, tuple):
            items = getattr(shape, "items", None)
            return {"tuple": [self.val_json(ctx, items[i] if items else None, x, model) for i, x in enumerate(v)]}
        if isinstance(v, VRec):
            fl = getattr(shape, "fields", {}) if shape is not None else {}
            return {"rec": v.cls, "fields": {k: self.val_json(ctx, fl.get(k), x, model) for k, x in v.fields.items()
                                              if not k.startswith("__")}}
        if isinstance(v, VEnum):
            return {"enum": v.cls, "member": v.name}
        if isinstance(v, SEnum):
            i = self.zval(model, v.z).as_long()
            return {"enum": v.cls, "member": v.members[i] if 0 <= i < len(v.members) else None}
        if isinstance(v, VRef):
            heap = ctx.old[1] if ctx.old is not None else ctx.heap
            h = heap.get(v.addr) or ctx.heap[v.addr]
            if isinstance(h, HSymSet):
                return self.val_json(ctx, None, h.val, model)
            if isinstance(h, HSymList):
                j = self.val_json(ctx, None, h.seq, model)
                if h.maxlen is not None:
                    j["maxlen"] = self.val_json(ctx, None, h.maxlen, model)
                return j
            if isinstance(h, HOptDict):
                out = []
                for k, e in h.entries.items():
                    has = e[0] if isinstance(e[0], bool) else z3.is_true(self.zval(model, e[0]))
                    if has:
                        out.append([self.val_json(ctx, None, k, model), self.val_json(ctx, None, e[1], model)])
                return {"dict": out}
            if isinstance(h, HKeySet):
                sq = h.val.enum
                if sq is None:
                    return {"list": [], "note": "set never enumerated"}
                return self.val_json(ctx, None, sq, model)
            if isinstance(h, HList):
                return {"list": [self.val_json(ctx, None, x, model) for x in h.items]}
            if isinstance(h, HSet):
                return {"set": [self.val_json(ctx, None, x, model) for x in h.items]}
            if isinstance(h, HDict):
                return {"dict": [[self.val_json(ctx, None, k, model), self.val_json(ctx, None, x, model)]
                                 for k, x in h.items.items()]}
            fl = getattr(shape, "fields", {}) if shape is not None else {}
            return {"obj": h.cls, "fields": {k: self.val_json(ctx, fl.get(k), x, model) for k, x in h.fields.items()}}
        if isinstance(v, SymSeq):
            n = self.zval(model, v.length).as_long()
            n = max(0, min(n, 12))
            return {"list": [self.val_json(ctx, None, v.get(z3.IntVal(i)), model) for i in range(n)],
                    "len": self.zval(model, v.length).as_long()}
        if isinstance(v, SymMap):
            cands = set(range(-4, 12))
            for dcl in model.decls():
                try:
                    val = model[dcl]
                    if z3.is_int_value(val):
                        cands.add(val.as_long())
                except Exception:  # pylint: disable=broad-except
                    pass
            out = []
            for kk in sorted(cands):
                if z3.is_true(self.zval(model, z3.Select(v.dom, z3.IntVal(kk)))):
                    out.append([kk, self.val_json(ctx, None, v.get(z3.IntVal(kk)), model)])
            return {"dict": out}
        if isinstance(v, SymSet):
            cands = set(range(-4, 12))
            for _, (sh, iv) in ctx.input_syms.items():
                if isinstance(iv, S) and iv.kind == "int":
                    try:
                        cands.add(self.zval(model, iv.z).as_long())
                    except Exception:  # pylint: disable=broad-except
                        pass
            for dcl in model.decls():
                try:
                    val = model[dcl]
                    if z3.is_int_value(val):
                        cands.add(val.as_long())
                except Exception:  # pylint: disable=broad-except
                    pass
            return {"set": sorted(kk for kk in cands if z3.is_true(self.zval(model, z3.Select(v.member, z3.IntVal(kk)))))}
        if isinstance(v, frozenset):
            return {"frozenset": sorted(v)}
        if isinstance(v, Opaque):
            return {"opaque": v.tag}
        return {"repr": repr(v)}

    def second_opinion(self, ctx, solver):
        """z3 said unknown: try cvc5 and the other z3 binaries on the SMT-LIB text."""
        self.second_opinions += 1
        smt = solver.to_smt2()
        with tempfile.NamedTemporaryFile("w", suffix=".smt2", delete=False, dir=os.environ.get("PYVC_TMP")) as fh:
            fh.write(smt)
            path = fh.name
        try:
            sc = getattr(ctx, "load_scale", 1.0)
            for backend, cmd in (("cvc5", ["/usr/bin/cvc5", f"--tlimit={int(30000 * sc)}", path]),
                                 ("z3-4.8", ["/usr/bin/z3", f"-T:{int(30 * sc)}", path])):
                try:
                    r = subprocess.run(cmd, capture_output=True, text=True, timeout=int(40 * sc), check=False)
                except (subprocess.TimeoutExpired, FileNotFoundError):
                    continue
                out = r.stdout.strip().splitlines()
                if out and out[0].strip() == "unsat":
                    return "valid", None, backend
                if out and out[0].strip() == "sat":
                    return "refuted", None, backend
            return "unknown", None, "z3+cvc5"
        finally:
            os.unlink(path)

    # ------------------------------------------------------------------ loops with invariants
    def loop_key(self, it, node, fr):
        if isinstance(node, ast.While):
            return "while " + it.src(node.test, fr)
        pre = "async for " if isinstance(node, ast.AsyncFor) else "for "
        return pre + it.src(node.target, fr) + " in " + it.src(node.iter, fr)

    def loop_spec(self, it, node, fr):
        cur = self.current
        if cur is None or not cur.loops:
            return None
        key = self.loop_key(it, node, fr)
        if fr.fn is not self.current_fn and key not in cur.loops and not getattr(self, "_symbolic_loop", False):
            return None
        sp = cur.loops.get(key)
        if sp is None:
            # long headers are abbreviated by src(): a declared key that continues the abbreviated text is the same loop
            for k in cur.loops:
                if len(key) >= 100 and k.startswith(key):
                    key, sp = k, cur.loops[k]
                    break
        if sp is None and fr.fn is not None and (fr.fn is self.current_fn or getattr(self, "_symbolic_loop", False)):
            # (also for loops of helper functions executed inline: code may have been moved into a new helper)
            # the loop header was edited: a declared loop with the same target (`for x in ...`) / the only declared
            # `while` keeps its invariant, so that the changed loop is still checked against it
            head = key.split(" in ")[0] + " in " if not isinstance(node, ast.While) else "while "
            ck = (id(self.current_fn), id(fr.fn), "exact_loop_keys")
            if getattr(self, "_exact_keys_cache", (None, None))[0] != ck:
                # declared loops that some loop of the function matches literally are not up for grabs
                exact = set()
                nodes = list(ast.walk(self.current_fn)) + (list(ast.walk(fr.fn)) if fr.fn is not self.current_fn else [])
                for n in nodes:
                    if isinstance(n, (ast.For, ast.AsyncFor, ast.While)):
                        try:
                            exact.add(self.loop_key(it, n, fr))
                        except Exception:  # pylint: disable=broad-except
                            pass
                self._exact_keys_cache = (ck, exact)
            taken = self._exact_keys_cache[1]
            cands = [k for k in cur.loops if k.startswith(head) and k not in taken]
            if not cands and not isinstance(node, ast.While) and isinstance(node.target, ast.Name):
                # the loop variable was renamed: the only remaining declared loop of the same kind keeps its
                # invariant, and the declared variable name stays readable in its clauses (an alias)
                kind = "async for " if isinstance(node, ast.AsyncFor) else "for "
                cands = [k for k in cur.loops if k.startswith(kind) and k not in taken
                         and k[len(kind):].split(" in ")[0].isidentifier()]
                if len(cands) == 1:
                    self.loop_alias = getattr(self, "loop_alias", {})
                    self.loop_alias[cands[0]] = (cands[0][len(kind):].split(" in ")[0], node.target.id)
            if len(cands) == 1:
                key = cands[0]
                sp = cur.loops[key]
                # remembered: an invariant written for another loop header may simply no longer fit the code
                self.current_report.fallback_loops.add(key)
        if sp is not None:
            self.current_report.loops_used.add(key)
        return sp

    def assigned_names(self, body):
        names = []

        class V(ast.NodeVisitor):
            def visit_Name(self, n):
                if isinstance(n.ctx, ast.Store) and n.id not in names:
                    names.append(n.id)

            def visit_FunctionDef(self, n):
                pass

            def visit_Lambda(self, n):
                pass
        for st in body:
            V().visit(st)
        return names

    def exec_loop_with_invariant(self, it: Interp, node, fr, spec, iterable=None):
        ctx = it.ctx
        key = self.loop_key(it, node, fr)
        fname = self.current.target.split(":")[-1]
        invs = spec.get("invariant", {})
        idx = spec.get("idx", "_i")
        is_for = not isinstance(node, ast.While)
        seq = None
        stream = None
        if is_for:
            from .values import Stream
            if isinstance(iterable, SymSeq):
                seq = iterable
            elif isinstance(iterable, Stream):
                stream = iterable
            elif isinstance(iterable, VRef) or isinstance(iterable, tuple):
                items = it.iterate_concrete(iterable)
                raise Unsupported("invariant on a loop over a concrete sequence (would be unrolled)")
            else:
                raise Unsupported(f"loop with invariant over {iterable!r}")
            fr.locals[idx] = 0
            if "seq_name" in spec:
                fr.locals[spec["seq_name"]] = seq

        def check_invs(kind):
            sfr = self.spec_frame(fr)
            for nm, expr in invs.items():
                g = self.eval_clause(it, expr, sfr)
                ctx.check(f"{fname}::loop[{key}].{kind}.{nm}", g, kind="loop_" + kind, state=dict(fr.locals))

        gfr_ = Frame(self.contract_module(self.current), fr.locals, closure=None)
        for line in spec.get("ghost_init", []):
            it.exec_block(ast.parse(line).body, gfr_)
        check_invs("init")
        # havoc everything the body may assign
        targets = self.assigned_names(node.body)
        for line in spec.get("ghost_stmts", []):
            for st in ast.parse(line).body:
                for n in ast.walk(st):
                    # ghost variables assigned (or updated through a subscript/attribute) by the ghost code
                    if isinstance(n, (ast.Assign, ast.AugAssign)):
                        for t in (n.targets if isinstance(n, ast.Assign) else [n.target]):
                            base = t
                            while isinstance(base, (ast.Subscript, ast.Attribute)):
                                base = base.value
                            if isinstance(base, ast.Name) and base.id not in targets:
                                targets.append(base.id)
        if is_for:
            targets += self.assigned_names([ast.Expr(node.target)]) if False else []
            for n in ast.walk(node.target):
                if isinstance(n, ast.Name) and n.id not in targets:
                    targets.append(n.id)
        hv = spec.get("havoc", {})
        for nme in hv:
            if nme not in targets:
                targets.append(nme)      # mutated in place by the body (e.g. list.append): declared explicitly
        for nme in targets:
            if nme in hv:
                fr.locals[nme] = self.make_sym(ctx, hv[nme], fresh_name(nme))
            elif nme in fr.locals:
                fr.locals[nme] = self.fresh_like(ctx, fr.locals[nme], nme)
        for nme, shape in spec.get("havoc_objects", {}).items():
            # the object a local name refers to is mutated in place by the body: fresh contents, same identity
            self.havoc_object(ctx, fr.locals[nme], shape, nme)
        for obj_attr, shape in spec.get("havoc_fields", {}).items():
            parts = obj_attr.split(".")
            ef_ = getattr(self, "entry_frame", None)
            ref = (fr.locals[parts[0]] if parts[0] in fr.locals else
                   ef_.locals[parts[0]] if ef_ is not None and parts[0] in ef_.locals else ctx.ghost[parts[0]])
            for p in parts[1:-1]:
                ref = ref.val if isinstance(ref, VOpt) else ref
                ref = ctx.heap[ref.addr].fields[p]
            ref = ref.val if isinstance(ref, VOpt) else ref
            if ref is None:
                continue
            ctx.heap[ref.addr].fields[parts[-1]] = self.make_sym(ctx, shape, fresh_name(obj_attr))
        if is_for:
            iz = z3.Int(fresh_name(idx))
            fr.locals[idx] = S(iz, "int")
            if seq is not None:
                ctx.assume(z3.And(iz >= 0, iz <= seq.length))
            else:
                ctx.assume(iz >= 0)
        sfr = self.spec_frame(fr)
        for nm, expr in invs.items():
            g = self.eval_clause(it, expr, sfr)
            ctx.assume(zbool(g) if not isinstance(g, bool) else g)
        # one arbitrary iteration, or exit
        if is_for and stream is not None:
            enter = ctx.choose(f"stream yields another item: {key}")
        elif is_for:
            enter = ctx.branch(iz < seq.length, f"loop continues: {key}")
        else:
            enter = it.decide(it.eval(node.test, fr), it.src(node.test, fr))
        if enter:
            broke = False
            try:
                if is_for and stream is not None:
                    it.assign_target(node.target, self.make_sym(ctx, stream.shape, fresh_name("item")), fr)
                elif is_for:
                    it.assign_target(node.target, seq.get(iz), fr)
                al = getattr(self, "loop_alias", {}).get(next((k for k, v in self.current.loops.items() if v is spec), None))
                if al is not None and al[1] in fr.locals:
                    fr.locals[al[0]] = fr.locals[al[1]]
                injected = [k for k in ctx.ghost if k not in fr.locals]
                for k in injected:
                    fr.locals[k] = ctx.ghost[k]     # the contract's ghost inputs are readable in ghost code
                for line in spec.get("ghost_pre", []):
                    it.exec_block(ast.parse(line).body, Frame(self.contract_module(self.current), fr.locals, closure=None))
                for k in injected:
                    fr.locals.pop(k, None)
                it.exec_block(node.body, fr)
            except _Continue:
                pass
            except _Break:
                broke = True
            if not broke:
                injected = [k for k in ctx.ghost if k not in fr.locals]
                for k in injected:
                    fr.locals[k] = ctx.ghost[k]
                for line in spec.get("ghost_stmts", []):
                    it.exec_block(ast.parse(line).body, Frame(self.contract_module(self.current), fr.locals, closure=None))
                for k in injected:
                    fr.locals.pop(k, None)
                if is_for:
                    fr.locals[idx] = mk(iz + 1, "int")
                check_invs("preserve")
                # transition clauses: must hold after every iteration (checked, never assumed)
                sfr2 = self.spec_frame(fr)
                for nm, expr in spec.get("step", {}).items():
                    g = self.eval_clause(it, expr, sfr2)
                    ctx.check(f"{fname}::loop[{key}].step.{nm}", g, kind="loop_preserve", state=dict(fr.locals))
                rep_ = getattr(self, "current_rep", None)
                if rep_ is not None and getattr(self.current, "never_returns", False):
                    # a function that never returns: a completed loop iteration plays the role of an exit in the
                    # vacuity guard (its path condition must have a model)
                    rep_.exits += 1
                    nv = ctx.nonvacuous() if rep_.live_exits == 0 else "skipped"
                    if nv is True:
                        rep_.live_exits += 1
                    elif nv is None:
                        rep_.unknown_exits += 1
                raise PathEnd()
            return
        it.exec_block(node.orelse, fr)

    def spec_frame(self, fr):
        """Frame in which loop invariants are evaluated: the function's locals + spec vocabulary."""
        cm = self.contract_module(self.current)
        sfr = Frame(cm, {}, closure=None)
        ef = getattr(self, "entry_frame", None)
        if ef is not None and ef is not fr:
            # inside an inlined callee: the contract's aliases / ghost variables stay visible
            for nme in list(getattr(self.current, "aliases", {})) + list(getattr(self, "spec_locals", {})):
                if nme in ef.locals:
                    sfr.locals[nme] = ef.locals[nme]
        sfr.locals.update(fr.locals)
        sfr.is_spec_root = True
        sfr.locals.update(self.ctx_now.ghost)
        return sfr

    def contract_module(self, c):
        return self.repo.find(c.__module__)

    def eval_clause(self, it, expr, sfr):
        """Evaluate a clause (python expression text) to python bool / z3 Bool."""
        node = self.parse_clause(expr)
        v = it.eval(node, sfr)
        t = it.truth(v)
        return t

    _clause_cache = {}

    def parse_clause(self, expr):
        n = self._clause_cache.get(expr)
        if n is None:
            n = ast.parse(expr.strip(), mode="eval").body
            self._clause_cache[expr] = n
        return n

    # ------------------------------------------------------------------ calls by contract
    def call_by_contract(self, it: Interp, c, f: FuncRef, args, kwargs):
        ctx = it.ctx
        target = c.target
        self.current_report.uses_contracts.add(target)
        if getattr(c, "assumed", False):
            ctx.trusted.add(f"assumed-contract:{getattr(c, 'key', target)} (not proved; see its docstring)")
        cm = self.contract_module(c)
        sfr = Frame(cm, {}, closure=None)
        sfr.is_spec_root = True
        it.bind_params(f.node.args, args, kwargs, sfr, f)
        for pn, shp in c.shapes.items():
            if shp.kind == "keyset" and pn in sfr.locals:
                sfr.locals[pn] = self.coerce_keyset(it, shp, sfr.locals[pn])
        short = target.split(":")[-1]
        for nm, expr in c.requires.items():
            if self.clause_names(expr) & set(c.ghost):
                continue   # about the callee's own ghost collaborators (not visible to this caller)
            g = self.eval_clause(it, expr, sfr)
            ctx.check(f"{self.current.target.split(':')[-1]}::call[{short}].requires.{nm}", g, kind="precondition")
            ctx.assume(zbool(g) if not isinstance(g, bool) else g)
        # instants the callee asks the clock for (its clauses call them now_0, now_1, ..)
        import re as _re
        used_nows = set()
        for txt in list(c.ensures.values()) + [v for v in c.raises.values() if isinstance(v, str)]:
            used_nows |= {int(m) for m in _re.findall(r"\bnow_(\d+)\b", txt)}
        for j in range(max(used_nows) + 1 if used_nows else 0):
            sfr.locals[f"now_{j}"] = self.now(it)
        # exceptional outcomes allowed by the callee's contract
        for exc, cond in c.raises.items():
            g = self.eval_clause(it, cond, sfr) if isinstance(cond, str) else cond
            if g is False:
                continue
            if g is True:
                if ctx.choose(f"{short} raises {exc}"):
                    raise PyRaise(exc)
            elif ctx.branch(g, f"{short} raises {exc}"):
                # the contract says it MAY raise under g
                if getattr(c, "raises_exactly", False) or ctx.choose(f"{short} raises {exc}"):
                    raise PyRaise(exc)
        saved_old = ctx.old
        old_locals = dict(sfr.locals)
        old_heap = ctx.snapshot_heap()
        # frame: havoc what the callee may modify
        for path in c.modifies:
            if path.split(".")[0] not in sfr.locals:
                continue   # a ghost collaborator of the callee: not visible to this caller
            self.havoc_path(it, sfr, path, c)
        result = None
        if c.result is not None:
            result = self.make_sym(ctx, c.result, fresh_name("ret_" + short.split(".")[-1]))
        sfr.locals["result"] = result
        ctx.old = (old_locals, old_heap)
        hints = getattr(self.current, "instantiate", {}).get(target, [])
        ctx.assuming += 1
        try:
            for nm, expr in c.ensures.items():
                used = self.clause_names(expr) & set(c.ghost)
                if not used:
                    g = self.eval_clause(it, expr, sfr)
                    ctx.assume(zbool(g) if not isinstance(g, bool) else g)
                    continue
                # clause quantified over the callee's ghosts: instantiate with the caller's hints
                for hint in hints:
                    if not used <= set(hint):
                        continue
                    hfr = Frame(cm, dict(sfr.locals), closure=None)
                    hfr.is_spec_root = True
                    try:
                        efr = Frame(cm, dict(ctx.ghost), closure=None)
                        efr.locals.update(sfr.locals)
                        for gname, gexpr in hint.items():
                            # hint expressions range over the callee's parameters and result
                            # (and the caller's ghosts)
                            hfr.locals[gname] = it.eval(self.parse_clause(gexpr), efr)
                    except (PyRaise, Infeasible, NeedFork):
                        continue
                    g = self.eval_clause(it, expr, hfr)
                    ctx.assume(zbool(g) if not isinstance(g, bool) else g)
        finally:
            ctx.old = saved_old
            ctx.assuming -= 1
        return result

    def clause_names(self, expr):
        return {n.id for n in ast.walk(self.parse_clause(expr)) if isinstance(n, ast.Name)}

    def coerce_keyset_any(self, it, v, keyfields):
        """Concrete set of records -> key map, shape inferred from a declared KeySet with these key fields."""
        for c in list(specmod.CONTRACTS.values()):
            for shp in list(c.shapes.values()) + ([c.self_shape] if c.self_shape is not None else []):
                found = find_keyset_shape(shp, tuple(keyfields))
                if found is not None:
                    return self.coerce_keyset(it, found, v)
        raise Unsupported("no KeySet shape declared for these key fields")

    def coerce_keyset(self, it, shape, v):
        """A concrete python set of records -> the key-map representation."""
        from . import keysets
        if isinstance(v, VRef):
            h = it.ctx.deref(v)
            if isinstance(h, HSet):
                ks = keysets.empty_keyset(self, it.ctx, shape)
                for x in h.items:
                    ks = keysets.add(self, it, ks, x)
                return it.ctx.alloc(HKeySet(ks))
        return v

    def havoc_path(self, it, sfr, path, c):
        """`param`, `param.field` or `param.field.field..`: replace by a fresh value of the declared shape."""
        ctx = it.ctx
        parts = path.split(".")
        obj = sfr.locals[parts[0]]
        shape = c.self_shape if parts[0] == "self" else c.shapes.get(parts[0])
        override = getattr(c, "havoc_shapes", {}).get(path)
        if len(parts) == 1:
            self.havoc_object(ctx, obj, override or shape, path)
            return
        for p in parts[1:-1]:
            h = ctx.heap[obj.addr]
            obj = h.fields[p]
            shape = shape.fields.get(p) if shape is not None and hasattr(shape, "fields") else None
        attr = parts[-1]
        h = ctx.heap[obj.addr]
        fshape = override or (shape.fields.get(attr) if shape is not None and hasattr(shape, "fields") else None)
        if fshape is not None:
            h.fields[attr] = self.make_sym(ctx, fshape, fresh_name(path))
        else:
            h.fields[attr] = self.fresh_like(ctx, h.fields[attr], path)

    def havoc_object(self, ctx, ref, shape, name):
        """Havoc the contents of the object `ref` points to (identity kept)."""
        if isinstance(ref, VOpt):
            ref = ref.val
        if ref is None:
            return
        if not isinstance(ref, VRef):
            raise Unsupported(f"modifies {name}: not an object")
        h = ctx.heap[ref.addr]
        if shape is None:
            raise Unsupported(f"modifies {name}: no shape declared")
        fresh = self.make_sym(ctx, shape, fresh_name(name))
        if isinstance(fresh, VRef):
            hf = ctx.heap.pop(fresh.addr)
            ctx.heap[ref.addr] = hf
        else:
            raise Unsupported(f"modifies {name}: shape is not an object shape")

    # ------------------------------------------------------------------ verifying one function
    def verify_function(self, c, regimes=None) -> FunctionReport:
        rep = FunctionReport(getattr(c, "key", c.target))
        self.checked = set()
        t_start = time.time()
        self.current = c
        self.current_report = rep
        try:
            mi, clsnode, fn = self.repo.function_node(c.target)
        except KeyError as e:
            # the method may have moved to a base class (a refactoring into a common base): inherited methods count
            found = None
            try:
                modname, qual = c.target.split(":")
                if "." in qual and "method not found" in str(e):
                    cname, mname = qual.split(".", 1)
                    ci = self.class_info(f"{modname}:{cname}")
                    owner = ci._owner(mname) if ci is not None else None  # pylint: disable=protected-access
                    if owner is not None:
                        found = self.repo.function_node(f"{getattr(owner.module, 'name', owner.module)}:{owner.name}.{mname}")
            except Exception:  # pylint: disable=broad-except
                found = None
            if found is None:
                rep.error = f"contract out of date: {e}"
                return rep
            mi, clsnode, fn = found
            rep.trusted.add(f"{c.target} is inherited from {mi.name}:{clsnode.name}")
        self.current_fn = fn
        rep.source_hash = node_hash(mi, fn)
        worklist = [[]]
        max_paths = c.max_paths
        regimes = regimes or []
        while worklist:
            prefix = worklist.pop()
            rep.paths += 1
            if rep.paths > max_paths:
                rep.error = f"path budget exceeded ({max_paths})"
                break
            reset_fresh()
            self.ufs = {}
            self.global_cache = {}
            ctx = Ctx(self, prefix, mode="ieee" if c.mode == "ieee" else "real", timeout_ms=self.timeout_ms)
            ctx.function = c.target.split(":")[-1]
            it = Interp(self, ctx)
            ctx.it = it
            self.ctx_now = ctx
            try:
                self.run_path(it, c, mi, clsnode, fn, rep, regimes)
            except Infeasible:
                pass
            except PathEnd:
                pass
            except Unsupported as e:
                rep.error = f"unsupported: {e}"
                rep.obligations.extend(ctx.obligations)
                break
            except NeedFork:
                import traceback
                rep.error = "internal: NeedFork escaped: " + " | ".join(
                    l.strip() for l in traceback.format_exc().splitlines()[-14:] if l.strip().startswith("File"))[-900:]
                break
            worklist.extend(ctx.new_forks)
            self.collect(rep, ctx, regimes)
            if os.environ.get("PYVC_DEBUG"):
                print(f"  [path {rep.paths}] decisions={len(ctx.decisions)} obligations={len(ctx.obligations)} "
                      f"solver={ctx.solver_time:.2f}s labels={[l[:40] + ('' if t else ' (no)') for l, t in ctx.path_labels][-4:]}", flush=True)
        declared = set(c.loops)
        if rep.error is None and declared - rep.loops_used:
            if rep.obligations and all(ob.status == "valid" for ob in rep.obligations) and rep.live_exits > 0:
                # the loop the invariant was written for is gone (rewritten as a comprehension, say) and everything was
                # proved without it: the declaration is merely unused
                rep.trusted.add(f"unused loop invariant(s) (loop not in the source any more): {sorted(declared - rep.loops_used)}")
            else:
                rep.error = f"contract out of date: loop(s) not found in source: {sorted(declared - rep.loops_used)}"
        rep.wall = time.time() - t_start
        self.current = None
        return rep

    def collect(self, rep, ctx, regimes):
        excluded_path = None
        for rg in regimes:
            if rg.get("kind") == "path":
                for label, taken in ctx.path_labels:
                    if label == rg["branch_text"] and taken == rg.get("taken", True):
                        excluded_path = rg
        for ob in ctx.obligations:
            if excluded_path is not None and ob.kind in ("ensures", "raises", "loop_preserve") and \
                    (not excluded_path.get("obligations") or any(ob.name.endswith(o) for o in excluded_path["obligations"])):
                ob.status_before = ob.status
                rep.excluded.append((ob, excluded_path.get("id", "?")))
            else:
                rep.obligations.append(ob)
        rep.trusted |= ctx.trusted
        rep.solver_time += ctx.solver_time

    def run_path(self, it: Interp, c, mi, clsnode, fn, rep, regimes):
        ctx = it.ctx
        cm = self.contract_module(c)
        fr = Frame(mi, {}, fn=fn, cls=f"{mi.name}:{clsnode.name}" if clsnode is not None else None)
        params = [a.arg for a in fn.args.posonlyargs + fn.args.args + fn.args.kwonlyargs]
        if fn.args.vararg:
            params.append(fn.args.vararg.arg)
        for p in params:
            if p == "self" and c.self_shape is not None:
                shape = c.self_shape
            elif p in c.shapes:
                shape = c.shapes[p]
            else:
                raise Unsupported(f"no shape declared for parameter {p}")
            if shape.kind == "alias":
                continue
            v = self.make_sym(ctx, shape, p)
            fr.locals[p] = v
            ctx.input_syms[p] = (shape, v)
        for p in params:
            shape = c.shapes.get(p)
            if shape is not None and shape.kind == "alias":
                afr = Frame(cm, dict(fr.locals), closure=None)
                fr.locals[p] = it.eval(self.parse_clause(shape.expr), afr)
        for g, shape in c.ghost.items():
            v = self.make_sym(ctx, shape, "ghost_" + g)
            ctx.ghost[g] = v
        sfr = Frame(cm, dict(fr.locals), closure=None)
        sfr.is_spec_root = True
        sfr.locals.update(ctx.ghost)
        for gname, gs in c.ghost_seqs.items():
            self.define_ghost_seq(it, sfr, gname, gs)
        for an, aexpr in getattr(c, "aliases", {}).items():
            av = it.eval(self.parse_clause(aexpr), sfr)
            fr.locals[an] = av
            sfr.locals[an] = av
        for nm, expr in c.requires.items():
            g = self.eval_clause(it, expr, sfr)
            ctx.assume(zbool(g) if not isinstance(g, bool) else g)
        self.obl_regimes = []
        for rg in regimes:
            if rg.get("kind") == "input":
                g = self.eval_clause(it, rg["predicate"], sfr)
                if rg.get("obligations"):
                    # the finding concerns only these clauses: they are checked outside the regime, all others everywhere
                    self.obl_regimes.append((rg["obligations"], g, rg.get("id", "?")))
                    continue
                ctx.assume(z3.Not(zbool(g)) if not isinstance(g, bool) else (not g))
        if rep.cover_ok is None:
            r = ctx.solver.check()
            rep.cover_ok = (r == z3.sat) or (r == z3.unknown)
            if r == z3.unsat:
                rep.error = "vacuous: requires are contradictory"
                raise PathEnd()
        spec_names = {}
        for line in getattr(c, "ghost_init", []):
            gfr = Frame(cm, dict(fr.locals), closure=None)
            it.exec_block(ast.parse(line).body, gfr)
            for kname, kv in gfr.locals.items():
                if kname not in fr.locals:
                    fr.locals[kname] = kv
                    spec_names[kname] = kv
        self.entry_frame = fr
        self.spec_locals = spec_names
        old_locals = dict(fr.locals)
        old_locals.update(ctx.ghost)
        old_heap = ctx.snapshot_heap()
        ctx.old = (old_locals, old_heap)     # loop invariants may refer to the entry state
        outcome = None
        self.current_rep = rep
        try:
            it.exec_block(fn.body, fr)
            outcome = ("return", None)
        except _Return as r:
            outcome = ("return", r.value)
        except PyRaise as e:
            outcome = ("raise", e)
        rep.exits += 1
        nv = ctx.nonvacuous() if rep.live_exits == 0 else "skipped"
        if nv is True:
            rep.live_exits += 1
        elif nv is None:
            rep.unknown_exits += 1
        ctx.old = (old_locals, old_heap)
        post = Frame(cm, dict(old_locals), closure=None)
        post.is_spec_root = True
        # parameters keep their entry bindings in postconditions (python passes references;
        # rebinding a parameter name inside the body is not visible to the caller)
        post.locals.update(ctx.ghost)
        for kk in range(4):
            # instants never asked for are still nameable in clauses (they are unconstrained)
            if f"now_{kk}" not in post.locals:
                post.locals[f"now_{kk}"] = VTime(S(z3.Int(f"now_{kk}"), "int"))
        short = c.target.split(":")[-1]
        self.last_frame_locals = fr.locals
        if outcome[0] == "return":
            post.locals["result"] = outcome[1]
            for nm, expr in c.ensures.items():
                try:
                    g = self.eval_clause(it, expr, post)
                except PyRaise as e:
                    ctx.check(f"{short}::ensures.{nm}", False, detail=f"clause raised {e.cls}: {e.msg}")
                    continue
                for sfx, rg_g, rg_id in getattr(self, "obl_regimes", []):
                    if f"ensures.{nm}" in sfx:
                        if isinstance(rg_g, bool):
                            g = True if rg_g else g
                        else:
                            g = z3.Implies(z3.Not(zbool(rg_g)), zbool(g) if not isinstance(g, bool) else z3.BoolVal(g))
                        ctx.trusted.add(f"known finding {rg_id}: clause ensures.{nm} is checked only outside the finding's input regime")
                ctx.check(f"{short}::ensures.{nm}", g)
            self.check_frame(it, c, short, old_heap, old_locals)
        else:
            e = outcome[1]
            cls = e.cls if isinstance(e.cls, str) else "symbolic"
            allowed = None
            for exc, cond in c.raises.items():
                if isinstance(e.cls, str) and exc_is_subclass(e.cls, exc, ctx.extra_exc):
                    allowed = (exc, cond)
                    break
            if allowed is None:
                ctx.check(f"{short}::no_unexpected_exception", False, kind="raises",
                          detail=f"raises {cls}: {e.msg}")
            else:
                post.locals["result"] = None
                g = self.eval_clause(it, allowed[1], post) if isinstance(allowed[1], str) else allowed[1]
                ctx.check(f"{short}::raises.{allowed[0]}", g, kind="raises")
                for nm, expr in getattr(c, "ensures_on_raise", {}).items():
                    g = self.eval_clause(it, expr, post)
                    ctx.check(f"{short}::ensures_on_raise.{nm}", g)

    def define_ghost_seq(self, it, sfr, gname, gs):
        """G(0) = init; for 0 <= k < len(over): G(k+1) = step[prev := G(k), elem := over[k], k]."""
        ctx = it.ctx
        over = it.eval(self.parse_clause(gs["over"]), sfr)
        if not isinstance(over, SymSeq):
            raise Unsupported("ghost sequence over a non-symbolic sequence")
        shape = gs["shape"]
        arrays = self.make_arrays(ctx, shape, "ghostseq_" + gname, z3.IntSort())
        g = GhostSeq(gname, ArrShape(self, shape, ctx), arrays)
        ctx.ghost[gname] = g
        sfr.locals[gname] = g
        init = it.eval(self.parse_clause(gs["init"]), sfr)
        e0 = it.truth(it.equal(g.at(z3.IntVal(0)), init))
        ctx.assume(zbool(e0) if not isinstance(e0, bool) else e0)
        k = z3.Int(fresh_name("gk"))
        rng = z3.And(0 <= k, k < over.length)
        lfr = Frame(sfr.module, {"prev": g.at(k), "elem": over.get(k), "k": S(k, "int")}, closure=sfr)

        def thunk():
            nxt = it.eval(self.parse_clause(gs["step"]), lfr)
            return it.truth(it.equal(g.at(k + 1), nxt))
        try:
            body = it.try_nofork(rng, thunk)
        except Infeasible:
            return
        bz = zbool(body) if not isinstance(body, bool) else z3.BoolVal(body)
        pats = [z3.Select(a, k + 1) for a in leaves_of(arrays)][:1]
        ctx.assume(z3.ForAll([k], z3.Implies(rng, bz), patterns=pats))

    def check_frame(self, it, c, short, old_heap, old_locals):
        """Frame condition: only what `modifies` names (and what is reachable from it) may differ
        from the entry state.  `modifies` is what callers havoc, so it must be an upper bound."""
        ctx = it.ctx
        if getattr(c, "frame", "checked") == "unchecked":
            return
        allowed_fields = set()     # (addr, field)
        allowed_objs = set()       # addresses of objects that may change entirely

        def reach(v):
            if isinstance(v, VOpt):
                v = v.val
            if isinstance(v, VRef) and v.addr not in allowed_objs:
                allowed_objs.add(v.addr)
                h = old_heap.get(v.addr)
                if isinstance(h, HObj):
                    for x in h.fields.values():
                        reach(x)
                elif isinstance(h, (HList, HSet)):
                    for x in h.items:
                        reach(x)
                elif isinstance(h, HDict):
                    for x in h.items.values():
                        reach(x)
                elif isinstance(h, HOptDict):
                    for e in h.entries.values():
                        reach(e[1])
            elif isinstance(v, tuple):
                for x in v:
                    reach(x)
            elif isinstance(v, VRec):
                for x in v.fields.values():
                    reach(x)       # mutable objects held by an (immutable) record
        for gv in getattr(self, "spec_locals", {}).values():
            reach(gv)       # ghost variables of the contract (ghost_init) are the spec's own
        for path in c.modifies:
            parts = path.split(".")
            cur = old_locals.get(parts[0])
            if cur is None:
                cur = ctx.ghost.get(parts[0])
            ok = True
            for p in parts[1:-1]:
                cur = cur.val if isinstance(cur, VOpt) else cur
                if isinstance(cur, VRef) and isinstance(old_heap.get(cur.addr), HObj):
                    cur = old_heap[cur.addr].fields.get(p)
                elif isinstance(cur, VRec):
                    cur = cur.fields.get(p)
                else:
                    ok = False
                    break
            cur = cur.val if isinstance(cur, VOpt) else cur
            if ok and isinstance(cur, VRec) and len(parts) > 1:
                # a field of an immutable record that refers to a mutable object
                reach(cur.fields.get(parts[-1]))
                continue
            if ok and len(parts) == 1 and isinstance(cur, tuple):
                reach(cur)      # a *args tuple of mutable objects
                continue
            if not ok or not isinstance(cur, VRef):
                continue
            if len(parts) == 1:
                reach(cur)
                continue
            allowed_fields.add((cur.addr, parts[-1]))
            h = old_heap.get(cur.addr)
            if isinstance(h, HObj):
                reach(h.fields.get(parts[-1]))
        changed = []
        for addr, h0 in old_heap.items():
            if addr in allowed_objs:
                continue
            h1 = ctx.heap.get(addr)
            if h1 is None:
                continue   # scratch object allocated while evaluating an old() expression
            if isinstance(h0, HObj):
                for k, v in h0.fields.items():
                    if (addr, k) in allowed_fields or k.startswith("__"):
                        continue
                    v1 = h1.fields.get(k)
                    if v1 is not v and not self.same_value(it, v, v1):
                        changed.append(f"{h0.cls.split(':')[-1]}.{k}")
            elif isinstance(h0, HList):
                if len(h0.items) != len(h1.items) or any(a is not b for a, b in zip(h0.items, h1.items)):
                    changed.append("list")
            elif isinstance(h0, (HDict, HSet)):
                if list(h0.items) != list(h1.items) or (isinstance(h0, HDict) and any(
                        h0.items[k] is not h1.items[k] for k in h0.items)):
                    changed.append("dict/set")
            elif isinstance(h0, HKeySet):
                if h0.val is not h1.val:
                    changed.append("set of records")
            elif isinstance(h0, HSymList):
                if h0.seq is not h1.seq:
                    changed.append("list")
            elif isinstance(h0, HSymSet):
                if h0.val is not h1.val:
                    changed.append("set")
            elif isinstance(h0, HOptDict):
                if set(h0.entries) != set(h1.entries) or any(
                        h0.entries[k][0] is not h1.entries[k][0] or h0.entries[k][1] is not h1.entries[k][1]
                        for k in h0.entries):
                    changed.append("dict")
        if changed:
            ctx.check(f"{short}::frame.only_modifies_declared", False, kind="frame",
                      detail="modified outside `modifies`: " + ", ".join(sorted(set(changed))))
        else:
            ctx.check(f"{short}::frame.only_modifies_declared", True, kind="frame")

    def same_value(self, it, a, b):
        """Provably equal values (a re-assignment of an equal value is not a modification)."""
        try:
            t = it.truth(it.equal(a, b))
        except Exception:  # pylint: disable=broad-except
            return False
        if isinstance(t, bool):
            return t
        return not it.ctx.feasible(z3.Not(t))

    def check_pure(self, it, c, short, old_heap):
        """Frame condition of a pure function: no pre-existing heap object was modified."""
        ctx = it.ctx
        same = True
        for addr, h0 in old_heap.items():
            h1 = ctx.heap.get(addr)
            if isinstance(h0, HObj):
                for k, v in h0.fields.items():
                    if h1.fields.get(k) is not v:
                        same = False
            elif isinstance(h0, (HList,)):
                if len(h0.items) != len(h1.items) or any(a is not b for a, b in zip(h0.items, h1.items)):
                    same = False
            elif isinstance(h0, (HDict, HSet)):
                if list(h0.items) != list(h1.items):
                    same = False
            elif isinstance(h0, HKeySet):
                if h0.val is not h1.val:
                    same = False
            elif isinstance(h0, HSymList):
                if h0.seq is not h1.seq:
                    same = False
            elif isinstance(h0, HOptDict):
                if set(h0.entries) != set(h1.entries) or any(
                        h0.entries[k][0] is not h1.entries[k][0] or h0.entries[k][1] is not h1.entries[k][1]
                        for k in h0.entries):
                    same = False
        ctx.check(f"{short}::frame.pure", same, kind="frame")


def find_keyset_shape(shp, keyfields, depth=0):
    if shp is None or depth > 6:
        return None
    if shp.kind == "keyset" and tuple(shp.key) == tuple(keyfields):
        return shp
    for attr in ("fields", "entries"):
        d = getattr(shp, attr, None)
        if isinstance(d, dict):
            for s2 in d.values():
                r = find_keyset_shape(s2, keyfields, depth + 1)
                if r is not None:
                    return r
    for attr in ("inner", "elem"):
        s2 = getattr(shp, attr, None)
        if s2 is not None and hasattr(s2, "kind"):
            r = find_keyset_shape(s2, keyfields, depth + 1)
            if r is not None:
                return r
    return None


def leaves_of(arrays):
    from .folds import leaves
    return leaves(arrays)


class ArrShape:
    """Selects an element value out of a struct of arrays."""

    def __init__(self, engine, shape, ctx):
        self.engine = engine
        self.shape = shape
        self.mode = ctx.mode
        self.ctx = ctx

    def select(self, arrays, i, shape=None):
        shape = shape or self.shape
        k = shape.kind
        if isinstance(i, (tuple, list)):
            return self._select_nested(arrays, tuple(i), shape)
        if k == "real":
            return S(z3.Select(arrays, i), "real")
        if k == "fp":
            return S(z3.Select(arrays, i), "fp")
        if k in ("int", "strid"):
            return S(z3.Select(arrays, i), "int")
        if k == "bool":
            return S(z3.Select(arrays, i), "bool")
        if k == "time":
            return VTime(S(z3.Select(arrays, i), "int"))
        if k == "delta":
            return VDelta(S(z3.Select(arrays, i), "int"))
        if k == "qty":
            return VQty(shape.unit, S(z3.Select(arrays, i), "fp" if self.mode == "ieee" else "real"))
        if k == "opt":
            return VOpt(z3.Select(arrays[0], i), self.select(arrays[1], i, shape.inner))
        if k in ("rec", "obj"):
            # (an object stored in a symbolic map is read as an immutable record)
            return VRec(shape.cls, {f: self.select(arrays[f], i, s) for f, s in shape.fields.items()})
        if k == "dictopt":
            d = HOptDict()
            for key, vs in shape.entries.items():
                has = True if key in shape.always else z3.Select(arrays[key][0], i)
                d.entries[self.engine.dict_key(key)] = [has, self.select(arrays[key][1], i, vs)]
            return self.ctx.alloc(d)
        if k == "tup":
            return tuple(self.select(a, i, s) for a, s in zip(arrays, shape.items))
        if k == "enum":
            members = shape.members or self.engine.enum_members(shape.cls)
            return SEnum(shape.cls, list(members), z3.Select(arrays, i))
        if k == "const":
            return shape.value
        if k == "opaque":
            return Opaque(shape.tag)
        raise Unsupported(f"select of {k}")


def _nsel(arr, keys):
    for kk in keys:
        arr = z3.Select(arr, kk)
    return arr


def _select_nested(self, arrays, keys, shape):
    k = shape.kind
    if k in ("real", "fp", "bool"):
        return S(_nsel(arrays, keys), k)
    if k in ("int", "strid"):
        return S(_nsel(arrays, keys), "int")
    if k == "time":
        return VTime(S(_nsel(arrays, keys), "int"))
    if k == "delta":
        return VDelta(S(_nsel(arrays, keys), "int"))
    if k == "qty":
        return VQty(shape.unit, S(_nsel(arrays, keys), "fp" if self.mode == "ieee" else "real"))
    if k == "opt":
        return VOpt(_nsel(arrays[0], keys), _select_nested(self, arrays[1], keys, shape.inner))
    if k == "rec":
        return VRec(shape.cls, {f: _select_nested(self, arrays[f], keys, s) for f, s in shape.fields.items()})
    if k == "tup":
        return tuple(_select_nested(self, a, keys, s) for a, s in zip(arrays, shape.items))
    if k == "enum":
        members = shape.members or self.engine.enum_members(shape.cls)
        return SEnum(shape.cls, list(members), _nsel(arrays, keys))
    if k == "const":
        return shape.value
    if k == "opaque":
        return Opaque(shape.tag)
    raise Unsupported(f"select of {k}")


ArrShape._select_nested = _select_nested


def fp_to_str(r):
    try:
        if z3.is_fp(r):
            if z3.fpIsNaN(r) is not None and z3.is_true(z3.simplify(z3.fpIsNaN(r))):
                return "nan"
            if z3.is_true(z3.simplify(z3.fpIsInf(r))):
                return "-inf" if z3.is_true(z3.simplify(z3.fpIsNegative(r))) else "inf"
            s = str(z3.simplify(z3.fpToReal(r)))
            neg_zero = z3.is_true(z3.simplify(z3.And(z3.fpIsZero(r), z3.fpIsNegative(r))))
            if neg_zero:
                return "-0.0"
            return s
    except Exception:  # pylint: disable=broad-except
        pass
    return str(r)
