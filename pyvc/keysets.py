"""Sets of records identified by key fields (custom __eq__/__hash__), as finite maps."""
from __future__ import annotations

import z3

from .interp import zof, mk, zbool, Infeasible, PyRaise
from .values import (S, VOpt, VQty, VTime, VDelta, VRec, VRef, SEnum, VEnum, SymSeq, KeySetVal, HKeySet,
                     Unsupported, fresh_name, Opaque)


def nsel(arr, keys):
    for k in keys:
        arr = z3.Select(arr, k)
    return arr


def nstore(arr, keys, v):
    if len(keys) == 1:
        return z3.Store(arr, keys[0], v)
    inner = z3.Select(arr, keys[0])
    return z3.Store(arr, keys[0], nstore(inner, keys[1:], v))


def map_leaves(arrays, fn):
    if arrays is None:
        return None
    if isinstance(arrays, dict):
        return {k: map_leaves(v, fn) for k, v in arrays.items()}
    if isinstance(arrays, tuple):
        return tuple(map_leaves(v, fn) for v in arrays)
    if isinstance(arrays, list):
        return [map_leaves(v, fn) for v in arrays]
    return fn(arrays)


def flatten(engine, it, shape, v):
    """Value -> pytree of z3 terms parallel to engine.make_arrays(shape)."""
    k = shape.kind
    if k in ("real", "int", "strid", "bool", "fp"):
        return zof(v, {"strid": "int"}.get(k, k))
    if k == "qty":
        return zof(v.val, "fp" if it.ctx.mode == "ieee" else "real")
    if k == "time" or k == "delta":
        return zof(v.us, "int")
    if k == "enum":
        return it.enum_z(v)[2]
    if k == "opt":
        if v is None:
            return (z3.BoolVal(True), None)
        if isinstance(v, VOpt):
            return (v.isnone, flatten(engine, it, shape.inner, v.val))
        return (z3.BoolVal(False), flatten(engine, it, shape.inner, v))
    if k in ("rec", "obj"):
        return {f: flatten(engine, it, s, v.fields[f]) for f, s in shape.fields.items()}
    if k == "tup":
        return [flatten(engine, it, s, x) for s, x in zip(shape.items, v)]
    if k in ("const", "opaque"):
        return None
    raise Unsupported(f"flatten {k}")


def store_struct(arrays, flat, keys):
    if arrays is None:
        return None
    if isinstance(arrays, dict):
        return {k: store_struct(arrays[k], flat[k], keys) for k in arrays}
    if isinstance(arrays, tuple):
        # (isnone array, inner)
        if flat[1] is None:
            return (nstore(arrays[0], keys, flat[0]), arrays[1])
        return (nstore(arrays[0], keys, flat[0]), store_struct(arrays[1], flat[1], keys))
    if isinstance(arrays, list):
        return [store_struct(a, f, keys) for a, f in zip(arrays, flat)]
    return nstore(arrays, keys, flat)


def key_of(it, ks_shape, rec):
    return [zof(it.unwrap(rec.fields[f]), "int") for f in ks_shape.key]


def make_keyset(engine, ctx, shape, name):
    sorts = [z3.IntSort() for _ in shape.key]
    rng = z3.BoolSort()
    srt = rng
    for s in reversed(sorts):
        srt = z3.ArraySort(s, srt)
    present = z3.Const(name + ".present", srt)
    arrays = engine.make_arrays(ctx, shape.elem, name, sorts)
    return KeySetVal(shape, present, arrays)


def empty_keyset(engine, ctx, shape):
    ks = make_keyset(engine, ctx, shape, fresh_name("emptyset"))
    sorts = [z3.IntSort() for _ in shape.key]
    val = z3.BoolVal(False)
    for s in reversed(sorts):
        val = z3.K(s, val)
    ks.present = val
    return ks


def elem_at(engine, it, ks, keys):
    """The record stored under `keys` (key fields are the keys themselves)."""
    from .verify import ArrShape
    sh = ArrShape(engine, ks.shape.elem, it.ctx)
    rec = sh.select(ks.arrays, tuple(keys))
    fields = dict(rec.fields)
    for f, kz in zip(ks.shape.key, keys):
        fields[f] = S(kz, "int")
    return VRec(rec.cls, fields)


def contains(engine, it, ks, rec):
    rec = it.unwrap(rec)
    return mk(nsel(ks.present, key_of(it, ks.shape, rec)), "bool")


def add(engine, it, ks, rec):
    """set.add: an equal element already present is kept (python semantics)."""
    rec = it.unwrap(rec)
    keys = key_of(it, ks.shape, rec)
    there = nsel(ks.present, keys)
    flat = flatten(engine, it, ks.shape.elem, rec)
    new_arrays = store_struct(ks.arrays, flat, keys)
    merged = merge_arrays(there, ks.arrays, new_arrays)
    return KeySetVal(ks.shape, nstore(ks.present, keys, z3.BoolVal(True)), merged)


def merge_arrays(c, a, b):
    if a is None:
        return None
    if isinstance(a, dict):
        return {k: merge_arrays(c, a[k], b[k]) for k in a}
    if isinstance(a, tuple):
        return tuple(merge_arrays(c, x, y) for x, y in zip(a, b))
    if isinstance(a, list):
        return [merge_arrays(c, x, y) for x, y in zip(a, b)]
    return z3.If(c, a, b)


def remove(engine, it, ks, rec, must_exist=True):
    rec = it.unwrap(rec)
    keys = key_of(it, ks.shape, rec)
    there = nsel(ks.present, keys)
    if must_exist and it.ctx.branch(z3.Not(there), "element not in set"):
        raise PyRaise("KeyError")
    return KeySetVal(ks.shape, nstore(ks.present, keys, z3.BoolVal(False)), ks.arrays)


def enumeration(engine, it, ks):
    """An arbitrary duplicate-free enumeration of the set (python iteration order is arbitrary)."""
    if ks.enum is not None:
        return ks.enum
    from .verify import ArrShape
    ctx = it.ctx
    nm = fresh_name("enum")
    n = z3.Int(nm + ".len")
    ctx.assume(n >= 0)
    ctx.seq_lens.append(n)
    arrays = engine.make_arrays(ctx, ks.shape.elem, nm, z3.IntSort())
    sq = SymSeq(n, ArrShape(engine, ks.shape.elem, ctx), arrays)
    sq.pyshape = ks.shape
    sq.of_keyset = ks
    nk = len(ks.shape.key)
    idx = z3.Function(fresh_name("idx"), *([z3.IntSort()] * nk), z3.IntSort())
    sq.idx_fn = idx
    i = z3.Int(fresh_name("ei"))
    rng = z3.And(0 <= i, i < n)

    def thunk():
        e = sq.get(i)
        keys = key_of(it, ks.shape, e)
        stored = elem_at(engine, it, ks, keys)
        same = it.truth(it.engine.fieldwise_equal(it, e, stored))
        return z3.And(nsel(ks.present, keys), idx(*keys) == i, zbool(same) if not isinstance(same, bool) else z3.BoolVal(same))
    try:
        body = it.try_nofork(rng, thunk)
        ctx.assume(z3.ForAll([i], z3.Implies(rng, body)))
    except Infeasible:
        pass
    kv = [z3.Int(fresh_name("ek")) for _ in range(nk)]

    def thunk2():
        j = idx(*kv)
        e = sq.get(j)
        keys = key_of(it, ks.shape, e)
        return z3.And(0 <= j, j < n, *[a == b for a, b in zip(keys, kv)])
    pres = nsel(ks.present, kv)
    try:
        body2 = it.try_nofork(pres, thunk2)
        fact = z3.ForAll(kv, z3.Implies(pres, body2), patterns=[idx(*kv)])
        ctx.assume(fact)

        def closure(bound, _kv=kv, _pres=pres, _n=n, _sq=sq):
            """For n <= bound the fact is equivalent to: a present key is the key of one of E[0..n-1] (whose idx
            is pinned by the first enumeration axiom's instances) - a finite statement about the presence map that
            makes a model of the instances a model of the quantified fact."""
            alts = []
            for i0 in range(bound):
                e = _sq.get(z3.IntVal(i0))
                keys = key_of(it, ks.shape, e)
                alts.append(z3.And(i0 < _n, *[a == b for a, b in zip(keys, _kv)]))
            # stated with the bound variables kept universally quantified but over a decidable shape: the body only
            # mentions select(present, kv) and equalities between kv and finitely many ground keys
            return [z3.ForAll(_kv, z3.Implies(_pres, z3.Or(*alts) if alts else z3.BoolVal(False)))]
        ctx.closures = getattr(ctx, "closures", {})
        ctx.closures[fact.get_id()] = closure
    except Infeasible:
        pass
    ks.enum = sq
    return sq


def _lambda_over_keys(ks, body_fn):
    """A presence map k -> body_fn(keys) as a z3 lambda array (nested for composite keys; no quantified fact)."""
    nk = len(ks.shape.key)
    kv = [z3.Int(fresh_name("fk")) for _ in range(nk)]
    body = body_fn(kv)
    arr = body
    for v in reversed(kv):
        arr = z3.Lambda([v], arr)
    return arr


def filtered(engine, it, ks, cond_fn):
    """{x for x in ks if cond(x)}: the same stored records, present where they were present and cond holds."""
    def body(kv):
        elem = elem_at(engine, it, ks, kv)
        c = it.try_nofork(nsel(ks.present, kv), lambda: cond_fn(elem))
        c = c.z if isinstance(c, S) else c
        cz = z3.BoolVal(c) if isinstance(c, bool) else c
        return z3.And(nsel(ks.present, kv), cz)
    return KeySetVal(ks.shape, _lambda_over_keys(ks, body), ks.arrays)


def difference(engine, it, ks, other):
    """ks - other (set of records with the same key shape): presence removed where `other` has the key."""
    def body(kv):
        return z3.And(nsel(ks.present, kv), z3.Not(nsel(other.present, kv)))
    return KeySetVal(ks.shape, _lambda_over_keys(ks, body), ks.arrays)


def instantiate_enumeration_at(engine, it, ks, keys):
    """A clause asks about the key `keys` of a set that has been enumerated: hand the solver the instance of the
    enumeration axiom for exactly that key (present -> its position idx(keys) is in range and E[idx] is the record
    stored under the key).  An instance of a fact already assumed - it only spares the solver the search for it."""
    sq = ks.enum
    if sq is None or getattr(sq, "idx_fn", None) is None or it.ctx.in_quantifier:
        return
    done = it.ctx.__dict__.setdefault("_enum_instances", set())
    sig = (id(sq), tuple(k.get_id() if hasattr(k, "get_id") else k for k in keys))
    if sig in done:
        return
    done.add(sig)
    j = sq.idx_fn(*keys)
    try:
        def thunk():
            e = sq.get(j)
            ek = key_of(it, ks.shape, e)
            stored = elem_at(engine, it, ks, keys)
            same = it.truth(it.engine.fieldwise_equal(it, e, stored))
            same = zbool(same) if not isinstance(same, bool) else z3.BoolVal(same)
            return z3.And(0 <= j, j < sq.length, *[a == b for a, b in zip(ek, keys)], same)
        pres = nsel(ks.present, keys)
        body = it.try_nofork(pres, thunk)
        it.ctx.assume(z3.Implies(pres, body))
    except Infeasible:
        pass
