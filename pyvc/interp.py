"""Path-replay symbolic interpreter for the Python subset used by the code under contract.

One `Ctx` = one path through one function under contract.  `Ctx.branch` consults a
decision prefix (replay) and, beyond it, asks the solver which outcomes are feasible;
new forks are recorded so that the driver (verify.py) can enumerate every path by
re-executing the function from its entry.
"""
from __future__ import annotations

import ast
import copy
from fractions import Fraction

import z3

from .values import (S, VOpt, VQty, VTime, VDelta, VEnum, SEnum, VRec, VRef, HObj, HList, HDict,
                     HSet, SymSeq, SymSet, SymMap, FuncRef, ClassRef, ModRef, ExtRef,
                     BoundBuiltin, Opaque, Unsupported, fresh_name, zreal, float_literal)

FP = z3.Float64()
RNE = z3.RNE()


def has_quantifier(z, _memo=None):
    """Does the term contain a quantifier?  (memo is per call: z3 AST ids are reused after GC)"""
    if not z3.is_expr(z):
        return False
    if _memo is None:
        _memo = {}
    key = z.get_id()
    r = _memo.get(key)
    if r is not None:
        return r
    if z3.is_quantifier(z):
        r = True
    else:
        r = any(has_quantifier(c, _memo) for c in z.children())
    _memo[key] = r
    return r


def instantiate(q, bound):
    """All instances of a (possibly nested-in-conjunction) universally quantified fact at 0..bound-1."""
    import itertools
    if z3.is_quantifier(q) and q.is_forall():
        n = q.num_vars()
        out = []
        for combo in itertools.product(range(bound), repeat=n):
            # de Bruijn: var 0 is the innermost (last) bound variable
            vals = [z3.IntVal(v) if q.var_sort(n - 1 - k) == z3.IntSort() else None for k, v in enumerate(combo)]
            if any(v is None for v in vals):
                return [q]
            body = z3.substitute_vars(q.body(), *vals)
            if has_quantifier(body):
                out.extend(instantiate(body, bound))
            else:
                out.append(body)
        return out
    if z3.is_and(q):
        out = []
        for ch in q.children():
            out.extend(instantiate(ch, bound))
        return out
    if z3.is_implies(q) and not has_quantifier(q.arg(0)):
        return [z3.Implies(q.arg(0), z3.And(*instantiate(q.arg(1), bound)))]
    return [q]


def _bound_marks(c, lower, upper, neg=False):
    """Record which bound variables a guard conjunct bounds from below / above (v OP term or term OP v)."""
    if z3.is_not(c):
        return _bound_marks(c.arg(0), lower, upper, not neg)
    if c.num_args() != 2:
        return
    a, b = c.arg(0), c.arg(1)
    k = c.decl().kind()
    if k in (z3.Z3_OP_LE, z3.Z3_OP_LT):
        lo_side, hi_side = a, b            # a <= b : b bounded below by a, a bounded above by b
    elif k in (z3.Z3_OP_GE, z3.Z3_OP_GT):
        lo_side, hi_side = b, a
    else:
        return
    if neg:
        lo_side, hi_side = hi_side, lo_side   # not (a <= b)  ==  b < a
    if z3.is_var(hi_side):
        lower.add(z3.get_var_index(hi_side))
    if z3.is_var(lo_side):
        upper.add(z3.get_var_index(lo_side))


def index_guarded(q):
    """Is every universally quantified variable of the fact q confined to an index range (lo <= v, v < hi)?
    Only then do the instances at 0..K-1 (with all sequence lengths <= K) cover the whole quantifier, and a model of
    the instances is a model of the fact.  Quantifiers over keys / identifiers are not covered by instances."""
    if z3.is_quantifier(q):
        if not q.is_forall():
            return False
        n = q.num_vars()
        body = q.body()
        guard = rest = None
        if z3.is_implies(body):
            guard, rest = body.arg(0), body.arg(1)
        elif z3.is_or(body):
            # Or(Not(guard), consequent...) is the same implication
            for ch in body.children():
                if z3.is_not(ch):
                    guard = ch.arg(0)
                    others = [o for o in body.children() if o is not ch and not o.eq(ch)]
                    rest = z3.Or(*others) if len(others) > 1 else (others[0] if others else z3.BoolVal(False))
                    break
        if guard is None:
            return False
        conj = list(guard.children()) if z3.is_and(guard) else [guard]
        lower, upper = set(), set()
        for c in conj:
            _bound_marks(c, lower, upper)
        if not all(i in lower and i in upper for i in range(n)):
            return False
        return index_guarded(rest) if has_quantifier(rest) else True
    if z3.is_and(q):
        return all(index_guarded(ch) for ch in q.children())
    if z3.is_implies(q) and not has_quantifier(q.arg(0)):
        return index_guarded(q.arg(1))
    return not has_quantifier(q)


class PyRaise(Exception):
    """A Python exception raised by the analysed code. `cls` is a class name (str)."""

    def __init__(self, cls, msg=None, value=None):
        super().__init__(cls)
        self.cls = cls
        self.msg = msg
        self.value = value


class _Return(Exception):
    def __init__(self, value):
        self.value = value


class _Break(Exception):
    pass


class _Continue(Exception):
    pass


class PathEnd(Exception):
    """The current path ends here without an exit (e.g. after a loop-preservation check)."""


class Infeasible(Exception):
    """The current path condition is unsatisfiable."""


class NeedFork(Exception):
    """Raised inside a no-fork (merge) evaluation when a real fork or a side effect is needed."""


class CannotMerge(Exception):
    pass


EXC_PARENTS = {
    "BaseException": None,
    "Exception": "BaseException",
    "CancelledError": "BaseException",
    "KeyboardInterrupt": "BaseException",
    "SystemExit": "BaseException",
    "GeneratorExit": "BaseException",
    "BaseExceptionGroup": "BaseException",
    "ExceptionGroup": "Exception",
    "ArithmeticError": "Exception",
    "ZeroDivisionError": "ArithmeticError",
    "OverflowError": "ArithmeticError",
    "LookupError": "Exception",
    "KeyError": "LookupError",
    "IndexError": "LookupError",
    "TypeError": "Exception",
    "ValueError": "Exception",
    "AttributeError": "Exception",
    "RuntimeError": "Exception",
    "NotImplementedError": "RuntimeError",
    "AssertionError": "Exception",
    "StopIteration": "Exception",
    "StopAsyncIteration": "Exception",
    "OSError": "Exception",
    "TimeoutError": "OSError",
    "ReceiverError": "Exception",
    "ReceiverStoppedError": "ReceiverError",
    "SenderError": "Exception",
    "ChannelClosedError": "Exception",
    "ApiClientError": "Exception",
    "OperationOutOfRange": "ApiClientError",
    "GrpcError": "ApiClientError",
    "ServiceUnavailable": "GrpcError",
    "ClientNotConnected": "ApiClientError",
    "ResamplingError": "RuntimeError",
    "SourceStoppedError": "RuntimeError",
    "FormulaGenerationError": "Exception",
    "ComponentNotFound": "FormulaGenerationError",
}


def exc_is_subclass(cls, parent, extra=None):
    table = dict(EXC_PARENTS)
    if extra:
        table.update(extra)
    seen = 0
    while cls is not None and seen < 50:
        if cls == parent:
            return True
        cls = table.get(cls)
        seen += 1
    return False


class Frame:
    def __init__(self, module, locals_=None, closure=None, fn=None, cls=None):
        self.module = module
        self.locals = locals_ if locals_ is not None else {}
        self.closure = closure
        self.fn = fn
        self.cls = cls
        self.nonlocals = set()
        self.globals_decl = set()


class Obligation:
    def __init__(self, name, function, path, status, model=None, time_s=0.0, backend="z3",
                 detail=None, kind="ensures"):
        self.name = name
        self.function = function
        self.path = path
        self.status = status  # valid | refuted | unknown
        self.model = model
        self.time_s = time_s
        self.backend = backend
        self.detail = detail
        self.kind = kind

    def to_json(self):
        return {k: getattr(self, k) for k in ("name", "function", "path", "status", "time_s",
                                               "backend", "detail", "kind")}


class Ctx:
    """Execution context of one path."""

    def __init__(self, engine, prefix, mode="real", timeout_ms=10000):
        self.engine = engine
        self.prefix = list(prefix)
        self.pos = 0
        self.decisions = []        # (taken: bool, forced: bool, label)
        self.new_forks = []        # decision prefixes still to explore
        self.solver = z3.Solver()
        self.solver.set("timeout", timeout_ms)
        self.solver.set("random_seed", engine.seed)
        self.timeout_ms = timeout_ms
        self.branch_timeout_ms = 1500
        self.pc = []
        self.qfacts = []
        self.seq_lens = []
        self.heap = {}
        self.next_addr = 1
        self.mode = mode
        self.nofork = 0
        self.assume_log = []       # stack of lists for guarded re-assertion after merge scopes
        self.obligations = []
        self.trusted = set()       # names of models / assumed contracts used on this path
        self.path_labels = []      # (source text of condition, taken)
        self.input_syms = {}       # name -> (shape, value) for model extraction
        self.check_counts = {}
        self.ghost = {}
        self.old = None            # snapshot for old(...)
        self.function = "?"
        self.extra_exc = {}
        self.solver_time = 0.0
        self.branch_checks = 0
        self.env_stack = []
        self.assuming = 0
        self.in_quantifier = 0
        self.side_conds = []
        self.contract_stack = []

    # ------------------------------------------------------------------ solver plumbing
    def assume(self, z):
        if isinstance(z, bool):
            if not z:
                raise Infeasible()
            return
        if has_quantifier(z):
            # quantified facts are kept out of the branch-feasibility solver (which would
            # answer `unknown` on satisfiable quantified formulas); they are used when
            # obligations are discharged.  Exploring a path that only the quantified facts
            # make infeasible is sound: its obligations are then vacuously valid.
            self.qfacts.append(z)
            self.qstack_mark = len(self.qfacts)
        else:
            self.solver.add(z)
        self.pc.append(z)
        if self.assume_log:
            self.assume_log[-1].append(z)

    def _check(self, *extra):
        """Branch-feasibility query: short budget; `unknown` counts as feasible (sound: the path is
        explored and its obligations checked with the full budget)."""
        import time
        t0 = time.time()
        self.solver.set("timeout", self.branch_timeout_ms)
        try:
            r = self.solver.check(*extra)
        finally:
            self.solver.set("timeout", self.timeout_ms)
        self.solver_time += time.time() - t0
        return r

    def feasible(self, z):
        r = self._check(z)
        if r == z3.unknown:
            # treat unknown as feasible (sound for exploration: may explore an infeasible path)
            return True
        return r == z3.sat

    def branch(self, cond, label=""):
        """Decide a symbolic condition on this path; returns a python bool."""
        if isinstance(cond, bool):
            return cond
        cond = z3.simplify(cond)
        if z3.is_true(cond):
            return True
        if z3.is_false(cond):
            return False
        if self.nofork:
            # no recorded decisions inside merge scopes: only follow forced outcomes
            t = self.feasible(cond)
            f = self.feasible(z3.Not(cond))
            if t and f:
                raise NeedFork()
            if not t and not f:
                raise Infeasible()
            return t
        if self.pos < len(self.prefix):
            taken, forced = self.prefix[self.pos]
            self.pos += 1
            self.decisions.append((taken, forced))
            if not forced:
                self.assume(cond if taken else z3.Not(cond))
                self.path_labels.append((label, taken))
            return taken
        self.branch_checks += 1
        t = self.feasible(cond)
        f = self.feasible(z3.Not(cond))
        if not t and not f:
            raise Infeasible()
        if t and f:
            self.new_forks.append(list(self.decisions) + [(False, False)])
            self.decisions.append((True, False))
            self.pos += 1
            self.prefix.append((True, False))
            self.assume(cond)
            self.path_labels.append((label, True))
            return True
        self.decisions.append((t, True))
        self.prefix.append((t, True))
        self.pos += 1
        return t

    def choose(self, label):
        """Non-deterministic boolean choice (both outcomes explored)."""
        b = z3.Bool(fresh_name("choice_" + label))
        return self.branch(b, label)

    def check(self, name, goal, kind="ensures", detail=None, state=None):
        """Proof obligation: goal must hold under the current path condition."""
        import time
        key_n = self.check_counts.get(name, 0)
        self.check_counts[name] = key_n + 1
        dedupe = (self.function, name, key_n, tuple(self.decisions))
        if dedupe in self.engine.checked:
            return
        self.engine.checked.add(dedupe)
        path = [f"{'' if t else 'not '}({l})" for l, t in self.path_labels]
        if isinstance(goal, bool):
            if goal:
                self.obligations.append(Obligation(name, self.function, path, "valid", kind=kind,
                                                   backend="trivial", detail=detail))
                return
            goal = z3.BoolVal(False)
        t0 = time.time()
        self.state_for_model = state
        status, model, backend = self.discharge(goal)
        dt = time.time() - t0
        self.solver_time += dt
        self.obligations.append(Obligation(name, self.function, path, status, model, dt, backend,
                                           detail=detail, kind=kind))

    def nonvacuous(self):
        """Is the current path (with the quantified facts) satisfiable?  True / False / None (unknown)."""
        s = self.solver
        if not self.qfacts:
            r = s.check()
            return True if r == z3.sat else (False if r == z3.unsat else None)
        for bound in (1, 2):
            s.push()
            try:
                for ln in self.seq_lens:
                    s.add(ln <= bound)
                for q in self.qfacts:
                    for inst in instantiate(q, bound):
                        s.add(inst)
                s.set("timeout", 3000)
                if s.check() == z3.sat:
                    return True
            finally:
                s.set("timeout", self.timeout_ms)
                s.pop()
        s.push()
        try:
            for q in self.qfacts:
                s.add(q)
            s.set("timeout", 1500)
            r = s.check()
            return True if r == z3.sat else (False if r == z3.unsat else None)
        finally:
            s.set("timeout", self.timeout_ms)
            s.pop()

    def refute_by_instances(self, goal):
        """With quantified facts, satisfiable queries rarely terminate: look for a genuine
        counterexample among small instances (all sequences of length <= K and every quantified
        fact instantiated at all indices 0..K-1)."""
        s = self.solver
        closures = getattr(self, "closures", {})
        covered = all(index_guarded(q) or q.get_id() in closures for q in self.qfacts)
        for bound in (2, 4):
            s.push()
            try:
                s.add(z3.Not(goal))
                for ln in self.seq_lens:
                    s.add(ln <= bound)
                for q in self.qfacts:
                    if q.get_id() in closures and not index_guarded(q):
                        for inst in closures[q.get_id()](bound):
                            s.add(inst)
                        continue
                    for inst in instantiate(q, bound):
                        s.add(inst)
                s.set("timeout", int(5000 * getattr(self, "load_scale", 1.0)))
                r = s.check()
                if r == z3.sat:
                    if covered:
                        return "refuted", self.engine.extract_model(self, s.model()), f"z3 (instances, len<={bound})"
                    # some fact quantifies over keys, which instances do not cover: the model is only a candidate -
                    # it counts if the native replay reproduces it, never by itself
                    self.candidate = (self.engine.extract_model(self, s.model()),
                                      f"z3 (candidate from instances len<={bound}; facts quantified over keys not covered)")
                    return None
            finally:
                s.set("timeout", self.timeout_ms)
                s.pop()
        return None

    def discharge(self, goal):
        """valid / refuted(model) / unknown for `path condition => goal`."""
        s = self.solver
        quick = 1500 if self.qfacts else self.timeout_ms
        # quantified queries are unstable (the same query may take 0.1 s or > 20 s depending on
        # the solver's internal choices): several short attempts with different seeds first
        # wall-clock budgets are stretched when the machine is oversubscribed (other checks running on all cores), so
        # that a verdict does not flip to `unknown` just because the solver got a fraction of a core
        import os
        try:
            scale = min(12.0, max(1.0, os.getloadavg()[0] / max(1, os.cpu_count() or 1)))
        except OSError:
            scale = 1.0
        self.load_scale = scale
        quick = int(quick * scale)
        attempts = [(quick, self.engine.seed)] + ([(int(2500 * scale), self.engine.seed + 17),
                                                    (int(2500 * scale), self.engine.seed + 101)] if self.qfacts else [])
        # once a function has used up its solver budget (a change can make many obligations hard at once) the remaining
        # ones get the first short attempt only: the run ends `undecided` in bounded time instead of after an hour
        spent = self.solver_time + getattr(getattr(self.engine, "current_report", None), "solver_time", 0.0)
        over_budget = spent > getattr(self.engine, "function_budget_s", 240.0) * scale
        if over_budget:
            attempts = attempts[:1]
        for tmo, seed in attempts:
            s.push()
            try:
                for q in self.qfacts:
                    s.add(q)
                s.add(z3.Not(goal))
                s.set("timeout", tmo)
                s.set("random_seed", seed)
                r = s.check()
                if r == z3.unsat:
                    return "valid", None, "z3"
                if r == z3.sat:
                    return "refuted", self.engine.extract_model(self, s.model()), "z3"
            finally:
                s.set("timeout", self.timeout_ms)
                s.set("random_seed", self.engine.seed)
                s.pop()
            if tmo == quick and self.qfacts:
                # look for a counterexample among small instances before retrying the proof
                res = self.refute_by_instances(goal)
                if res is not None:
                    return res
        if over_budget:
            cand = getattr(self, "candidate", None)
            self.candidate = None
            if cand is not None:
                return "unknown", cand[0], cand[1]
            return "unknown", None, "z3 (function over its solver budget: short attempt only)"
        s.push()
        try:
            for q in self.qfacts:
                s.add(q)
            s.add(z3.Not(goal))
            s.set("timeout", int(max(self.timeout_ms, 40000) * scale))
            r = s.check()
            if r == z3.unsat:
                return "valid", None, "z3"
            if r == z3.sat:
                return "refuted", self.engine.extract_model(self, s.model()), "z3"
            st, mdl, be = self.engine.second_opinion(self, s)
            cand = getattr(self, "candidate", None)
            if st == "unknown" and mdl is None and cand is not None:
                return "unknown", cand[0], cand[1]
            return st, mdl, be
        finally:
            self.candidate = None
            s.set("timeout", self.timeout_ms)
            s.pop()

    # ------------------------------------------------------------------ heap
    def alloc(self, hobj):
        # allocating a fresh object is not an observable side effect: allowed in merge scopes
        addr = self.next_addr
        self.next_addr += 1
        self.heap[addr] = hobj
        return VRef(addr)

    def alloc_pure(self, hobj):
        """Allocation of a fresh immutable-by-convention cell (allowed inside merge scopes)."""
        addr = self.next_addr
        self.next_addr += 1
        self.heap[addr] = hobj
        return VRef(addr)

    def deref(self, ref):
        return self.heap[ref.addr]

    def mutate(self):
        if self.nofork:
            raise NeedFork()

    def snapshot_heap(self):
        return {a: o.copy() for a, o in self.heap.items()}


# =====================================================================================
# numeric helpers
# =====================================================================================

def is_pynum(v):
    return isinstance(v, (int, Fraction)) and not isinstance(v, type(None))


def kind_of(v):
    if isinstance(v, S):
        return v.kind
    if isinstance(v, bool):
        return "bool"
    if isinstance(v, int):
        return "int"
    if isinstance(v, Fraction):
        return "real"
    if isinstance(v, float):
        return "fp"
    return None


def zof(v, kind=None):
    """z3 term of a scalar value, optionally coerced to `kind`."""
    if isinstance(v, S):
        z = v.z
        k = v.kind
    elif isinstance(v, bool):
        z, k = z3.BoolVal(v), "bool"
    elif isinstance(v, int):
        z, k = z3.IntVal(v), "int"
    elif isinstance(v, Fraction):
        z, k = zreal(v), "real"
    elif isinstance(v, float):
        z, k = z3.FPVal(v, FP), "fp"
    else:
        raise Unsupported(f"not a scalar: {v!r}")
    if kind is None or kind == k:
        return z
    if kind == "real":
        if k == "int":
            return z3.ToReal(z)
        if k == "bool":
            return z3.If(z, z3.RealVal(1), z3.RealVal(0))
    if kind == "int" and k == "bool":
        return z3.If(z, z3.IntVal(1), z3.IntVal(0))
    if kind == "fp":
        if k in ("int", "real"):
            if isinstance(v, (int, Fraction)) and not isinstance(v, bool):
                return z3.FPVal(float(v), FP)
            return z3.fpRealToFP(RNE, z3.ToReal(z) if k == "int" else z, FP)
        if k == "bool":
            return z3.If(z, z3.FPVal(1.0, FP), z3.FPVal(0.0, FP))
    if kind == "bool":
        if k == "int":
            return z != 0
        if k == "real":
            return z != 0
        if k == "fp":
            return z3.Not(z3.fpIsZero(z))
    raise Unsupported(f"cannot coerce {k} to {kind}")


def join_kind(a, b):
    ka, kb = kind_of(a), kind_of(b)
    if ka is None or kb is None:
        return None
    if "fp" in (ka, kb):
        return "fp"
    if "real" in (ka, kb):
        return "real"
    return "int"


def mk(z, kind):
    """Wrap a z3 term; fold to a python constant when it is a numeral."""
    z = z3.simplify(z) if kind != "fp" else z
    if kind == "bool":
        if z3.is_true(z):
            return True
        if z3.is_false(z):
            return False
    elif kind == "int" and z3.is_int_value(z):
        return z.as_long()
    elif kind == "real" and z3.is_rational_value(z):
        return Fraction(z.numerator_as_long(), z.denominator_as_long())
    return S(z, kind)


def zbool(v):
    if isinstance(v, bool):
        return z3.BoolVal(v)
    if isinstance(v, S) and v.kind == "bool":
        return v.z
    if z3.is_expr(v):
        return v
    raise Unsupported(f"not a bool: {v!r}")
