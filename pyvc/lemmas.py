"""Lemmas: statements over spec functions / contracts, proved once, optionally by induction."""
from __future__ import annotations

import time

import z3

from .exec import Interp
from .interp import Ctx, Frame, Infeasible, zbool
from .values import Unsupported, reset_fresh
from .verify import Engine


def verify_lemma(L, repo, verif_root, seed, timeout_ms):
    eng = Engine(repo_root=repo, verif_root=verif_root, seed=seed, timeout_ms=timeout_ms)
    t0 = time.time()
    out = {"lemma": L.name, "obligations": [], "trusted": [], "error": None}

    class FakeContract:
        target = "lemma:" + L.name
        loops = {}
        inline = ["*"]
        by_contract = []
        opaque_calls = {}
        mode = L.mode
    FakeContract.__module__ = L.__module__
    eng.current = FakeContract
    worklist = [[]]
    n = 0
    try:
        while worklist:
            prefix = worklist.pop()
            n += 1
            if n > 2000:
                out["error"] = "path budget exceeded"
                break
            reset_fresh()
            eng.ufs = {}
            eng.global_cache = {}
            ctx = Ctx(eng, prefix, mode="ieee" if L.mode == "ieee" else "real", timeout_ms=timeout_ms)
            ctx.function = "lemma:" + L.name
            it = Interp(eng, ctx)
            ctx.it = it
            try:
                cm = eng.repo.find(L.__module__)
                fr = Frame(cm, {})
                fr.is_spec_root = True
                for p, shape in L.shapes.items():
                    v = eng.make_sym(ctx, shape, p)
                    fr.locals[p] = v
                    ctx.input_syms[p] = (shape, v)
                for nm, expr in L.requires.items():
                    g = eng.eval_clause(it, expr, fr)
                    ctx.assume(zbool(g) if not isinstance(g, bool) else g)
                for nm, expr in L.ensures.items():
                    g = eng.eval_clause(it, expr, fr)
                    ctx.check(f"lemma[{L.name}].{nm}", g, kind="lemma")
            except Infeasible:
                pass
            worklist.extend(ctx.new_forks)
            out["obligations"].extend(dict(ob.to_json(), model=ob.model) for ob in ctx.obligations)
            out["trusted"] = sorted(set(out["trusted"]) | ctx.trusted)
    except Unsupported as e:
        out["error"] = f"unsupported: {e}"
    out["wall"] = round(time.time() - t0, 3)
    return out
