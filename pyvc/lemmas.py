"""Lemmas: statements over spec functions / contracts, proved once, optionally by induction."""
from __future__ import annotations

import time

import z3

from .exec import Interp
from .interp import Ctx, Frame, Infeasible, zbool, PyRaise
from .values import Unsupported, reset_fresh
from .verify import Engine


def verify_lemma(L, repo, verif_root, seed, timeout_ms):
    eng = Engine(repo_root=repo, verif_root=verif_root, seed=seed, timeout_ms=timeout_ms)
    t0 = time.time()
    out = {"lemma": L.name, "obligations": [], "trusted": [], "error": None}

    class FakeContract:
        target = "lemma:" + L.name
        loops = {}
        inline = ["*"]
        by_contract = []
        opaque_calls = {}
        mode = L.mode
        use = {}
        instantiate = {}
    FakeContract.__module__ = L.__module__
    eng.current = FakeContract
    worklist = [[]]
    n = 0
    try:
        while worklist:
            prefix = worklist.pop()
            n += 1
            if n > 2000:
                out["error"] = "path budget exceeded"
                break
            reset_fresh()
            eng.ufs = {}
            eng.global_cache = {}
            ctx = Ctx(eng, prefix, mode="ieee" if L.mode == "ieee" else "real", timeout_ms=timeout_ms)
            ctx.function = "lemma:" + L.name
            it = Interp(eng, ctx)
            ctx.it = it
            try:
                cm = eng.repo.find(L.__module__)
                fr = Frame(cm, {})
                fr.is_spec_root = True
                for p, shape in L.shapes.items():
                    v = eng.make_sym(ctx, shape, p)
                    fr.locals[p] = v
                    ctx.input_syms[p] = (shape, v)
                for gname, gs in getattr(L, "ghost_seqs", {}).items():
                    eng.define_ghost_seq(it, fr, gname, gs)
                for nm, expr in L.requires.items():
                    g = eng.eval_clause(it, expr, fr)
                    ctx.assume(zbool(g) if not isinstance(g, bool) else g)
                ind = L.induct
                if ind:
                    # induction on k in [0, bound]: claim(0), and claim(k) => claim(k+1) for 0 <= k < bound;
                    # the conclusion  forall k <= bound. claim(k)  is then available to `ensures`
                    kname = ind["var"]
                    bound = it.eval(eng.parse_clause(ind["bound"]), fr)
                    fr.locals[kname] = 0
                    g0 = eng.eval_clause(it, ind["claim"], fr)
                    ctx.check(f"lemma[{L.name}].induction.base", g0, kind="lemma")
                    kz = z3.Int("ind_" + kname)
                    from .values import S
                    from .interp import zof
                    # the step is checked in a scope of its own (its hypothesis must not leak)
                    ctx.solver.push()
                    n_pc, n_q = len(ctx.pc), len(ctx.qfacts)
                    ctx.assume(z3.And(kz >= 0, kz < zof(bound, "int")))
                    fr.locals[kname] = S(kz, "int")
                    hyp = eng.eval_clause(it, ind["claim"], fr)
                    ctx.assume(zbool(hyp) if not isinstance(hyp, bool) else hyp)
                    fr.locals[kname] = S(kz + 1, "int")
                    gs_ = eng.eval_clause(it, ind["claim"], fr)
                    ctx.check(f"lemma[{L.name}].induction.step", gs_, kind="lemma")
                    ctx.solver.pop()
                    del ctx.pc[n_pc:]
                    del ctx.qfacts[n_q:]
                    q = z3.Int("all_" + kname)
                    fr.locals[kname] = S(q, "int")
                    body = eng.eval_clause(it, ind["claim"], fr)
                    body = zbool(body) if not isinstance(body, bool) else z3.BoolVal(body)
                    ctx.assume(z3.ForAll([q], z3.Implies(z3.And(q >= 0, q <= zof(bound, "int")), body)))
                    del fr.locals[kname]
                for nm, expr in L.ensures.items():
                    try:
                        g = eng.eval_clause(it, expr, fr)
                    except PyRaise as e:
                        ctx.check(f"lemma[{L.name}].{nm}", False, kind="lemma", detail=f"clause raised {e.cls}")
                        continue
                    ctx.check(f"lemma[{L.name}].{nm}", g, kind="lemma")
            except Infeasible:
                pass
            worklist.extend(ctx.new_forks)
            out["obligations"].extend(dict(ob.to_json(), model=ob.model) for ob in ctx.obligations)
            out["trusted"] = sorted(set(out["trusted"]) | ctx.trusted)
    except Unsupported as e:
        out["error"] = f"unsupported: {e}"
    out["wall"] = round(time.time() - t0, 3)
    return out
