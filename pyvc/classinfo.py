"""Static information about repository classes, read from their AST."""
from __future__ import annotations

import ast


def _deco_name(d):
    if isinstance(d, ast.Call):
        d = d.func
    if isinstance(d, ast.Attribute):
        return d.attr
    if isinstance(d, ast.Name):
        return d.id
    return ""


class ClassInfo:
    def __init__(self, engine, module, node):
        self.engine = engine
        self.module = module
        self.node = node
        self.name = node.name
        self.qual = f"{module.name}:{node.name}"
        self.bases = []          # dotted/qualified names
        self.base_infos = []
        self.own_methods = {}
        self.class_attrs = {}
        self.own_fields = []     # (name, default_ast, kw_only)
        self.dataclass = False
        self.frozen = False
        self.kw_only = False
        self.eq = True
        self.is_enum = False
        self.enum_members = []
        self.enum_values = {}
        self.is_exception = False
        self.is_namedtuple = False
        self.nocompare = set()
        for d in node.decorator_list:
            if _deco_name(d) == "dataclass":
                self.dataclass = True
                if isinstance(d, ast.Call):
                    for k in d.keywords:
                        if k.arg == "frozen" and isinstance(k.value, ast.Constant):
                            self.frozen = bool(k.value.value)
                        if k.arg == "kw_only" and isinstance(k.value, ast.Constant):
                            self.kw_only = bool(k.value.value)
                        if k.arg == "eq" and isinstance(k.value, ast.Constant):
                            self.eq = bool(k.value.value)
        for b in node.bases:
            bn = b
            if isinstance(bn, ast.Subscript):
                bn = bn.value
            name = ast.unparse(bn)
            self.bases.append(name)
            last = name.split(".")[-1]
            if last in ("Enum", "IntEnum", "StrEnum", "Flag"):
                self.is_enum = True
            if last in ("Exception", "BaseException", "RuntimeError", "ValueError", "TypeError"):
                self.is_exception = True
            if last == "NamedTuple":
                self.is_namedtuple = True
        for st in node.body:
            if isinstance(st, (ast.FunctionDef, ast.AsyncFunctionDef)):
                # property setters etc: keep the first (getter) definition
                if st.name in self.own_methods and any(_deco_name(d) in ("setter", "deleter") for d in st.decorator_list):
                    continue
                self.own_methods[st.name] = st
            elif isinstance(st, ast.AnnAssign) and isinstance(st.target, ast.Name):
                ann = ast.unparse(st.annotation)
                if ann.startswith("ClassVar") or ann.startswith("typing.ClassVar"):
                    if st.value is not None:
                        self.class_attrs[st.target.id] = st.value
                    continue
                kw_only = False
                if isinstance(st.value, ast.Call) and _deco_name(st.value) == "field":
                    for k in st.value.keywords:
                        if k.arg == "compare" and isinstance(k.value, ast.Constant) and not k.value.value:
                            self.nocompare.add(st.target.id)
                        if k.arg == "kw_only" and isinstance(k.value, ast.Constant):
                            kw_only = bool(k.value.value)
                self.own_fields.append((st.target.id, st.value, kw_only))
                if st.value is not None and not self.dataclass and not self.is_namedtuple:
                    self.class_attrs[st.target.id] = st.value
            elif isinstance(st, ast.Assign):
                for t in st.targets:
                    if isinstance(t, ast.Name):
                        if self.is_enum:
                            self.enum_members.append(t.id)
                            self.enum_values[t.id] = st.value
                        else:
                            self.class_attrs[t.id] = st.value
        # resolve repository base classes
        for b in self.bases:
            bi = engine.resolve_class_name(module, b)
            if bi is not None:
                self.base_infos.append(bi)
                if bi.is_exception:
                    self.is_exception = True
                if bi.is_enum:
                    self.is_enum = True
                self.nocompare |= bi.nocompare

    # ---- method resolution (linearised depth-first; good enough for the classes under contract)
    @property
    def methods(self):
        out = {}
        for bi in reversed(self.base_infos):
            out.update(bi.methods)
        out.update(self.own_methods)
        return out

    def own_methods_all(self):
        return self.methods

    def _owner(self, attr):
        if attr in self.own_methods:
            return self
        for bi in self.base_infos:
            o = bi._owner(attr)
            if o is not None:
                return o
        return None

    def module_of(self, attr):
        o = self._owner(attr)
        return (o or self).module

    def name_of(self, attr):
        o = self._owner(attr)
        return (o or self).name

    def module_of_attr(self, attr):
        if attr in self.__dict__.get("class_attrs", {}):
            return self.module
        for bi in self.base_infos:
            if attr in bi.all_class_attrs():
                return bi.module_of_attr(attr)
        return self.module

    def all_class_attrs(self):
        out = {}
        for bi in reversed(self.base_infos):
            out.update(bi.all_class_attrs())
        out.update(self.class_attrs)
        return out

    def method_kind(self, attr):
        fn = self.methods[attr]
        for d in fn.decorator_list:
            n = _deco_name(d)
            if n in ("property", "cached_property"):
                return "property"
            if n in ("staticmethod", "classmethod"):
                return n
        return "method"

    @property
    def fields(self):
        # dataclasses collect fields in reverse MRO order (for `class C(A, B)`: B's fields, then A's, then C's own);
        # a field that is defined again keeps its original position and takes the new definition
        out = {}
        for bi in reversed(self.base_infos):
            if bi.dataclass or bi.is_namedtuple:
                for f in bi.fields:
                    out[f[0]] = f
        for f in self.own_fields:
            out[f[0]] = f
        return list(out.values())

    def match_args(self):
        return [f[0] for f in self.fields if not (f[2] or self.kw_only)]
