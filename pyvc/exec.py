"""Expression / statement semantics (the symbolic executor proper)."""
from __future__ import annotations

import ast
from fractions import Fraction

import z3

from . import models, optdict
from .interp import (Ctx, Frame, PyRaise, _Return, _Break, _Continue, PathEnd, Infeasible, NeedFork,
                     CannotMerge, exc_is_subclass, is_pynum, kind_of, zof, join_kind, mk, zbool,
                     FP, RNE)
from .values import (S, VOpt, VQty, VTime, VDelta, VEnum, SEnum, VRec, VRef, HObj, HList, HDict,
                     HSet, SymSeq, SymSet, SymMap, FuncRef, ClassRef, ModRef, ExtRef,
                     BoundBuiltin, Opaque, Unsupported, fresh_name, zreal, float_literal, GhostSeq,
                     KeySetVal, HKeySet, HOptDict, HSymList, HSymSet, Coro, Stream)


class SpecFn:
    """A special form of the spec vocabulary (old, implies, forall, ...)."""

    def __init__(self, name):
        self.name = name


SPEC_FORMS = {"old", "implies", "forall", "exists", "ite", "keyset_has", "keyset_get", "same_record", "close",
              "elements", "new_pending_task"}


class Interp:
    def __init__(self, engine, ctx: Ctx):
        self.engine = engine
        self.ctx = ctx

    # ================================================================== names
    def lookup(self, name, fr: Frame):
        f = fr
        while f is not None:
            if name in f.locals:
                return f.locals[name]
            f = f.closure
        if name in SPEC_FORMS and fr.module.name.startswith("contracts"):
            return SpecFn(name)
        return self.module_global(fr.module, name)

    def module_global(self, module, name):
        key = (module.name, name)
        cache = self.engine.global_cache
        if key in cache:
            return cache[key]
        if name in module.imports:
            imp = module.imports[name]
            v = self.resolve_import(imp)
        elif name in module.functions:
            v = FuncRef(module, name, module.functions[name])
        elif name in module.classes:
            v = ClassRef(module, name, module.classes[name])
        elif name in module.assigns:
            v = self.eval(module.assigns[name], Frame(module))
        elif models.has_builtin(name):
            v = ExtRef("builtins." + name)
        else:
            raise Unsupported(f"unknown name {name} in {module.name}")
        if not isinstance(v, (VRef,)):
            cache[key] = v
        return v

    def resolve_import(self, imp):
        if imp[0] == "module":
            mi = self.engine.repo.find(imp[1])
            return ModRef(mi) if mi is not None else ExtRef(imp[1])
        _, base, attr = imp
        sub = self.engine.repo.find(base + "." + attr) if base else None
        if sub is not None:
            return ModRef(sub)
        mi = self.engine.repo.find(base)
        if mi is not None:
            return self.module_attr(mi, attr)
        return ExtRef(f"{base}.{attr}")

    def module_attr(self, mi, attr, depth=0):
        if attr in mi.functions or attr in mi.classes or attr in mi.assigns or attr in mi.imports:
            return self.module_global(mi, attr)
        sub = self.engine.repo.find(mi.name + "." + attr)
        if sub is not None:
            return ModRef(sub)
        raise Unsupported(f"module {mi.name} has no attribute {attr}")

    # ================================================================== truthiness
    def truth(self, v):
        """python bool or z3 Bool for the truth value of v."""
        if v is None:
            return False
        if isinstance(v, bool):
            return v
        if isinstance(v, (int, Fraction)):
            return v != 0
        if isinstance(v, float):
            return v != 0
        if isinstance(v, str):
            return len(v) > 0
        if isinstance(v, S):
            if v.kind == "bool":
                return v.z
            if v.kind == "fp":
                return z3.Not(z3.fpIsZero(v.z))
            return v.z != 0
        if isinstance(v, VOpt):
            inner = self.truth(v.val)
            if inner is True:
                return z3.Not(v.isnone)
            if inner is False:
                return False
            return z3.And(z3.Not(v.isnone), inner)
        if isinstance(v, VQty):
            self.ctx.trusted.add("model:Quantity has no __bool__/__len__ (always truthy)")
            return True
        if isinstance(v, VDelta):
            t = self.truth(v.us)
            return t
        if isinstance(v, (VTime, VEnum, SEnum, FuncRef, ClassRef, ExtRef, Opaque)):
            return True
        if isinstance(v, tuple):
            return len(v) > 0
        if isinstance(v, VRec):
            ci = self.engine.class_info(v.cls)
            if ci and ("__bool__" in ci.methods or "__len__" in ci.methods):
                m = "__bool__" if "__bool__" in ci.methods else "__len__"
                r = self.call_method(v, m, [], {})
                return self.truth(r)
            return True
        if isinstance(v, VRef):
            h = self.ctx.deref(v)
            if isinstance(h, (HList, HDict, HSet)):
                return len(h.items) > 0
            if isinstance(h, HKeySet):
                from . import keysets
                return keysets.enumeration(self.engine, self, h.val).length > 0
            if isinstance(h, HOptDict):
                return optdict.truth(self, h)
            if isinstance(h, HSymList):
                return h.seq.length > 0
            if isinstance(h, HSymSet):
                from . import symset
                return symset.length(self, h.val).z > 0
            ci = self.engine.class_info(h.cls)
            if ci and ("__bool__" in ci.methods or "__len__" in ci.methods):
                m = "__bool__" if "__bool__" in ci.methods else "__len__"
                return self.truth(self.call_method(v, m, [], {}))
            return True
        if isinstance(v, SymSeq):
            return v.length > 0
        r = models.truth_of(self, v)
        if r is not NotImplemented:
            return r
        raise Unsupported(f"truthiness of {v!r}")

    def decide(self, v, label=""):
        t = self.truth(v)
        if isinstance(t, bool):
            return t
        return self.ctx.branch(t, label)

    def unwrap(self, v, what="value"):
        """Use of a maybe-None value where None would raise."""
        if isinstance(v, VOpt):
            if self.ctx.branch(v.isnone, f"{what} is None"):
                raise PyRaise("TypeError", f"{what} is None")
            return v.val
        if v is None:
            raise PyRaise("TypeError", f"{what} is None")
        return v

    # ================================================================== merging
    def ite_value(self, c, a, b):
        """Value equal to a if c else b (c: z3 Bool)."""
        if a is b:
            return a
        if a is None and b is None:
            return None
        if a is None:
            if isinstance(b, VOpt):
                return VOpt(z3.Or(c, b.isnone), b.val)
            return VOpt(c, b)
        if b is None:
            if isinstance(a, VOpt):
                return VOpt(z3.Or(z3.Not(c), a.isnone), a.val)
            return VOpt(z3.Not(c), a)
        if isinstance(a, VOpt) or isinstance(b, VOpt):
            an, av = (a.isnone, a.val) if isinstance(a, VOpt) else (z3.BoolVal(False), a)
            bn, bv = (b.isnone, b.val) if isinstance(b, VOpt) else (z3.BoolVal(False), b)
            return VOpt(z3.If(c, an, bn), self.ite_value(c, av, bv))
        ka, kb = kind_of(a), kind_of(b)
        if ka is not None and kb is not None:
            if ka == "bool" and kb == "bool":
                return mk(z3.If(c, zof(a), zof(b)), "bool")
            if "bool" in (ka, kb):
                raise CannotMerge()
            k = join_kind(a, b)
            if ka != kb and k != "fp":
                # int/real mix: python keeps them distinct types; numerically merge as real
                k = "real"
            return mk(z3.If(c, zof(a, k), zof(b, k)), k)
        if isinstance(a, VQty) and isinstance(b, VQty) and a.unit == b.unit:
            return VQty(a.unit, self.ite_value(c, a.val, b.val))
        if isinstance(a, VTime) and isinstance(b, VTime):
            return VTime(self.ite_value(c, a.us, b.us))
        if isinstance(a, VDelta) and isinstance(b, VDelta):
            return VDelta(self.ite_value(c, a.us, b.us))
        if isinstance(a, tuple) and isinstance(b, tuple) and len(a) == len(b):
            return tuple(self.ite_value(c, x, y) for x, y in zip(a, b))
        if isinstance(a, VRec) and isinstance(b, VRec) and a.cls == b.cls:
            return VRec(a.cls, {k: self.ite_value(c, a.fields[k], b.fields[k]) for k in a.fields})
        if isinstance(a, (VEnum, SEnum)) and isinstance(b, (VEnum, SEnum)):
            ea, eb = self.enum_z(a), self.enum_z(b)
            if ea[0] == eb[0]:
                return SEnum(ea[0], ea[1], z3.If(c, ea[2], eb[2]))
        if isinstance(a, VEnum) and isinstance(b, VEnum) and a == b:
            return a
        if isinstance(a, str) and isinstance(b, str) and a == b:
            return a
        if isinstance(a, VRef) and isinstance(b, VRef) and a == b:
            return a
        raise CannotMerge()

    def enum_z(self, v):
        if isinstance(v, SEnum):
            return v.cls, v.members, v.z
        members = self.engine.enum_members(v.cls)
        return v.cls, members, z3.IntVal(members.index(v.name))

    def try_nofork(self, assumption, thunk, quantified=False):
        """Evaluate thunk() under `assumption` without forking.  Returns value.

        Assumptions made inside are re-asserted guarded by `assumption` afterwards.
        Raises NeedFork if the evaluation needs a fork or a side effect.
        """
        ctx = self.ctx
        ctx.solver.push()
        pc_len = len(ctx.pc)
        q_len = len(ctx.qfacts)
        ctx.assume_log.append([])
        ctx.nofork += 1
        n_obl = len(ctx.obligations)
        ok = False
        try:
            if assumption is not None:
                ctx.solver.add(assumption)
            v = thunk()
            ok = True
            return v
        finally:
            ctx.nofork -= 1
            inner = ctx.assume_log.pop()
            ctx.solver.pop()
            del ctx.pc[pc_len:]
            del ctx.qfacts[q_len:]
            if ok:
                if quantified and inner:
                    # facts about fresh symbols (fold / model definitions) made while evaluating a
                    # quantified body would be tied to the bound variable: not expressible -> reject
                    raise Unsupported("a model with side assumptions (next/len/sorted/bisect/...) is evaluated inside a "
                                      "quantified spec body: hoist that sub-expression out of the lambda")
                for z in inner:
                    g = z3.Implies(assumption, z) if assumption is not None else z
                    ctx.assume(g)
            else:
                del ctx.obligations[n_obl:]

    # ================================================================== expressions
    def eval(self, node, fr: Frame):
        m = getattr(self, "e_" + type(node).__name__, None)
        if m is None:
            raise Unsupported(f"expression {type(node).__name__}")
        return m(node, fr)

    def e_Constant(self, node, fr):
        v = node.value
        if isinstance(v, float):
            if self.ctx.mode == "ieee":
                return S(z3.FPVal(v, FP), "fp")
            return float_literal(v)
        if v is Ellipsis:
            return Opaque("ellipsis")
        if isinstance(v, bytes):
            return Opaque("bytes")
        return v

    def e_Name(self, node, fr):
        return self.lookup(node.id, fr)

    def e_JoinedStr(self, node, fr):
        return Opaque("fstring")

    def e_Tuple(self, node, fr):
        out = []
        for e in node.elts:
            if isinstance(e, ast.Starred):
                out.extend(self.iterate_concrete(self.eval(e.value, fr)))
            else:
                out.append(self.eval(e, fr))
        return tuple(out)

    def e_List(self, node, fr):
        items = []
        for e in node.elts:
            if isinstance(e, ast.Starred):
                items.extend(self.iterate_concrete(self.eval(e.value, fr)))
            else:
                items.append(self.eval(e, fr))
        return self.ctx.alloc(HList(items))

    def e_Set(self, node, fr):
        items = [self.hashable(self.eval(e, fr)) for e in node.elts]
        return self.ctx.alloc(HSet(items))

    def e_Dict(self, node, fr):
        d = HDict()
        for k, v in zip(node.keys, node.values):
            if k is None:
                src = self.eval(v, fr)
                h = self.ctx.deref(src)
                d.items.update(h.items)
            else:
                d.items[self.hashable(self.eval(k, fr))] = self.eval(v, fr)
        return self.ctx.alloc(d)

    def hashable(self, v):
        if isinstance(v, (int, str, Fraction, VEnum, type(None), VRef, ExtRef)) or v is None:
            return v
        if isinstance(v, tuple):
            return tuple(self.hashable(x) for x in v)
        if isinstance(v, frozenset):
            return v
        if isinstance(v, SEnum):
            # finitely many members: case split, then the key is concrete
            for i, name in enumerate(v.members[:-1]):
                if self.decide(mk(v.z == i, "bool"), f"{v.cls.split('.')[-1]} is {name}"):
                    return VEnum(v.cls, name)
            return VEnum(v.cls, v.members[-1])
        raise Unsupported(f"symbolic value used as key of a concrete dict/set: {v!r}")

    def e_NamedExpr(self, node, fr):
        if self.ctx.nofork:
            raise NeedFork()
        v = self.eval(node.value, fr)
        self.assign_name(node.target.id, v, fr)
        return v

    def e_Lambda(self, node, fr):
        return FuncRef(fr.module, "<lambda>", node, closure=fr)

    def e_Await(self, node, fr):
        return self.engine.await_value(self, self.eval(node.value, fr), fr)

    def e_Attribute(self, node, fr):
        base = self.eval(node.value, fr)
        return self.getattr(base, node.attr)

    def e_Subscript(self, node, fr):
        base = self.eval(node.value, fr)
        if isinstance(base, (ClassRef, ExtRef)):
            return base  # typing subscript: Bounds[Power]
        if isinstance(node.slice, ast.Slice):
            lo = self.eval(node.slice.lower, fr) if node.slice.lower else None
            hi = self.eval(node.slice.upper, fr) if node.slice.upper else None
            st = self.eval(node.slice.step, fr) if node.slice.step else None
            return self.getslice(base, lo, hi, st)
        idx = self.eval(node.slice, fr)
        return self.getitem(base, idx)

    def e_IfExp(self, node, fr):
        c = self.truth(self.eval(node.test, fr))
        if isinstance(c, bool):
            return self.eval(node.body if c else node.orelse, fr)
        c = z3.simplify(c)
        if not (z3.is_true(c) or z3.is_false(c)):
            try:
                a = self.try_nofork(c, lambda: self.eval(node.body, fr))
                b = self.try_nofork(z3.Not(c), lambda: self.eval(node.orelse, fr))
                return self.ite_value(c, a, b)
            except (NeedFork, CannotMerge):
                pass
            except Infeasible:
                pass
        if self.ctx.branch(c, self.src(node.test, fr)):
            return self.eval(node.body, fr)
        return self.eval(node.orelse, fr)

    def e_BoolOp(self, node, fr):
        is_and = isinstance(node.op, ast.And)
        vals = node.values
        return self.boolop(is_and, vals, 0, fr)

    def boolop(self, is_and, vals, i, fr):
        v = self.eval(vals[i], fr)
        if i == len(vals) - 1:
            return v
        t = self.truth(v)
        if isinstance(t, bool):
            if t == is_and:
                return self.boolop(is_and, vals, i + 1, fr)
            return v
        t = z3.simplify(t)
        go_on = t if is_and else z3.Not(t)   # condition under which the rest is evaluated
        if not (z3.is_true(go_on) or z3.is_false(go_on)):
            try:
                rest = self.try_nofork(go_on, lambda: self.boolop(is_and, vals, i + 1, fr))
                return self.ite_value(go_on, rest, v)
            except (NeedFork, CannotMerge):
                pass
            except Infeasible:
                return v
        if self.ctx.branch(go_on, self.src(vals[i], fr) if is_and else "not " + self.src(vals[i], fr)):
            return self.boolop(is_and, vals, i + 1, fr)
        return v

    def e_UnaryOp(self, node, fr):
        v = self.eval(node.operand, fr)
        if isinstance(node.op, ast.Not):
            t = self.truth(v)
            if isinstance(t, bool):
                return not t
            return mk(z3.Not(t), "bool")
        if isinstance(node.op, ast.USub):
            return self.neg(v)
        if isinstance(node.op, ast.UAdd):
            return v
        raise Unsupported("unary op")

    def neg(self, v):
        v = self.unwrap(v)
        if isinstance(v, bool):
            return -int(v)
        if is_pynum(v):
            return -v
        if isinstance(v, S):
            if v.kind == "fp":
                return S(z3.fpNeg(v.z), "fp")
            return mk(-v.z, v.kind)
        if isinstance(v, VQty):
            return VQty(v.unit, self.neg(v.val))
        if isinstance(v, VDelta):
            return VDelta(self.neg(v.us))
        raise Unsupported(f"negation of {v!r}")

    def e_BinOp(self, node, fr):
        a = self.eval(node.left, fr)
        b = self.eval(node.right, fr)
        return self.binop(type(node.op).__name__, a, b)

    def e_Compare(self, node, fr):
        left = self.eval(node.left, fr)
        result = None
        for i, (op, rn) in enumerate(zip(node.ops, node.comparators)):
            if result is not None:
                # chained comparison: the next comparator is only evaluated if result so far holds
                t = self.truth(result)
                if t is False:
                    return result
                if t is not True:
                    try:
                        rest_ops, rest_cmp = node.ops[i:], node.comparators[i:]
                        lft = left

                        def thunk():
                            l2 = lft
                            acc = True
                            for op2, rn2 in zip(rest_ops, rest_cmp):
                                r2 = self.eval(rn2, fr)
                                c2 = self.truth(self.compare(type(op2).__name__, l2, r2))
                                acc = self.and_(acc, c2)
                                l2 = r2
                            return acc
                        rest = self.try_nofork(t, thunk)
                        return self.wrap_bool(self.and_(t, rest))
                    except Infeasible:
                        return result  # `result` is false in this context
                    except NeedFork:
                        if not self.ctx.branch(t, "chained comparison"):
                            return False
            right = self.eval(rn, fr)
            c = self.compare(type(op).__name__, left, right)
            result = c if result is None or result is True else self.wrap_bool(
                self.and_(self.truth(result), self.truth(c)))
            left = right
        return result

    def and_(self, a, b):
        if a is True:
            return b
        if b is True:
            return a
        if a is False or b is False:
            return False
        return z3.And(a, b)

    def or_(self, a, b):
        if a is False:
            return b
        if b is False:
            return a
        if a is True or b is True:
            return True
        return z3.Or(a, b)

    def not_(self, a):
        if isinstance(a, bool):
            return not a
        return z3.Not(a)

    def wrap_bool(self, t):
        if isinstance(t, bool):
            return t
        return mk(t, "bool")

    # ------------------------------------------------------------------ arithmetic
    def binop(self, op, a, b):
        a = self.unwrap(a, "left operand")
        b = self.unwrap(b, "right operand")
        r = models.binop(self, op, a, b)
        if r is not NotImplemented:
            return r
        # sequences
        if op == "Add" and isinstance(a, str) and isinstance(b, str):
            return a + b      # concrete strings (names, keys)
        if op == "Add" and isinstance(a, tuple) and isinstance(b, tuple):
            return a + b
        if op == "Add" and isinstance(a, VRef) and isinstance(b, VRef):
            ha, hb = self.ctx.deref(a), self.ctx.deref(b)
            if isinstance(ha, HList) and isinstance(hb, HList):
                return self.ctx.alloc(HList(ha.items + hb.items))
        if op == "Mult" and isinstance(a, VRef) and isinstance(b, int):
            ha = self.ctx.deref(a)
            if isinstance(ha, HList):
                return self.ctx.alloc(HList(ha.items * b))
        if op in ("BitOr", "BitAnd", "Sub") and isinstance(a, VRef) and isinstance(b, VRef):
            ha, hb = self.ctx.deref(a), self.ctx.deref(b)
            if isinstance(ha, HSet) and isinstance(hb, HSet):
                if op == "BitOr":
                    return self.ctx.alloc(HSet(list(ha.items) + list(hb.items)))
                if op == "BitAnd":
                    return self.ctx.alloc(HSet([x for x in ha.items if x in hb.items]))
                return self.ctx.alloc(HSet([x for x in ha.items if x not in hb.items]))
            if isinstance(ha, HSymSet) or isinstance(hb, HSymSet):
                from . import symset
                return symset.binary(self, a, b, {"BitOr": "or", "BitAnd": "and", "Sub": "diff"}[op])
        if isinstance(a, frozenset) and isinstance(b, frozenset):
            if op == "BitOr":
                return a | b
            if op == "BitAnd":
                return a & b
            if op == "Sub":
                return a - b
        ka, kb = kind_of(a), kind_of(b)
        if ka is None or kb is None:
            raise Unsupported(f"binop {op} on {a!r}, {b!r}")
        if isinstance(a, bool):
            a = int(a)
        if isinstance(b, bool):
            b = int(b)
        return self.num_binop(op, a, b)

    def num_binop(self, op, a, b):
        k = join_kind(a, b)
        conc = is_pynum(a) and is_pynum(b)
        if k == "fp":
            return self.fp_binop(op, a, b)
        if op == "Add":
            return a + b if conc else mk(zof(a, k) + zof(b, k), k)
        if op == "Sub":
            return a - b if conc else mk(zof(a, k) - zof(b, k), k)
        if op == "Mult":
            return a * b if conc else mk(zof(a, k) * zof(b, k), k)
        if op == "Div":
            if conc:
                if b == 0:
                    raise PyRaise("ZeroDivisionError")
                return Fraction(a) / Fraction(b)
            zb = zof(b, "real")
            if self.ctx.branch(zb == 0, "divisor == 0"):
                raise PyRaise("ZeroDivisionError")
            return mk(zof(a, "real") / zb, "real")
        if op in ("FloorDiv", "Mod"):
            if conc and k == "int":
                if b == 0:
                    raise PyRaise("ZeroDivisionError")
                return a // b if op == "FloorDiv" else a % b
            if k != "int":
                raise Unsupported("float floor-division / modulo")
            za, zb = zof(a, "int"), zof(b, "int")
            if self.ctx.branch(zb == 0, "divisor == 0"):
                raise PyRaise("ZeroDivisionError")
            # python floor semantics; z3 div/mod are euclidean (floor for positive divisor)
            q = z3.If(zb > 0, za / zb, (-za) / (-zb))
            if op == "FloorDiv":
                return mk(q, "int")
            return mk(za - q * zb, "int")
        if op == "Pow":
            if conc and isinstance(b, int) and b >= 0:
                return a ** b
            return models.pow_model(self, a, b)
        raise Unsupported(f"numeric op {op}")

    def fp_binop(self, op, a, b):
        za, zb = zof(a, "fp"), zof(b, "fp")
        if op == "Add":
            return S(z3.fpAdd(RNE, za, zb), "fp")
        if op == "Sub":
            return S(z3.fpSub(RNE, za, zb), "fp")
        if op == "Mult":
            return S(z3.fpMul(RNE, za, zb), "fp")
        if op == "Div":
            if self.ctx.branch(z3.fpIsZero(zb), "divisor == 0"):
                raise PyRaise("ZeroDivisionError")
            return S(z3.fpDiv(RNE, za, zb), "fp")
        raise Unsupported(f"fp op {op}")

    # ------------------------------------------------------------------ comparison
    def compare(self, op, a, b):
        if op in ("Is", "IsNot"):
            r = self.identical(a, b)
            return r if op == "Is" else self.wrap_bool(self.not_(self.truth_b(r)))
        if op in ("In", "NotIn"):
            r = self.contains(b, a)
            return r if op == "In" else self.wrap_bool(self.not_(self.truth_b(r)))
        if op in ("Eq", "NotEq"):
            r = self.equal(a, b)
            return r if op == "Eq" else self.wrap_bool(self.not_(self.truth_b(r)))
        # ordering
        a = self.unwrap(a, "left operand of comparison")
        b = self.unwrap(b, "right operand of comparison")
        r = models.order(self, op, a, b)
        if r is not NotImplemented:
            return r
        if isinstance(a, (VRec, VRef)):
            meth = {"Lt": "__lt__", "LtE": "__le__", "Gt": "__gt__", "GtE": "__ge__"}[op]
            cls = a.cls if isinstance(a, VRec) else self.ctx.deref(a).cls
            ci = self.engine.class_info(cls)
            if ci and meth in ci.methods:
                return self.call_method(a, meth, [b], {})
            refl = {"Lt": "__gt__", "LtE": "__ge__", "Gt": "__lt__", "GtE": "__le__"}[op]
            if ci and refl in ci.methods and isinstance(b, (VRec, VRef)):
                return self.call_method(b, refl, [a], {})
        ka, kb = kind_of(a), kind_of(b)
        if ka is None or kb is None:
            raise Unsupported(f"comparison {op} of {a!r} and {b!r}")
        if is_pynum(a) and is_pynum(b):
            return {"Lt": a < b, "LtE": a <= b, "Gt": a > b, "GtE": a >= b}[op]
        k = join_kind(a, b)
        za, zb = zof(a, k), zof(b, k)
        if k == "fp":
            return mk({"Lt": z3.fpLT, "LtE": z3.fpLEQ, "Gt": z3.fpGT, "GtE": z3.fpGEQ}[op](za, zb), "bool")
        return mk({"Lt": za < zb, "LtE": za <= zb, "Gt": za > zb, "GtE": za >= zb}[op], "bool")

    def truth_b(self, r):
        """truth as python bool or z3 Bool of a comparison result."""
        return self.truth(r)

    def identical(self, a, b):
        if b is None or a is None:
            x = a if b is None else b
            if x is None:
                return True
            if isinstance(x, VOpt):
                return mk(x.isnone, "bool")
            return False
        if isinstance(a, bool) and isinstance(b, bool):
            return a == b
        if isinstance(a, VRef) and isinstance(b, VRef):
            return a.addr == b.addr
        if isinstance(a, (VEnum, SEnum)) and isinstance(b, (VEnum, SEnum)):
            return self.equal(a, b)
        if isinstance(b, bool) or isinstance(a, bool):
            x, c = (a, b) if isinstance(b, bool) else (b, a)
            if isinstance(x, S) and x.kind == "bool":
                return mk(x.z if c else z3.Not(x.z), "bool")
            return False
        if isinstance(a, VOpt) or isinstance(b, VOpt):
            an, av = (a.isnone, a.val) if isinstance(a, VOpt) else (False, a)
            bn, bv = (b.isnone, b.val) if isinstance(b, VOpt) else (False, b)
            inner = self.truth(self.identical(av, bv)) if av is not None and bv is not None else False
            return self.wrap_bool(self.or_(self.and_(an, bn), self.and_(self.and_(self.not_(an), self.not_(bn)), inner)))
        if isinstance(a, ExtRef) and isinstance(b, ExtRef):
            return a == b
        if (isinstance(a, VRef) and isinstance(b, (SymSet, SymSeq, SymMap))) or \
                (isinstance(b, VRef) and isinstance(a, (SymSet, SymSeq, SymMap))):
            return False     # a freshly built collection value is never an object that existed before
        raise Unsupported(f"`is` on {a!r}, {b!r}")

    def equal(self, a, b):
        """a == b as python bool or S bool."""
        if isinstance(a, VOpt) or isinstance(b, VOpt):
            an, av = (a.isnone, a.val) if isinstance(a, VOpt) else (a is None, a)
            bn, bv = (b.isnone, b.val) if isinstance(b, VOpt) else (b is None, b)
            both_none = self.and_(an, bn)
            neither = self.and_(self.not_(an), self.not_(bn))
            if av is None or bv is None:
                return self.wrap_bool(both_none)
            inner = self.truth(self.equal(av, bv))
            return self.wrap_bool(self.or_(both_none, self.and_(neither, inner)))
        if a is None or b is None:
            return a is None and b is None
        r = models.equal(self, a, b)
        if r is not NotImplemented:
            return r
        if isinstance(a, tuple) and isinstance(b, tuple):
            if len(a) != len(b):
                return False
            acc = True
            for x, y in zip(a, b):
                acc = self.and_(acc, self.truth(self.equal(x, y)))
            return self.wrap_bool(acc)
        if isinstance(a, VRec) and isinstance(b, VRec):
            ci = self.engine.class_info(a.cls)
            if ci and "__eq__" in ci.methods:
                return self.call_method(a, "__eq__", [b], {})
            if a.cls != b.cls:
                return False
            acc = True
            for k in a.fields:
                if ci and k in ci.nocompare:
                    continue
                acc = self.and_(acc, self.truth(self.equal(a.fields[k], b.fields[k])))
            return self.wrap_bool(acc)
        if isinstance(a, (VEnum, SEnum)) and isinstance(b, (VEnum, SEnum)):
            if isinstance(a, VEnum) and isinstance(b, VEnum):
                return a == b
            ea, eb = self.enum_z(a), self.enum_z(b)
            if ea[0] != eb[0]:
                return False
            return mk(ea[2] == eb[2], "bool")
        if isinstance(a, str) and isinstance(b, str):
            return a == b
        if isinstance(a, frozenset) and isinstance(b, frozenset):
            return a == b
        if isinstance(a, VRef) and isinstance(b, VRef):
            if a.addr == b.addr:
                return True
            ha, hb = self.ctx.deref(a), self.ctx.deref(b)
            if isinstance(ha, HObj) and isinstance(hb, HObj):
                ci = self.engine.class_info(ha.cls)
                if ci and "__eq__" in ci.methods:
                    return self.call_method(a, "__eq__", [b], {})
                if ci and ci.dataclass and ci.eq:
                    if ha.cls != hb.cls:
                        return False
                    acc = True
                    for k in ha.fields:
                        if k in ci.nocompare:
                            continue
                        acc = self.and_(acc, self.truth(self.equal(ha.fields[k], hb.fields[k])))
                    return self.wrap_bool(acc)
                return False
            if isinstance(ha, HList) and isinstance(hb, HList):
                return self.equal(tuple(ha.items), tuple(hb.items))
            if isinstance(ha, HSet) and isinstance(hb, HSet):
                return set(ha.items) == set(hb.items)
            if isinstance(ha, HSymSet) or isinstance(hb, HSymSet):
                # extensional equality of the membership arrays (decided by the array theory)
                from . import symset
                return mk(symset.val_of(self, a).member == symset.val_of(self, b).member, "bool")
            if isinstance(ha, HDict) and isinstance(hb, HDict):
                if set(ha.items) != set(hb.items):
                    return False
                acc = True
                for k in ha.items:
                    acc = self.and_(acc, self.truth(self.equal(ha.items[k], hb.items[k])))
                return self.wrap_bool(acc)
        ka, kb = kind_of(a), kind_of(b)
        if ka is not None and kb is not None:
            if is_pynum(a) and is_pynum(b):
                return a == b
            if ka == "bool" and kb == "bool":
                return mk(zof(a) == zof(b), "bool")
            k = join_kind(a, b)
            if k == "fp":
                return mk(z3.fpEQ(zof(a, "fp"), zof(b, "fp")), "bool")
            return mk(zof(a, k) == zof(b, k), "bool")
        if isinstance(a, SymSet) or isinstance(b, SymSet):
            from . import symset
            return mk(symset.val_of(self, a).member == symset.val_of(self, b).member, "bool")
        # values of unrelated types compare unequal
        if type(a) is not type(b):
            return False
        raise Unsupported(f"equality of {a!r} and {b!r}")

    def contains(self, container, item):
        r = models.contains(self, container, item)
        if r is not NotImplemented:
            return r
        if isinstance(container, dict) and isinstance(item, str):
            return item in container      # keyword arguments of a scripted call
        if isinstance(container, (tuple, frozenset)):
            acc = False
            for x in container:
                acc = self.or_(acc, self.truth(self.equal(item, x)))
            return self.wrap_bool(acc)
        if isinstance(container, VRef):
            h = self.ctx.deref(container)
            if isinstance(h, HKeySet):
                from . import keysets
                return keysets.contains(self.engine, self, h.val, item)
            if isinstance(h, HOptDict):
                return optdict.contains(self, h, item)
            if isinstance(h, HSymSet):
                return mk(z3.Select(h.val.member, self.key_z(self.unwrap(item))), "bool")
            if isinstance(h, HList):
                return self.contains(tuple(h.items), item)
            if isinstance(h, (HSet, HDict)):
                try:
                    key = self.hashable(item)
                    if all(not isinstance(k, (VRec,)) for k in h.items):
                        return key in h.items
                except Unsupported:
                    pass
                return self.contains(tuple(h.items), item)
            ci = self.engine.class_info(h.cls)
            if ci and "__contains__" in ci.methods:
                return self.call_method(container, "__contains__", [item], {})
        if isinstance(container, VRec):
            ci = self.engine.class_info(container.cls)
            if ci and "__contains__" in ci.methods:
                return self.call_method(container, "__contains__", [item], {})
        if isinstance(container, SymSet):
            return mk(z3.Select(container.member, self.key_z(item)), "bool")
        if isinstance(container, SymMap):
            return mk(z3.Select(container.dom, self.key_z(item)), "bool")
        raise Unsupported(f"`in` on {container!r}")

    def key_z(self, v):
        if isinstance(v, VEnum):
            return self.enum_z(v)[2]
        if isinstance(v, SEnum):
            return v.z
        return zof(v)

    # ================================================================== attribute / item access
    def getattr(self, base, attr):
        if isinstance(base, VOpt):
            if self.ctx.branch(base.isnone, "object is None"):
                raise PyRaise("AttributeError", f"None.{attr}")
            base = base.val
        if base is None:
            raise PyRaise("AttributeError", f"None.{attr}")
        if isinstance(base, ModRef):
            return self.module_attr(base.module, attr)
        if isinstance(base, ExtRef):
            from .spec import EXT_ENUMS, EXT_ENUM_KEYS
            if "ext:" + base.name in EXT_ENUMS and attr in EXT_ENUMS["ext:" + base.name]:
                return VEnum("ext:" + base.name, attr)
            if "ext:" + base.name in EXT_ENUM_KEYS and attr[:1].isupper():
                return VEnum("ext:" + base.name, attr)
            if base.name in ("datetime.datetime", "datetime") and attr == "min":
                self.ctx.trusted.add("model:datetime.min is an instant earlier than every timestamp in the data (-10^17 us)")
                return VTime(-(10 ** 17))
            if base.name == "math" and attr in ("nan", "inf", "pi", "e"):
                import math as _m
                if self.ctx.mode == "ieee":
                    return S(z3.FPVal(getattr(_m, attr), FP), "fp")
                if attr == "nan":
                    # floats are reals in this mode: a NaN can be stored and passed on, not computed with
                    # (any arithmetic / comparison on the opaque value is outside the subset)
                    return Opaque("nan")
                if attr == "inf":
                    raise Unsupported(f"math.{attr} in real mode")
                return float_literal(getattr(_m, attr))
            return ExtRef(base.name + "." + attr)
        r = models.getattr_model(self, base, attr)
        if r is not NotImplemented:
            return r
        if isinstance(base, VRec):
            if attr in base.fields:
                return base.fields[attr]
            return self.class_attr(base.cls, base, attr)
        if isinstance(base, VRef):
            h = self.ctx.deref(base)
            if isinstance(h, HObj):
                if attr in h.fields:
                    return h.fields[attr]
                return self.class_attr(h.cls, base, attr)
            return BoundBuiltin(attr, base)
        if isinstance(base, ClassRef):
            if attr in ("__name__", "__qualname__"):
                return base.name
            ci = self.engine.class_info(base.qual)
            if attr in ci.methods:
                fn = ci.methods[attr]
                kind = ci.method_kind(attr)
                if kind == "classmethod":
                    return FuncRef(ci.module_of(attr), f"{ci.name_of(attr)}.{attr}", fn, self_val=base, cls=base.qual)
                return FuncRef(ci.module_of(attr), f"{ci.name_of(attr)}.{attr}", fn, cls=base.qual)
            if ci.is_enum and attr in ci.enum_members:
                return VEnum(base.qual, attr)
            if attr in ci.class_attrs:
                return self.eval(ci.class_attrs[attr], Frame(ci.module))
            raise Unsupported(f"class attribute {base.qual}.{attr}")
        if isinstance(base, (tuple, frozenset, str, SymSeq, SymSet, SymMap, VEnum, SEnum, FuncRef)):
            return BoundBuiltin(attr, base)
        raise Unsupported(f"attribute {attr} of {base!r}")

    def class_attr(self, cls, obj, attr):
        ci = self.engine.class_info(cls)
        if ci is None:
            raise Unsupported(f"attribute {attr} of instance of unknown class {cls}")
        if attr in ci.methods:
            fn = ci.methods[attr]
            kind = ci.method_kind(attr)
            owner_mod = ci.module_of(attr)
            qn = f"{ci.name_of(attr)}.{attr}"
            if kind == "property":
                return self.call_function(FuncRef(owner_mod, qn, fn, self_val=obj, cls=cls), [], {})
            if kind == "staticmethod":
                return FuncRef(owner_mod, qn, fn, cls=cls)
            if kind == "classmethod":
                return FuncRef(owner_mod, qn, fn, self_val=ClassRef(ci.module, ci.name, ci.node), cls=cls)
            return FuncRef(owner_mod, qn, fn, self_val=obj, cls=cls)
        if attr in ci.class_attrs:
            return self.eval(ci.class_attrs[attr], Frame(ci.module_of_attr(attr)))
        raise PyRaise("AttributeError", f"{cls}.{attr}")

    def getitem(self, base, idx):
        base = self.as_symbolic_iterable(self.unwrap(base, "subscripted object")) \
            if isinstance(base, VRef) and isinstance(self.ctx.deref(base), HSymList) else self.unwrap(base, "subscripted object")
        r = models.getitem_model(self, base, idx)
        if r is not NotImplemented:
            return r
        if isinstance(base, tuple):
            return self.index_concrete(list(base), idx)
        if isinstance(base, VRec):
            ci = self.engine.class_info(base.cls)
            if ci is not None and ci.is_namedtuple:
                return self.index_concrete([base.fields[f[0]] for f in ci.fields], idx)     # a NamedTuple is a tuple
        if isinstance(base, VRef):
            h = self.ctx.deref(base)
            if isinstance(h, HList):
                return self.index_concrete(h.items, idx)
            if isinstance(h, HDict):
                return self.dict_get(h, idx, raise_missing=True)
            if isinstance(h, HOptDict):
                return optdict.getitem(self, h, idx)
            ci = self.engine.class_info(h.cls)
            if ci and "__getitem__" in ci.methods:
                return self.call_method(base, "__getitem__", [idx], {})
        if isinstance(base, SymSeq):
            i = zof(idx, "int")
            i2 = z3.If(i < 0, i + base.length, i)
            oob = z3.Or(i2 < 0, i2 >= base.length)
            if self.ctx.in_quantifier:
                # inside a quantified spec body nothing can fork: being in range becomes a
                # conjunct of the body (an out-of-range access makes the clause false)
                try:
                    if self.ctx.branch(oob, "index out of range"):
                        raise PyRaise("IndexError")
                except NeedFork:
                    self.ctx.side_conds[-1].append(z3.Not(oob))
                return base.get(i2)
            if self.ctx.branch(oob, "index out of range"):
                raise PyRaise("IndexError")
            return base.get(i2)
        if isinstance(base, SymMap):
            k = self.key_z(idx)
            if self.ctx.branch(z3.Not(z3.Select(base.dom, k)), "key missing"):
                raise PyRaise("KeyError")
            return base.get(k)
        if isinstance(base, dict) and isinstance(idx, str):
            if idx not in base:
                raise PyRaise("KeyError")
            return base[idx]              # keyword arguments of a scripted call
        if isinstance(base, VRef):
            h = self.ctx.deref(base)
            if isinstance(h, HObj) and h.cls.startswith("ext:") and "__getitem__" in (h.fields.get("__methods__") or {}):
                return models.ext_method(self, base, h, "__getitem__", [idx], {})
        raise Unsupported(f"subscript of {base!r}")

    def index_concrete(self, items, idx):
        if isinstance(idx, bool):
            idx = int(idx)
        if isinstance(idx, int):
            try:
                return items[idx]
            except IndexError:
                raise PyRaise("IndexError") from None
        if isinstance(idx, S) and idx.kind == "int":
            n = len(items)
            for j in range(-n, n):
                if self.ctx.branch(idx.z == j, f"index == {j}"):
                    return items[j]
            raise PyRaise("IndexError")
        raise Unsupported(f"index {idx!r}")

    def dict_key(self, key):
        """Key object stored in a concrete-structure dict: symbolic scalars / times are kept as they are and
        compared by (symbolic) equality at every lookup."""
        try:
            return self.hashable(key)
        except Unsupported:
            if isinstance(key, (S, VTime, VDelta, VQty, SEnum, VRec)):
                return SymKey(key)
            raise

    def dict_get(self, h, key, raise_missing=False, default=None):
        try:
            k = self.hashable(key)
            if not any(isinstance(x, (VRec, SymKey)) for x in h.items):
                if k in h.items:
                    return h.items[k]
                if raise_missing:
                    raise PyRaise("KeyError")
                return default
        except Unsupported:
            pass
        for k2, v2 in h.items.items():
            if self.decide(self.equal(key, k2.value if isinstance(k2, SymKey) else k2), "dict key match"):
                return v2
        if raise_missing:
            raise PyRaise("KeyError")
        return default

    def getslice(self, base, lo, hi, st):
        base = self.unwrap(base)
        if st is not None:
            raise Unsupported("slice step")
        if isinstance(base, tuple) and all(isinstance(x, (int, type(None))) for x in (lo, hi)):
            return base[lo:hi]
        if isinstance(base, VRef):
            h = self.ctx.deref(base)
            if isinstance(h, HList) and all(isinstance(x, (int, type(None))) for x in (lo, hi)):
                return self.ctx.alloc(HList(h.items[lo:hi]))
        r = models.getslice_model(self, base, lo, hi)
        if r is not NotImplemented:
            return r
        raise Unsupported(f"slice of {base!r}")

    # ================================================================== calls
    def e_Call(self, node, fr):
        # spec special forms need unevaluated arguments
        if isinstance(node.func, ast.Name):
            try:
                f0 = self.lookup(node.func.id, fr)
            except Unsupported:
                f0 = None
            if isinstance(f0, SpecFn):
                return self.spec_form(f0.name, node, fr)
            if isinstance(f0, ExtRef) and f0.name == "builtins.super":
                raise Unsupported("super()")
        f = self.eval(node.func, fr)
        # logging is dropped
        if isinstance(f, ExtRef) and (f.name.startswith("logging.getLogger") or ".getLogger(" in f.name):
            return None
        args, kwargs = self.eval_args(node, fr)
        return self.call(f, args, kwargs, node, fr)

    def eval_args(self, node, fr):
        args = []
        for a in node.args:
            if isinstance(a, ast.Starred):
                args.extend(self.iterate_concrete(self.eval(a.value, fr)))
            elif isinstance(a, ast.GeneratorExp):
                args.append(GenExp(a, fr))
            else:
                args.append(self.eval(a, fr))
        kwargs = {}
        for k in node.keywords:
            if k.arg is None:
                h = self.ctx.deref(self.eval(k.value, fr))
                kwargs.update(h.items)
            else:
                kwargs[k.arg] = self.eval(k.value, fr)
        return args, kwargs

    def call(self, f, args, kwargs, node=None, fr=None):
        if isinstance(f, FuncRef):
            return self.call_function(f, args, kwargs)
        if isinstance(f, ClassRef):
            cur = self.engine.current
            ext = getattr(cur, "externals", {}) if cur is not None else {}
            if f.qual in ext:
                # a class whose construction reaches outside (tasks, channels): replaced by a scripted factory -
                # `call <ghost object>` calls that object with the same arguments
                self.ctx.trusted.add(f"external:{f.qual}(...) is the contract's scripted factory `{ext[f.qual]}`")
                efr = Frame(self.engine.contract_module(cur), dict(self.ctx.ghost))
                efr.locals["args"] = tuple(args)
                expr = ext[f.qual]
                if expr.startswith("call "):
                    return self.call(self.eval(self.engine.parse_clause(expr[5:]), efr), args, kwargs)
                return self.eval(self.engine.parse_clause(expr), efr)
            return self.instantiate(f, args, kwargs)
        if isinstance(f, BoundBuiltin):
            return models.call_bound(self, f, args, kwargs)
        if isinstance(f, ExtRef):
            cur = self.engine.current
            if cur is not None and f.name in getattr(cur, "externals", {}):
                self.ctx.trusted.add(f"external:{f.name} returns the contract's ghost object `{cur.externals[f.name]}`")
                efr = Frame(self.engine.contract_module(cur), dict(self.ctx.ghost))
                efr.locals["args"] = tuple(args)
                return self.eval(self.engine.parse_clause(cur.externals[f.name]), efr)
            return models.call_ext(self, f, args, kwargs)
        if isinstance(f, models.ModelCallable):
            return f.call(self, args, kwargs)
        if isinstance(f, GhostSeq):
            return f.at(zof(self.unwrap(args[0]), "int"))
        if isinstance(f, VRef):
            h = self.ctx.deref(f)
            if isinstance(h, HObj) and h.cls.startswith("ext:"):
                return models.ext_method(self, f, h, "__call__", args, kwargs)
            if isinstance(h, HObj):
                return self.call_method(f, "__call__", args, kwargs)
        raise Unsupported(f"call of {f!r}")

    def call_method(self, obj, name, args, kwargs):
        f = self.getattr(obj, name)
        return self.call(f, args, kwargs)

    def call_function(self, f: FuncRef, args, kwargs):
        target = f"{f.module.name}:{f.qualname}"
        eng = self.engine
        if f.self_val is not None and not isinstance(f.node, ast.Lambda):
            args = [f.self_val] + list(args)
        # externals: a repository function that reaches outside (connection manager, ...) is replaced by a
        # spec expression (typically a ghost input object) - an assumption listed in the evidence
        cur = eng.current
        if cur is not None and target in getattr(cur, "externals", {}):
            self.ctx.trusted.add(f"external:{target} returns the contract's ghost object `{cur.externals[target]}`")
            efr = Frame(eng.contract_module(cur), dict(self.ctx.ghost))
            efr.locals["args"] = tuple(args)      # (self first, for methods)
            efr.locals["kwargs"] = dict(kwargs)
            return self.eval(eng.parse_clause(cur.externals[target]), efr)
        # modular: callee under contract is replaced by its contract
        c = eng.contract_for_call(self, target)
        if c is not None:
            if isinstance(f.node, ast.AsyncFunctionDef):
                # calling an async function only makes the coroutine; its contract applies when awaited
                return Coro(lambda: eng.call_by_contract(self, c, f, args, kwargs), label=f.qualname)
            return eng.call_by_contract(self, c, f, args, kwargs)
        if isinstance(f.node, ast.AsyncFunctionDef):
            # calling an async function only creates the coroutine; whether its body is within reach
            # matters only if it is awaited here
            def body():
                if f.closure is None and not eng.may_inline(self, target, f):
                    raise Unsupported(f"await of {target}: no contract and not inlinable")
                return self.run_function(f, args, kwargs)
            return Coro(body, label=f.qualname)
        if not isinstance(f.node, ast.Lambda) and f.closure is None and not eng.may_inline(self, target, f):
            raise Unsupported(f"call to {target}: no contract and not inlinable")
        return self.run_function(f, args, kwargs)

    def run_function(self, f: FuncRef, args, kwargs):
        node = f.node
        fr = Frame(f.module, {}, closure=f.closure, fn=node, cls=f.cls)
        self.bind_params(node.args, args, kwargs, fr, f)
        if isinstance(node, ast.Lambda):
            return self.eval(node.body, fr)
        self.ctx.env_stack.append(f.qualname)
        if len(self.ctx.env_stack) > 40:
            raise Unsupported("recursion too deep")
        try:
            self.exec_block(node.body, fr)
        except _Return as r:
            return r.value
        finally:
            self.ctx.env_stack.pop()
        return None

    def bind_params(self, a: ast.arguments, args, kwargs, fr, f):
        params = list(a.posonlyargs) + list(a.args)
        defaults = [None] * (len(params) - len(a.defaults)) + list(a.defaults)
        args = list(args)
        kwargs = dict(kwargs)
        for p, d in zip(params, defaults):
            if args:
                fr.locals[p.arg] = args.pop(0)
            elif p.arg in kwargs:
                fr.locals[p.arg] = kwargs.pop(p.arg)
            elif d is not None:
                fr.locals[p.arg] = self.eval(d, Frame(f.module, closure=f.closure))
            else:
                raise PyRaise("TypeError", f"missing argument {p.arg}")
        if a.vararg:
            fr.locals[a.vararg.arg] = tuple(args)
            args = []
        if args:
            raise PyRaise("TypeError", "too many positional arguments")
        for p, d in zip(a.kwonlyargs, a.kw_defaults):
            if p.arg in kwargs:
                fr.locals[p.arg] = kwargs.pop(p.arg)
            elif d is not None:
                fr.locals[p.arg] = self.eval(d, Frame(f.module, closure=f.closure))
            else:
                raise PyRaise("TypeError", f"missing keyword argument {p.arg}")
        if a.kwarg:
            fr.locals[a.kwarg.arg] = self.ctx.alloc(HDict(kwargs))
        elif kwargs:
            raise PyRaise("TypeError", f"unexpected keyword arguments {list(kwargs)}")

    def instantiate(self, c: ClassRef, args, kwargs):
        ci = self.engine.class_info(c.qual)
        r = models.instantiate_model(self, c, ci, args, kwargs)
        if r is not NotImplemented:
            return r
        if ci.is_exception:
            return VRec(c.qual, {"args": tuple(args), "__exc__": True})
        if ci.dataclass and "__init__" not in ci.own_methods_all():
            fields = {}
            fl = ci.fields
            args = list(args)
            kwargs = dict(kwargs)
            for name, default, kw_only in fl:
                if args and not kw_only and not ci.kw_only:
                    fields[name] = args.pop(0)
                elif name in kwargs:
                    fields[name] = kwargs.pop(name)
                elif default is not None:
                    fields[name] = self.eval_default(default, ci)
                else:
                    raise PyRaise("TypeError", f"missing field {name}")
            if args or kwargs:
                raise PyRaise("TypeError", "bad constructor arguments")
            if ci.frozen:
                obj = VRec(c.qual, fields)
            else:
                obj = self.ctx.alloc(HObj(c.qual, fields))
            if "__post_init__" in ci.methods:
                self.call_method(obj, "__post_init__", [], {})
            return obj
        if ci.is_namedtuple:
            fields = {}
            args = list(args)
            for name, default, _ in ci.fields:
                if args:
                    fields[name] = args.pop(0)
                elif name in kwargs:
                    fields[name] = kwargs[name]
                elif default is not None:
                    fields[name] = self.eval_default(default, ci)
                else:
                    raise PyRaise("TypeError", f"missing field {name}")
            return VRec(c.qual, fields)
        obj = self.ctx.alloc(HObj(c.qual, {}))
        if "__init__" in ci.methods:
            self.call_method(obj, "__init__", args, kwargs)
        return obj

    def eval_default(self, default, ci):
        # dataclasses.field(default=..., default_factory=...)
        if isinstance(default, ast.Call):
            fn = default.func
            name = fn.attr if isinstance(fn, ast.Attribute) else getattr(fn, "id", "")
            if name == "field":
                for k in default.keywords:
                    if k.arg == "default":
                        return self.eval(k.value, Frame(ci.module))
                    if k.arg == "default_factory":
                        fac = self.eval(k.value, Frame(ci.module))
                        return self.call(fac, [], {})
                raise PyRaise("TypeError", "missing field")
        return self.eval(default, Frame(ci.module))

    # ------------------------------------------------------------------ spec forms
    def spec_form(self, name, node, fr):
        ctx = self.ctx
        if name == "old":
            if ctx.old is None:
                raise Unsupported("old() outside a postcondition")
            old_locals, old_heap = ctx.old
            saved_heap = ctx.heap
            ctx.heap = old_heap
            try:
                # names bound by enclosing spec lambdas (quantified variables) stay visible;
                # the spec root frame (parameters) is replaced by the entry-state bindings
                f = fr
                chain = []
                while f is not None:
                    chain.append(f)
                    f = f.closure
                merged = {}
                for f in reversed(chain):
                    if getattr(f, "is_spec_root", False):
                        merged.update(old_locals)
                    else:
                        merged.update(f.locals)
                ofr = Frame(fr.module, merged, closure=None)
                return self.eval(node.args[0], ofr)
            finally:
                ctx.heap = saved_heap
        if name == "implies":
            a = self.truth(self.eval(node.args[0], fr))
            if a is False:
                return True
            if a is True:
                return self.wrap_bool(self.truth(self.eval(node.args[1], fr)))
            try:
                b = self.try_nofork(a, lambda: self.truth(self.eval(node.args[1], fr)))
                return self.wrap_bool(self.or_(z3.Not(a), b))
            except Infeasible:
                return True
            except PyRaise:
                # the consequent is ill-defined under the antecedent.  When *assuming* a
                # verified callee's postcondition this cannot happen in a reachable state
                # (the callee's own verification rejects clauses that raise), so the clause
                # carries no information here; when *checking*, it is an error unless the
                # antecedent is infeasible.
                if ctx.assuming or not ctx.feasible(a):
                    return True
                raise
            except NeedFork:
                if ctx.branch(a, "implies-antecedent"):
                    try:
                        return self.wrap_bool(self.truth(self.eval(node.args[1], fr)))
                    except PyRaise:
                        if ctx.assuming:
                            # a verified callee's postcondition is well defined on every real
                            # result, so this combination cannot occur
                            raise Infeasible() from None
                        raise
                return True
        if name == "ite":
            c = self.truth(self.eval(node.args[0], fr))
            if isinstance(c, bool):
                return self.eval(node.args[1] if c else node.args[2], fr)
            try:
                a = self.try_nofork(c, lambda: self.eval(node.args[1], fr))
            except Infeasible:
                return self.eval(node.args[2], fr)
            try:
                b = self.try_nofork(z3.Not(c), lambda: self.eval(node.args[2], fr))
            except Infeasible:
                return a
            return self.ite_value(c, a, b)
        if name in ("forall", "exists"):
            lo = self.eval(node.args[0], fr)
            hi = self.eval(node.args[1], fr)
            lam = node.args[2]
            if not isinstance(lam, ast.Lambda):
                raise Unsupported("forall needs a lambda")
            if isinstance(lo, int) and isinstance(hi, int) and hi - lo <= 64:
                acc = name == "forall"
                for i in range(lo, hi):
                    lfr = Frame(fr.module, {lam.args.args[0].arg: i}, closure=fr)
                    t = self.truth(self.eval(lam.body, lfr))
                    acc = self.and_(acc, t) if name == "forall" else self.or_(acc, t)
                return self.wrap_bool(acc)
            iv = z3.Int(fresh_name("q_" + lam.args.args[0].arg))
            rng = z3.And(zof(lo, "int") <= iv, iv < zof(hi, "int"))
            lfr = Frame(fr.module, {lam.args.args[0].arg: S(iv, "int")}, closure=fr)
            ctx.in_quantifier += 1
            ctx.side_conds.append([])
            try:
                body = self.try_nofork(rng, lambda: self.truth(self.eval(lam.body, lfr)), quantified=True)
            except Infeasible:
                return name == "forall"
            finally:
                ctx.in_quantifier -= 1
                side = ctx.side_conds.pop()
            body = zbool(body) if not isinstance(body, bool) else z3.BoolVal(body)
            if side:
                body = z3.And(*side, body)
            if name == "forall":
                return mk(z3.ForAll([iv], z3.Implies(rng, body)), "bool")
            return mk(z3.Exists([iv], z3.And(rng, body)), "bool")
        if name in ("keyset_has", "keyset_get"):
            from . import keysets
            b = self.eval(node.args[0], fr)
            keys = [zof(self.unwrap(k), "int") for k in self.iterate_concrete(self.eval(node.args[2], fr))]
            h = ctx.deref(b) if isinstance(b, VRef) else None
            if isinstance(h, HSet):
                b = self.engine.coerce_keyset_any(self, b, self.iterate_concrete(self.eval(node.args[1], fr)))
                h = ctx.deref(b)
            if not isinstance(h, HKeySet):
                raise Unsupported("keyset_has on a non key-set")
            keysets.instantiate_enumeration_at(self.engine, self, h.val, keys)
            if name == "keyset_has":
                return mk(keysets.nsel(h.val.present, keys), "bool")
            return keysets.elem_at(self.engine, self, h.val, keys)
        if name == "new_pending_task":
            from .spec import TaskT
            t = self.engine.make_sym(ctx, TaskT(), fresh_name("late_task"))
            ctx.deref(t).fields["_done"] = False
            return t
        if name == "close":
            a = self.eval(node.args[0], fr)
            b = self.eval(node.args[1], fr)
            return self.equal(a, b)
        if name == "elements":
            v = self.as_symbolic_iterable(self.eval(node.args[0], fr))
            if isinstance(v, SymSet):
                from . import symset
                return symset.enumeration(self, v)
            return v
        if name == "same_record":
            a = self.eval(node.args[0], fr)
            b = self.eval(node.args[1], fr)
            return self.engine.fieldwise_equal(self, self.unwrap(a), self.unwrap(b))
        raise Unsupported(f"spec form {name}")

    # ================================================================== iteration helpers
    def iterate_concrete(self, v):
        """Elements of an iterable with concrete structure (python list of values)."""
        if isinstance(v, GenExp):
            return list(self.gen_items(v))
        if isinstance(v, (tuple, list)):
            return list(v)
        if isinstance(v, frozenset):
            items = sorted(v, key=repr)
            cur = self.engine.current
            if (cur is not None and getattr(cur, "set_iteration_order", None) == "arbitrary" and 2 <= len(items) <= 3
                    and not self.ctx.nofork):
                # python iterates a set in an arbitrary order: every permutation is explored
                import itertools
                perms = list(itertools.permutations(items))
                for p in perms[:-1]:
                    if self.ctx.choose(f"set iteration order {p}"):
                        return list(p)
                return list(perms[-1])
            return items
        if isinstance(v, VRef):
            h = self.ctx.deref(v)
            if isinstance(h, HList):
                return list(h.items)
            if isinstance(h, (HSet, HDict)):
                return [k.value if isinstance(k, SymKey) else k for k in h.items]
            if isinstance(h, HOptDict):
                return optdict.present_keys(self, h)
        r = models.iterate_model(self, v)
        if r is not NotImplemented:
            return r
        if isinstance(v, VRec):
            ci = self.engine.class_info(v.cls)
            if ci is not None and ci.is_namedtuple:
                return [v.fields[f[0]] for f in ci.fields]
        raise Unsupported(f"iteration over {v!r}")

    def gen_items(self, g: "GenExp"):
        out = []
        self._comp(g.node.generators, 0, g.fr, lambda fr2: out.append(self.eval(g.node.elt, fr2)))
        return out

    def _comp(self, gens, i, fr, emit):
        if i == len(gens):
            emit(fr)
            return
        g = gens[i]
        it = self.eval(g.iter, fr)
        for x in self.iterate_concrete(it):
            fr2 = Frame(fr.module, {}, closure=fr)
            self.assign_target(g.target, x, fr2)
            ok = True
            for cond in g.ifs:
                if not self.decide(self.eval(cond, fr2), self.src(cond, fr)):
                    ok = False
                    break
            if ok:
                self._comp(gens, i + 1, fr2, emit)

    def keyset_filter_comp(self, node, fr):
        """`{x for x in S if cond}` / `[x for x in S if cond]` over a set of records keyed by their identity: the
        sub-collection of S where cond holds (as a set of records; a list built this way is only good for membership,
        iteration order being arbitrary anyway)."""
        if len(node.generators) != 1:
            return None
        g = node.generators[0]
        if not (isinstance(g.target, ast.Name) and isinstance(node.elt, ast.Name) and node.elt.id == g.target.id):
            return None
        src = self.eval(g.iter, fr)
        if not (isinstance(src, VRef) and isinstance(self.ctx.deref(src), HKeySet)):
            return None
        from . import keysets

        def cond(elem):
            fr2 = Frame(fr.module, {}, closure=fr)
            self.assign_target(g.target, elem, fr2)
            acc = True
            for c in g.ifs:
                acc = self.and_(acc, self.truth(self.eval(c, fr2)))
            return acc
        return self.ctx.alloc(HKeySet(keysets.filtered(self.engine, self, self.ctx.deref(src).val, cond)))

    def e_ListComp(self, node, fr):
        ks = self.keyset_filter_comp(node, fr)
        if ks is not None:
            return ks
        out = []
        self._comp(node.generators, 0, fr, lambda fr2: out.append(self.eval(node.elt, fr2)))
        return self.ctx.alloc(HList(out))

    def e_SetComp(self, node, fr):
        ks = self.keyset_filter_comp(node, fr)
        if ks is not None:
            return ks
        out = []
        self._comp(node.generators, 0, fr, lambda fr2: out.append(self.hashable(self.eval(node.elt, fr2))))
        return self.ctx.alloc(HSet(out))

    def e_DictComp(self, node, fr):
        d = HDict()

        def emit(fr2):
            d.items[self.hashable(self.eval(node.key, fr2))] = self.eval(node.value, fr2)
        self._comp(node.generators, 0, fr, emit)
        return self.ctx.alloc(d)

    def e_GeneratorExp(self, node, fr):
        return GenExp(node, fr)

    def e_Starred(self, node, fr):
        raise Unsupported("starred expression")

    def src(self, node, fr):
        try:
            s = fr.module.source_of(node)
            return " ".join(s.split())[:120]
        except Exception:  # pylint: disable=broad-except
            return type(node).__name__

    # ================================================================== statements
    def exec_block(self, body, fr):
        for st in body:
            self.exec(st, fr)

    def exec(self, node, fr):
        m = getattr(self, "s_" + type(node).__name__, None)
        if m is None:
            raise Unsupported(f"statement {type(node).__name__}")
        return m(node, fr)

    def s_Pass(self, node, fr):
        pass

    def s_Global(self, node, fr):
        fr.globals_decl.update(node.names)

    def s_Nonlocal(self, node, fr):
        fr.nonlocals.update(node.names)

    def s_Import(self, node, fr):
        for a in node.names:
            local = a.asname or a.name.split(".")[0]
            target = a.name if a.asname else a.name.split(".")[0]
            fr.locals[local] = self.resolve_import(("module", target))

    def s_ImportFrom(self, node, fr):
        base = fr.module._resolve_relative(node.module, node.level)
        for a in node.names:
            fr.locals[a.asname or a.name] = self.resolve_import(("from", base, a.name))

    def s_Expr(self, node, fr):
        v = node.value
        if isinstance(v, ast.Constant):
            return
        if isinstance(v, ast.Call) and self.is_logging_call(v, fr):
            return
        self.eval(v, fr)

    def is_logging_call(self, call, fr):
        f = call.func
        if isinstance(f, ast.Attribute) and isinstance(f.value, ast.Name) and f.value.id in ("_logger", "logger", "_log", "logging"):
            return True
        return False

    def s_Return(self, node, fr):
        raise _Return(self.eval(node.value, fr) if node.value is not None else None)

    def s_Break(self, node, fr):
        raise _Break()

    def s_Continue(self, node, fr):
        raise _Continue()

    def s_Assert(self, node, fr):
        t = self.eval(node.test, fr)
        # isinstance-only asserts narrow types; nothing to check
        if not self.decide(t, "assert " + self.src(node.test, fr)):
            raise PyRaise("AssertionError")

    def s_Raise(self, node, fr):
        if node.exc is None:
            cur = getattr(fr, "current_exc", None)
            f = fr
            while cur is None and f.closure is not None:
                f = f.closure
                cur = getattr(f, "current_exc", None)
            if cur is None:
                raise Unsupported("bare raise outside handler")
            raise cur
        e = self.eval(node.exc, fr)
        raise self.to_pyraise(e)

    def to_pyraise(self, e):
        if isinstance(e, PyRaise):
            return e
        if isinstance(e, ClassRef):
            return PyRaise(e.name, value=e)
        if isinstance(e, ExtRef):
            return PyRaise(e.name.split(".")[-1])
        if isinstance(e, VRec) and e.fields.get("__exc__"):
            return PyRaise(e.cls.split(":")[-1], value=e)
        if isinstance(e, models.ExcValue):
            return PyRaise(e.cls, value=e)
        raise Unsupported(f"raise of {e!r}")

    def s_If(self, node, fr):
        c = self.eval(node.test, fr)
        if self.decide(c, self.src(node.test, fr)):
            self.exec_block(node.body, fr)
        else:
            self.exec_block(node.orelse, fr)

    def s_Assign(self, node, fr):
        v = self.eval(node.value, fr)
        for t in node.targets:
            self.assign_target(t, v, fr)

    def s_AnnAssign(self, node, fr):
        if node.value is not None:
            self.assign_target(node.target, self.eval(node.value, fr), fr)

    def s_AugAssign(self, node, fr):
        t = node.target
        if isinstance(t, ast.Name):
            cur = self.lookup(t.id, fr)
        elif isinstance(t, ast.Attribute):
            obj = self.eval(t.value, fr)
            cur = self.getattr(obj, t.attr)
        elif isinstance(t, ast.Subscript):
            obj = self.eval(t.value, fr)
            idx = self.eval(t.slice, fr)
            cur = self.getitem(obj, idx)
        else:
            raise Unsupported("augassign target")
        rhs = self.eval(node.value, fr)
        op = type(node.op).__name__
        newv = None
        if isinstance(cur, VRef) and op in ("Add", "BitOr", "Sub", "BitAnd"):
            h = self.ctx.deref(cur)
            if isinstance(h, HList) and op == "Add":
                self.ctx.mutate()
                h.items.extend(self.iterate_concrete(rhs))
                return
            if isinstance(h, HSet) and op == "BitOr":
                self.ctx.mutate()
                for x in self.iterate_concrete(rhs):
                    h.items[self.hashable(x)] = None
                return
        newv = self.binop(op, cur, rhs)
        if isinstance(t, ast.Name):
            self.assign_name(t.id, newv, fr)
        elif isinstance(t, ast.Attribute):
            self.setattr(obj, t.attr, newv)
        else:
            self.setitem(obj, idx, newv)

    def assign_name(self, name, v, fr):
        if name in fr.nonlocals:
            f = fr.closure
            while f is not None:
                if name in f.locals:
                    f.locals[name] = v
                    return
                f = f.closure
            raise Unsupported(f"nonlocal {name} not found")
        fr.locals[name] = v

    def assign_target(self, t, v, fr):
        if isinstance(t, ast.Name):
            self.assign_name(t.id, v, fr)
        elif isinstance(t, (ast.Tuple, ast.List)):
            items = self.iterate_concrete(v)
            if len(items) != len(t.elts):
                raise PyRaise("ValueError", "unpack")
            for te, x in zip(t.elts, items):
                self.assign_target(te, x, fr)
        elif isinstance(t, ast.Attribute):
            obj = self.eval(t.value, fr)
            self.setattr(obj, t.attr, v)
        elif isinstance(t, ast.Subscript):
            obj = self.eval(t.value, fr)
            idx = self.eval(t.slice, fr)
            self.setitem(obj, idx, v)
        else:
            raise Unsupported("assignment target")

    def setattr(self, obj, attr, v):
        obj = self.unwrap(obj)
        if isinstance(obj, VRef):
            h = self.ctx.deref(obj)
            if isinstance(h, HObj):
                self.ctx.mutate()
                self.engine.note_write(self, obj, attr)
                h.fields[attr] = v
                return
        r = models.setattr_model(self, obj, attr, v)
        if r is not NotImplemented:
            return
        raise Unsupported(f"attribute store on {obj!r}")

    def setitem(self, obj, idx, v):
        obj = self.unwrap(obj)
        r = models.setitem_model(self, obj, idx, v)
        if r is not NotImplemented:
            return
        if isinstance(obj, VRef):
            h = self.ctx.deref(obj)
            self.ctx.mutate()
            if isinstance(h, HOptDict):
                optdict.setitem(self, h, idx, v)
                return
            if isinstance(h, HList):
                if isinstance(idx, int):
                    try:
                        h.items[idx] = v
                    except IndexError:
                        raise PyRaise("IndexError") from None
                    return
            if isinstance(h, HDict):
                k = self.dict_key(idx)
                if any(isinstance(x, (VRec, SymKey)) for x in list(h.items) + [k]):
                    kv = k.value if isinstance(k, SymKey) else k
                    for k2 in list(h.items):
                        if self.decide(self.equal(kv, k2.value if isinstance(k2, SymKey) else k2), "dict key match"):
                            h.items[k2] = v
                            return
                h.items[k] = v
                return
        raise Unsupported(f"item store on {obj!r}")

    def s_Delete(self, node, fr):
        for t in node.targets:
            if isinstance(t, ast.Subscript):
                obj = self.eval(t.value, fr)
                idx = self.eval(t.slice, fr)
                r = models.delitem_model(self, obj, idx)
                if r is not NotImplemented:
                    continue
                h = self.ctx.deref(obj)
                if isinstance(h, HObj) and h.cls.startswith("ext:") and "__delitem__" in (h.fields.get("__methods__") or {}):
                    models.ext_method(self, obj, h, "__delitem__", [idx], {})       # a scripted collaborator says what del does
                    continue
                self.ctx.mutate()
                if isinstance(h, HOptDict):
                    optdict.delitem(self, h, idx)
                    continue
                if isinstance(h, HDict):
                    k = self.hashable(idx)
                    if k not in h.items:
                        raise PyRaise("KeyError")
                    del h.items[k]
                    continue
                if isinstance(h, HList) and isinstance(idx, int):
                    try:
                        del h.items[idx]
                    except IndexError:
                        raise PyRaise("IndexError") from None
                    continue
                raise Unsupported("del target")
            elif isinstance(t, ast.Name):
                fr.locals.pop(t.id, None)
            else:
                raise Unsupported("del target")

    def s_FunctionDef(self, node, fr):
        fr.locals[node.name] = FuncRef(fr.module, node.name, node, closure=fr)

    s_AsyncFunctionDef = s_FunctionDef

    def s_While(self, node, fr):
        spec = self.engine.loop_spec(self, node, fr)
        if spec is not None:
            return self.engine.exec_loop_with_invariant(self, node, fr, spec)
        n = 0
        limit = self.engine.unroll_limit
        while True:
            c = self.eval(node.test, fr)
            if not self.decide(c, self.src(node.test, fr)):
                self.exec_block(node.orelse, fr)
                return
            try:
                self.exec_block(node.body, fr)
            except _Break:
                return
            except _Continue:
                pass
            n += 1
            if n > limit:
                raise Unsupported(f"while loop without invariant exceeded {limit} iterations: "
                                  f"{self.src(node.test, fr)}")

    def search_loop(self, node, fr, iterable):
        """A pure search loop over a symbolic sequence needs no invariant:

            for x in seq:
                if TEST(x):
                    <assignments to plain local names>
                    break
            [else: ...]

        is `x = first element with TEST` (the model of next() over a generator), followed by the assignments when
        there is one, the else-block when there is none.  Anything else is not recognised (-> needs an invariant)."""
        if not isinstance(iterable, SymSeq) or isinstance(node, ast.AsyncFor) or len(node.body) != 1:
            return False
        st = node.body[0]
        if not (isinstance(st, ast.If) and not st.orelse and st.body and isinstance(st.body[-1], ast.Break)):
            return False
        for a in st.body[:-1]:
            if not (isinstance(a, ast.Assign) and all(isinstance(t, ast.Name) for t in a.targets)):
                return False
        if any(isinstance(n, (ast.Call, ast.Await, ast.NamedExpr)) and not (
                isinstance(n, ast.Call) and isinstance(n.func, ast.Attribute) and n.func.attr in ("isnan", "isinf"))
               for n in ast.walk(st.test)):
            return False         # the test must be free of effects
        if not isinstance(node.target, ast.Name):
            return False
        gen = ast.GeneratorExp(elt=ast.Name(id=node.target.id, ctx=ast.Load()),
                               generators=[ast.comprehension(target=node.target, iter=node.iter, ifs=[st.test], is_async=0)])
        ast.fix_missing_locations(ast.copy_location(gen, node))
        g = GenExp(gen, fr)
        g.cached_iter = iterable
        first = self.engine.fold_symbolic(self, "next", g, {"default": None})
        isnone = first.isnone if isinstance(first, VOpt) else (first is None)
        if self.decide(mk(isnone, "bool") if not isinstance(isnone, bool) else isnone, "search loop finds nothing"):
            self.exec_block(node.orelse, fr)
            return True
        self.assign_target(node.target, first.val if isinstance(first, VOpt) else first, fr)
        self.exec_block(st.body[:-1], fr)
        return True

    def bulk_loop(self, node, fr, iterable_value):
        """`for x in E: B.remove(x)` / `B.discard(x)` with E and B two different sets of records of one key shape needs
        no invariant: it is B -= E.  `remove` raises KeyError when some element of E is not in B - decided with a fresh
        witness key (a feasible witness is a reachable KeyError; none means E is a subset of B)."""
        if isinstance(node, ast.AsyncFor) or node.orelse or len(node.body) != 1 or not isinstance(node.target, ast.Name):
            return False
        st = node.body[0]
        if not (isinstance(st, ast.Expr) and isinstance(st.value, ast.Call) and isinstance(st.value.func, ast.Attribute)
                and st.value.func.attr in ("remove", "discard") and len(st.value.args) == 1 and not st.value.keywords
                and isinstance(st.value.args[0], ast.Name) and st.value.args[0].id == node.target.id):
            return False
        if not (isinstance(iterable_value, VRef) and isinstance(self.ctx.deref(iterable_value), HKeySet)):
            return False
        recv_expr = st.value.func.value
        if any(isinstance(n, (ast.Call, ast.Await, ast.NamedExpr)) for n in ast.walk(recv_expr)):
            return False
        recv = self.eval(recv_expr, fr)
        if not (isinstance(recv, VRef) and recv != iterable_value and isinstance(self.ctx.deref(recv), HKeySet)):
            return False
        from . import keysets
        e, b = self.ctx.deref(iterable_value).val, self.ctx.deref(recv)
        if e.shape.key != b.val.shape.key:
            return False
        if st.value.func.attr == "remove":
            wk = [z3.Int(fresh_name("wk")) for _ in e.shape.key]
            if self.ctx.branch(z3.And(keysets.nsel(e.present, wk), z3.Not(keysets.nsel(b.val.present, wk))),
                               "element to remove not in set"):
                raise PyRaise("KeyError")
        self.ctx.mutate()
        b.val = keysets.difference(self.engine, self, b.val, e)
        return True

    def s_For(self, node, fr):
        spec = self.engine.loop_spec(self, node, fr)
        it_value = self.eval(node.iter, fr)
        if spec is None and self.bulk_loop(node, fr, it_value):
            return None
        it = self.as_symbolic_iterable(it_value)
        if spec is None and (isinstance(it, (SymSeq, SymSet, SymMap, Stream)) or models.is_symbolic_iterable(self, it)):
            # a loop over a symbolic collection inside a helper executed inline: the code may have been moved there
            # (and its loop variable renamed) - look for its invariant with the fallback rules
            self.engine._symbolic_loop = True  # pylint: disable=protected-access
            try:
                spec = self.engine.loop_spec(self, node, fr)
            finally:
                self.engine._symbolic_loop = False  # pylint: disable=protected-access
        if spec is not None:
            return self.engine.exec_loop_with_invariant(self, node, fr, spec, iterable=it)
        if isinstance(it, (SymSeq, SymSet, SymMap, Stream)) or models.is_symbolic_iterable(self, it):
            if self.search_loop(node, fr, it):
                return
            raise Unsupported(f"loop over a symbolic collection needs an invariant: for {self.src(node.target, fr)} in {self.src(node.iter, fr)}")
        items = self.iterate_concrete(it)
        for x in items:
            self.assign_target(node.target, x, fr)
            try:
                self.exec_block(node.body, fr)
            except _Break:
                return
            except _Continue:
                continue
        self.exec_block(node.orelse, fr)

    s_AsyncFor = s_For

    def as_symbolic_iterable(self, v):
        if isinstance(v, SymSet):
            from . import symset
            return symset.enumeration(self, v)
        if isinstance(v, VRef):
            h = self.ctx.deref(v)
            if isinstance(h, HKeySet):
                from . import keysets
                return keysets.enumeration(self.engine, self, h.val)
            if isinstance(h, HSymList):
                return h.seq
            if isinstance(h, HSymSet):
                from . import symset
                return symset.enumeration(self, h.val)
            if isinstance(h, HObj) and h.cls.startswith("ext:") and h.fields.get("__stream__") is not None:
                return Stream(h.fields["__stream__"], source=v)
        return v

    def s_With(self, node, fr):
        return self.engine.exec_with(self, node, fr)

    s_AsyncWith = s_With

    def s_Try(self, node, fr):
        try:
            try:
                self.exec_block(node.body, fr)
            except PyRaise as e:
                handled = False
                for h in node.handlers:
                    if self.handler_matches(h, e, fr):
                        handled = True
                        if h.name:
                            fr.locals[h.name] = e.value if e.value is not None else models.ExcValue(e.cls)
                        prev = getattr(fr, "current_exc", None)
                        fr.current_exc = e
                        try:
                            self.exec_block(h.body, fr)
                        finally:
                            fr.current_exc = prev
                        break
                if not handled:
                    raise
            else:
                self.exec_block(node.orelse, fr)
        finally:
            if node.finalbody:
                self.exec_block(node.finalbody, fr)

    def handler_matches(self, h, e: PyRaise, fr):
        if h.type is None:
            return True
        types = h.type.elts if isinstance(h.type, ast.Tuple) else [h.type]
        for t in types:
            if isinstance(t, ast.Subscript):
                # `except Cls[T]`: a subscripted generic is not a class; python raises TypeError when it
                # tries to match an exception against it (probed natively on every run)
                self.ctx.trusted.add("model:`except Cls[T]` raises TypeError when an exception reaches the clause")
                raise PyRaise("TypeError", "catching classes that do not inherit from BaseException is not allowed")
            name = self.exc_class_name(t, fr)
            if isinstance(e.cls, str):
                if exc_is_subclass(e.cls, name, self.ctx.extra_exc):
                    return True
            else:
                # symbolic exception class: SEnum over class names
                members = e.cls.members
                conds = [e.cls.z == i for i, m in enumerate(members)
                         if exc_is_subclass(m, name, self.ctx.extra_exc)]
                if conds and self.ctx.branch(z3.Or(*conds), f"exception is {name}"):
                    return True
        return False

    def exc_class_name_of(self, v):
        if isinstance(v, ClassRef):
            return v.name
        if isinstance(v, ExtRef):
            return v.name.split(".")[-1]
        raise Unsupported(f"exception class {v!r}")

    def exc_class_name(self, t, fr):
        v = self.eval(t, fr)
        if isinstance(v, ClassRef):
            ci = self.engine.class_info(v.qual)
            if ci and ci.bases:
                self.ctx.extra_exc.setdefault(v.name, ci.bases[0].split(".")[-1])
            return v.name
        if isinstance(v, ExtRef):
            return v.name.split(".")[-1]
        raise Unsupported(f"except clause type {v!r}")

    # ------------------------------------------------------------------ match
    def s_Match(self, node, fr):
        subject = self.eval(node.subject, fr)
        for case in node.cases:
            binds = {}
            if self.match_pattern(case.pattern, subject, binds, fr):
                saved = dict(fr.locals)
                fr.locals.update(binds)
                if case.guard is not None:
                    if not self.decide(self.eval(case.guard, fr), "guard " + self.src(case.guard, fr)):
                        # bindings made by a failed case stay bound in Python; harmless here
                        continue
                self.exec_block(case.body, fr)
                return

    def match_pattern(self, pat, v, binds, fr):
        """Decide (branching as needed) whether v matches pat; fills binds."""
        if isinstance(pat, ast.MatchValue):
            c = self.equal(v, self.eval(pat.value, fr))
            return self.decide(c, f"match == {self.src(pat.value, fr)}")
        if isinstance(pat, ast.MatchSingleton):
            c = self.identical(v, pat.value)
            return self.decide(c, f"match is {pat.value}")
        if isinstance(pat, ast.MatchAs):
            if pat.pattern is not None:
                if not self.match_pattern(pat.pattern, v, binds, fr):
                    return False
            if pat.name is not None:
                binds[pat.name] = v
            return True
        if isinstance(pat, ast.MatchOr):
            for alt in pat.patterns:
                b2 = {}
                if self.match_pattern(alt, v, b2, fr):
                    binds.update(b2)
                    return True
            return False
        if isinstance(pat, ast.MatchSequence):
            if isinstance(v, VOpt):
                if self.ctx.branch(v.isnone, "match subject is None"):
                    return False
                v = v.val
            if isinstance(v, VRef):
                h = self.ctx.deref(v)
                if not isinstance(h, HList):
                    return False
                items = h.items
            elif isinstance(v, tuple):
                items = list(v)
            else:
                return False
            if any(isinstance(p, ast.MatchStar) for p in pat.patterns):
                raise Unsupported("star pattern")
            if len(items) != len(pat.patterns):
                return False
            for p, x in zip(pat.patterns, items):
                if not self.match_pattern(p, x, binds, fr):
                    return False
            return True
        if isinstance(pat, ast.MatchClass):
            cls = self.eval(pat.cls, fr)
            if isinstance(v, VOpt):
                if self.ctx.branch(v.isnone, "match subject is None"):
                    return False
                v = v.val
            if not self.decide(models.isinstance_model(self, v, cls), "match class"):
                return False
            ci = None
            if isinstance(cls, ClassRef):
                ci = self.engine.class_info(cls.qual)
            for i, p in enumerate(pat.patterns):
                if ci is None:
                    raise Unsupported("positional class pattern on external class")
                fname = ci.match_args()[i]
                if not self.match_pattern(p, self.getattr(v, fname), binds, fr):
                    return False
            for name, p in zip(pat.kwd_attrs, pat.kwd_patterns):
                if not self.match_pattern(p, self.getattr(v, name), binds, fr):
                    return False
            return True
        raise Unsupported(f"pattern {type(pat).__name__}")


class SymKey:
    """A symbolic value used as a key of a concrete-structure dict (compared by equality at lookups)."""

    def __init__(self, value):
        self.value = value

    def __repr__(self):
        return f"SymKey<{self.value!r}>"


class GenExp:
    """Unevaluated generator expression (consumed by sum/all/any/... models)."""

    def __init__(self, node, fr):
        self.node = node
        self.fr = fr
