"""Mutable lists / deques of symbolic length (HSymList)."""
from __future__ import annotations

import z3

from . import keysets
from .interp import PyRaise, mk, zof
from .values import SymSeq, HSymList, Unsupported, fresh_name


def with_len(seq, n, arrays=None, offset=None):
    out = SymSeq(n, seq.shape, seq.arrays if arrays is None else arrays, seq.offset if offset is None else offset)
    out.pyshape = seq.pyshape
    return out


def sub(it, seq, start, stop):
    """seq[start:stop] for 0 <= start <= stop <= len (a view, no copy)."""
    a, b = zof(start, "int"), zof(stop, "int")
    return with_len(seq, z3.simplify(b - a), offset=z3.simplify(seq.offset + a) if not isinstance(seq.offset, int) or seq.offset
                    else z3.simplify(a))


def append(it, h, v):
    it.ctx.mutate()
    seq = h.seq
    flat = keysets.flatten(it.engine, it, seq.pyshape.elem, v)
    arrays = keysets.store_struct(seq.arrays, flat, [z3.simplify(seq.length + seq.offset)])
    if h.maxlen is None:
        h.seq = with_len(seq, z3.simplify(seq.length + 1), arrays)
        return
    # deque(maxlen): appending to a full deque drops the leftmost element
    ml = zof(h.maxlen, "int")
    if it.ctx.branch(seq.length >= ml, "deque is full"):
        if it.ctx.branch(ml == 0, "maxlen == 0"):
            return
        h.seq = shift_left(it, with_len(seq, z3.simplify(seq.length + 1), arrays), 1)
    else:
        h.seq = with_len(seq, z3.simplify(seq.length + 1), arrays)


def shift_left(it, seq, k):
    """seq[k:] as a view."""
    kz = zof(k, "int")
    return with_len(seq, z3.simplify(seq.length - kz), offset=z3.simplify(seq.offset + kz))


def pop(it, h, idx=None):
    it.ctx.mutate()
    seq = h.seq
    if it.ctx.branch(seq.length <= 0, "pop from empty list"):
        raise PyRaise("IndexError", "pop from empty list")
    if idx is None or idx == -1:
        n1 = z3.simplify(seq.length - 1)
        v = seq.get(n1)
        h.seq = with_len(seq, n1)
        return v
    if idx == 0:
        v = seq.get(z3.IntVal(0))
        h.seq = shift_left(it, seq, 1)
        return v
    raise Unsupported("list.pop(i) on a symbolic list")


def method(it, ref, h, name, args, kwargs):
    if name == "append":
        append(it, h, args[0])
        return None
    if name == "pop":
        return pop(it, h, args[0] if args else None)
    if name == "popleft":
        return pop(it, h, 0)
    if name == "clear":
        it.ctx.mutate()
        h.seq = with_len(h.seq, z3.IntVal(0))
        return None
    if name == "copy":
        return it.ctx.alloc(HSymList(h.seq, h.maxlen))
    raise Unsupported(f"list.{name} on a symbolic list")
