"""Loading repository (and sidecar) modules as ASTs; static name resolution."""
from __future__ import annotations

import ast
import hashlib
import os


class ModuleInfo:
    def __init__(self, name, path, source):
        self.name = name
        self.path = path
        self.source = source
        self.tree = ast.parse(source, filename=path)
        self.functions = {}
        self.classes = {}
        self.assigns = {}     # name -> ast expr (module level constants)
        self.imports = {}     # local name -> ("module", dotted) | ("from", dotted_module, attr)
        self.is_package = os.path.basename(path) == "__init__.py"
        self._scan(self.tree.body)

    def _scan(self, body):
        for node in body:
            if isinstance(node, (ast.FunctionDef, ast.AsyncFunctionDef)):
                self.functions[node.name] = node
            elif isinstance(node, ast.ClassDef):
                self.classes[node.name] = node
            elif isinstance(node, ast.Assign):
                for t in node.targets:
                    if isinstance(t, ast.Name):
                        self.assigns[t.id] = node.value
            elif isinstance(node, ast.AnnAssign):
                if isinstance(node.target, ast.Name) and node.value is not None:
                    self.assigns[node.target.id] = node.value
            elif isinstance(node, ast.Import):
                for a in node.names:
                    local = a.asname or a.name.split(".")[0]
                    target = a.name if a.asname else a.name.split(".")[0]
                    self.imports[local] = ("module", target)
            elif isinstance(node, ast.ImportFrom):
                base = self._resolve_relative(node.module, node.level)
                for a in node.names:
                    self.imports[a.asname or a.name] = ("from", base, a.name)
            elif isinstance(node, ast.If):
                self._scan(node.body)
                self._scan(node.orelse)
            elif isinstance(node, ast.Try):
                self._scan(node.body)
                for h in node.handlers:
                    # names bound in an ImportError fallback must not override the import
                    saved_imports = dict(self.imports)
                    self._scan(h.body)
                    self.imports.update(saved_imports)
                    for k in list(self.assigns):
                        if k in saved_imports:
                            del self.assigns[k]

    def _resolve_relative(self, module, level):
        if level == 0:
            return module or ""
        parts = self.name.split(".")
        if not self.is_package:
            parts = parts[:-1]
        if level > 1:
            parts = parts[: len(parts) - (level - 1)]
        if module:
            parts = parts + module.split(".")
        return ".".join(parts)

    def source_of(self, node):
        return ast.get_source_segment(self.source, node) or ""


class Repo:
    """Finds modules by dotted name under the repository's src/ and under /verif."""

    def __init__(self, repo_root, verif_root):
        self.repo_root = repo_root
        self.verif_root = verif_root
        self.cache = {}

    def find(self, dotted):
        if dotted in self.cache:
            return self.cache[dotted]
        rel = dotted.replace(".", "/")
        cands = []
        if dotted.startswith("frequenz.sdk"):
            cands = [os.path.join(self.repo_root, "src", rel + ".py"),
                     os.path.join(self.repo_root, "src", rel, "__init__.py")]
        elif dotted.split(".")[0] in ("contracts",):
            cands = [os.path.join(self.verif_root, rel + ".py"),
                     os.path.join(self.verif_root, rel, "__init__.py")]
        for p in cands:
            if os.path.isfile(p):
                with open(p, encoding="utf-8") as fh:
                    src = fh.read()
                mi = ModuleInfo(dotted, p, src)
                self.cache[dotted] = mi
                return mi
        self.cache[dotted] = None
        return None

    def function_node(self, target):
        """target 'module:Qual.name' -> (ModuleInfo, class node or None, function node)."""
        modname, qual = target.split(":")
        mi = self.find(modname)
        if mi is None:
            raise KeyError(f"module not found: {modname}")
        parts = qual.split(".")
        if len(parts) == 1:
            fn = mi.functions.get(parts[0])
            if fn is None:
                raise KeyError(f"function not found: {target}")
            return mi, None, fn
        cls = mi.classes.get(parts[0])
        if cls is None:
            raise KeyError(f"class not found: {target}")
        for n in cls.body:
            if isinstance(n, (ast.FunctionDef, ast.AsyncFunctionDef)) and n.name == parts[1]:
                return mi, cls, n
        raise KeyError(f"method not found: {target}")


def node_hash(mi, node):
    seg = mi.source_of(node)
    return hashlib.sha256(seg.encode()).hexdigest()[:16]
