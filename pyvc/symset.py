"""Sets of scalar keys (ints / ids) of symbolic extent: member arrays."""
from __future__ import annotations

import z3

from .interp import mk, zof, PyRaise
from .values import SymSet, HSymSet, VRef, Unsupported, fresh_name

_b1, _b2 = z3.Bools("pyvc_b1 pyvc_b2")
AND = z3.And(_b1, _b2).decl()
OR = z3.Or(_b1, _b2).decl()
NOT = z3.Not(_b1).decl()


def val_of(it, v):
    if isinstance(v, SymSet):
        return v
    if isinstance(v, VRef):
        h = it.ctx.deref(v)
        if isinstance(h, HSymSet):
            return h.val
        from .values import HSet
        if isinstance(h, HSet):
            return from_items(it, list(h.items))
    if isinstance(v, frozenset):
        return from_items(it, sorted(v))
    raise Unsupported(f"not a set of scalars: {v!r}")


def from_items(it, items, keyshape=None):
    arr = z3.K(z3.IntSort(), z3.BoolVal(False))
    for x in items:
        arr = z3.Store(arr, it.key_z(x), z3.BoolVal(True))
    return SymSet(arr, keyshape)


def mkset(it, s, member, mutable):
    out = SymSet(member, s.keyshape)
    out.pyshape = getattr(s, "pyshape", None)
    return it.ctx.alloc(HSymSet(out)) if mutable else out


def binary(it, a, b, op, mutable=True):
    sa, sb = val_of(it, a), val_of(it, b)
    if op == "and":
        m = z3.Map(AND, sa.member, sb.member)
    elif op == "or":
        m = z3.Map(OR, sa.member, sb.member)
    else:
        m = z3.Map(AND, sa.member, z3.Map(NOT, sb.member))
    return mkset(it, sa, m, mutable)


def length(it, s):
    """len(s): an integer n >= 0 with n == 0 iff the set is empty (all that the code relies on)."""
    it.ctx.trusted.add("model:len(set) of a symbolic set: only n >= 0 and (n == 0 iff empty) are known")
    n = z3.Int(fresh_name("card"))
    w = z3.Int(fresh_name("wit"))
    k = z3.Int(fresh_name("ck"))
    it.ctx.assume(n >= 0)
    it.ctx.assume(z3.Implies(n > 0, z3.Select(s.member, w)))
    fact = z3.ForAll([k], z3.Implies(z3.Select(s.member, k), n > 0))
    it.ctx.assume(fact)
    # decidable as it stands (array property fragment): kept quantified in bounded-instance queries
    it.ctx.closures = getattr(it.ctx, "closures", {})
    it.ctx.closures[fact.get_id()] = lambda bound, _f=fact: [_f]
    return mk(n, "int")


def method(it, ref, h, name, args, kwargs):
    s = h.val
    if name in ("intersection",):
        out = ref
        for a in args:
            out = binary(it, out, a, "and")
        return out
    if name == "union":
        out = ref
        for a in args:
            out = binary(it, out, a, "or")
        return out
    if name == "difference":
        out = ref
        for a in args:
            out = binary(it, out, a, "diff")
        return out
    if name == "add":
        it.ctx.mutate()
        h.val = SymSet(z3.Store(s.member, it.key_z(it.unwrap(args[0])), z3.BoolVal(True)), s.keyshape)
        return None
    if name in ("discard", "remove"):
        k = it.key_z(it.unwrap(args[0]))
        if name == "remove" and it.ctx.branch(z3.Not(z3.Select(s.member, k)), "element not in set"):
            raise PyRaise("KeyError")
        it.ctx.mutate()
        h.val = SymSet(z3.Store(s.member, k, z3.BoolVal(False)), s.keyshape)
        return None
    if name == "copy":
        return it.ctx.alloc(HSymSet(s))
    if name == "issubset":
        o = val_of(it, args[0])
        k = z3.Int(fresh_name("sk"))
        return mk(z3.ForAll([k], z3.Implies(z3.Select(s.member, k), z3.Select(o.member, k))), "bool")
    raise Unsupported(f"set.{name} on a symbolic set")


def enumeration(it, s):
    """An arbitrary duplicate-free enumeration of the set (python's iteration order is arbitrary)."""
    if getattr(s, "enum", None) is not None:
        return s.enum
    from .values import SymSeq
    from .verify import ArrShape
    from . import spec as specmod
    ctx = it.ctx
    nm = fresh_name("setenum")
    n = z3.Int(nm + ".len")
    ctx.assume(n >= 0)
    ctx.seq_lens.append(n)
    arr = z3.Array(nm, z3.IntSort(), z3.IntSort())
    sq = SymSeq(n, ArrShape(it.engine, specmod.Int, ctx), arr)
    sq.pyshape = specmod.Seq(specmod.Int, container="tuple")
    idx = z3.Function(fresh_name("sidx"), z3.IntSort(), z3.IntSort())
    i = z3.Int(fresh_name("sei"))
    k = z3.Int(fresh_name("sek"))
    ctx.assume(z3.ForAll([i], z3.Implies(z3.And(0 <= i, i < n),
                                        z3.And(z3.Select(s.member, z3.Select(arr, i)), idx(z3.Select(arr, i)) == i))))
    fact = z3.ForAll([k], z3.Implies(z3.Select(s.member, k),
                                     z3.And(0 <= idx(k), idx(k) < n, z3.Select(arr, idx(k)) == k)), patterns=[idx(k)])
    ctx.assume(fact)

    def closure(bound, _n=n, _arr=arr, _member=s.member, _k=k):
        """For n <= bound: a member is one of arr[0..n-1] (with the first axiom's instances this implies the fact)."""
        alts = [z3.And(i0 < _n, _k == z3.Select(_arr, i0)) for i0 in range(bound)]
        return [z3.ForAll([_k], z3.Implies(z3.Select(_member, _k), z3.Or(*alts) if alts else z3.BoolVal(False)))]
    ctx.closures = getattr(ctx, "closures", {})
    ctx.closures[fact.get_id()] = closure
    s.enum = sq
    return sq
