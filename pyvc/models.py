"""Assumed contracts (the trusted base) for builtins and libraries.

Every model used on a path adds a line to `ctx.trusted`, so that the evidence lists
exactly which assumed library contracts a proof rested on.
"""
from __future__ import annotations

from fractions import Fraction

import z3

from .interp import (PyRaise, NeedFork, Infeasible, is_pynum, kind_of, zof, join_kind, mk, zbool, FP, RNE)
from .values import (S, VOpt, VQty, VTime, VDelta, VEnum, SEnum, VRec, VRef, HObj, HList, HDict,
                     HSet, SymSeq, SymSet, SymMap, FuncRef, ClassRef, ModRef, ExtRef,
                     BoundBuiltin, Opaque, Unsupported, fresh_name, zreal, KeySetVal, HKeySet, HOptDict, HSymList, HSymSet)

BUILTINS = {
    "max", "min", "abs", "len", "sum", "all", "any", "isinstance", "float", "int", "bool", "set",
    "frozenset", "list", "dict", "tuple", "range", "enumerate", "zip", "round", "sorted",
    "reversed", "next", "iter", "hash", "id", "print", "str", "repr", "getattr", "hasattr", "type",
    "NotImplemented", "pow", "divmod", "super", "object", "issubclass", "callable", "map", "filter",
    "BaseException", "Exception", "ValueError", "TypeError", "KeyError", "IndexError",
    "RuntimeError", "NotImplementedError", "AssertionError", "ZeroDivisionError", "AttributeError",
    "StopIteration", "StopAsyncIteration", "ArithmeticError", "LookupError", "OSError",
    "TimeoutError", "BaseExceptionGroup", "ExceptionGroup", "KeyboardInterrupt", "slice",
}

QTY_UNITS = {"Power", "Current", "Voltage", "Energy", "Frequency", "Percentage", "Temperature",
             "Quantity", "ReactivePower", "ApparentPower"}
QTY_CTORS = {
    "from_watts": 1, "from_milliwatts": Fraction(1, 1000), "from_kilowatts": 1000,
    "from_megawatts": 1000000, "from_amperes": 1, "from_volts": 1, "from_hertz": 1,
    "from_percent": 1, "from_fraction": 100, "from_celsius": 1, "from_watt_hours": 1,
    "from_kilowatt_hours": 1000, "from_volt_amperes_reactive": 1, "from_volt_amperes": 1,
}
QTY_GETTERS = {
    "as_watts": 1, "as_kilowatts": 1000, "as_megawatts": 1000000, "as_amperes": 1, "as_volts": 1,
    "as_hertz": 1, "as_percent": 1, "as_fraction": 100, "as_celsius": 1, "as_watt_hours": 1,
    "as_kilowatt_hours": 1000, "as_milliwatts": Fraction(1, 1000),
}


class ExcValue:
    """An exception instance of a library class."""

    def __init__(self, cls, args=()):
        self.cls = cls
        self.args = args

    def __repr__(self):
        return f"Exc<{self.cls}>"


class ExcGroup(ExcValue):
    """BaseExceptionGroup / ExceptionGroup with a concrete list of member exceptions."""

    def __init__(self, cls, members):
        super().__init__(cls, ())
        self.members = list(members)


class ModelCallable:
    def __init__(self, fn, name="model"):
        self.fn = fn
        self.name = name

    def call(self, it, args, kwargs):
        return self.fn(it, args, kwargs)


def has_builtin(name):
    return name in BUILTINS


def truth_of(it, v):
    if isinstance(v, ExcValue):
        return True
    if isinstance(v, frozenset):
        return len(v) > 0
    if isinstance(v, SymSet):
        raise Unsupported("truthiness of symbolic set")
    if isinstance(v, ModelCallable) or isinstance(v, BoundBuiltin):
        return True
    return NotImplemented


def _use(it, what):
    it.ctx.trusted.add(what)


# ======================================================================== arithmetic on library types

def binop(it, op, a, b):
    if isinstance(a, VQty) or isinstance(b, VQty):
        _use(it, "model:frequenz.quantities arithmetic = arithmetic on base_value")
        if isinstance(a, VQty) and isinstance(b, VQty):
            if op == "Add":
                return VQty(a.unit, it.num_binop("Add", a.val, b.val))
            if op == "Sub":
                return VQty(a.unit, it.num_binop("Sub", a.val, b.val))
            if op == "Div":
                return it.num_binop("Div", a.val, b.val)
            raise Unsupported(f"quantity op {op}")
        if isinstance(a, VQty) and kind_of(b) is not None:
            if op == "Mult":
                return VQty(a.unit, it.num_binop("Mult", a.val, b))
            if op == "Div":
                return VQty(a.unit, it.num_binop("Div", a.val, b))
        if isinstance(b, VQty) and kind_of(a) is not None and op == "Mult":
            raise PyRaise("TypeError", "float * Quantity")
        raise PyRaise("TypeError", f"quantity {op}")
    if isinstance(a, (VTime, VDelta)) or isinstance(b, (VTime, VDelta)):
        return time_binop(it, op, a, b)
    return NotImplemented


def time_binop(it, op, a, b):
    _use(it, "model:datetime/timedelta = integer microseconds")
    if isinstance(a, VTime) and isinstance(b, VTime) and op == "Sub":
        return VDelta(it.num_binop("Sub", a.us, b.us))
    if isinstance(a, VTime) and isinstance(b, VDelta) and op in ("Add", "Sub"):
        return VTime(it.num_binop(op, a.us, b.us))
    if isinstance(a, VDelta) and isinstance(b, VTime) and op == "Add":
        return VTime(it.num_binop("Add", a.us, b.us))
    if isinstance(a, VDelta) and isinstance(b, VDelta):
        if op in ("Add", "Sub"):
            return VDelta(it.num_binop(op, a.us, b.us))
        if op == "Mod":
            return VDelta(it.num_binop("Mod", a.us, b.us))
        if op == "FloorDiv":
            return it.num_binop("FloorDiv", a.us, b.us)
        if op == "Div":
            return it.num_binop("Div", a.us, b.us)
    if isinstance(a, VDelta) and kind_of(b) is not None:
        kb = kind_of(b)
        if op == "Mult":
            if kb == "int" or (isinstance(b, Fraction) and b.denominator == 1):
                return VDelta(it.num_binop("Mult", a.us, int(b) if isinstance(b, Fraction) else b))
            return VDelta(round_half_even(it, it.num_binop("Mult", a.us, b)))
        if op == "Div":
            return VDelta(round_half_even(it, it.num_binop("Div", a.us, b)))
        if op == "FloorDiv" and kb == "int":
            return VDelta(it.num_binop("FloorDiv", a.us, b))
    if isinstance(b, VDelta) and kind_of(a) is not None and op == "Mult":
        return time_binop(it, op, b, a)
    raise PyRaise("TypeError", f"time op {op}")


def round_half_even(it, x):
    """round(x) for a real x -> int, python's round-half-to-even."""
    if isinstance(x, Fraction) or isinstance(x, int):
        return round(x)
    _use(it, "model:timedelta*float / round() rounds the exact real product half-to-even")
    zx = zof(x, "real")
    fl = z3.ToInt(zx)
    frac = zx - z3.ToReal(fl)
    half = z3.RealVal("1/2")
    r = z3.If(frac < half, fl, z3.If(frac > half, fl + 1, z3.If(fl % 2 == 0, fl, fl + 1)))
    return mk(r, "int")


def order(it, op, a, b):
    if isinstance(a, VQty) and isinstance(b, VQty):
        return it.compare(op, a.val, b.val)
    if isinstance(a, VTime) and isinstance(b, VTime):
        return it.compare(op, a.us, b.us)
    if isinstance(a, VDelta) and isinstance(b, VDelta):
        return it.compare(op, a.us, b.us)
    if isinstance(a, (VQty, VTime, VDelta)) or isinstance(b, (VQty, VTime, VDelta)):
        raise PyRaise("TypeError", "ordering of incompatible types")
    if isinstance(a, tuple) and isinstance(b, tuple):
        # lexicographic
        return lex_order(it, op, list(a), list(b))
    if isinstance(a, str) and isinstance(b, str):
        return {"Lt": a < b, "LtE": a <= b, "Gt": a > b, "GtE": a >= b}[op]
    if isinstance(a, (VEnum, SEnum)) or isinstance(b, (VEnum, SEnum)):
        raise PyRaise("TypeError", "ordering of enums")
    return NotImplemented


def lex_order(it, op, a, b):
    strict = {"Lt": "Lt", "LtE": "Lt", "Gt": "Gt", "GtE": "Gt"}[op]
    if not a or not b:
        la, lb = len(a), len(b)
        return {"Lt": la < lb, "LtE": la <= lb, "Gt": la > lb, "GtE": la >= lb}[op]
    first = it.truth(it.compare(strict, a[0], b[0]))
    eq = it.truth(it.equal(a[0], b[0]))
    rest = it.truth(lex_order(it, op, a[1:], b[1:]))
    return it.wrap_bool(it.or_(first, it.and_(eq, rest)))


def equal(it, a, b):
    if isinstance(a, VQty) or isinstance(b, VQty):
        if isinstance(a, VQty) and isinstance(b, VQty):
            if a.unit != b.unit:
                return False
            return it.equal(a.val, b.val)
        return False
    if isinstance(a, VTime) or isinstance(b, VTime):
        if isinstance(a, VTime) and isinstance(b, VTime):
            return it.equal(a.us, b.us)
        return False
    if isinstance(a, VDelta) or isinstance(b, VDelta):
        if isinstance(a, VDelta) and isinstance(b, VDelta):
            return it.equal(a.us, b.us)
        return False
    if isinstance(a, ExtRef) and isinstance(b, ExtRef):
        return a.name == b.name
    if isinstance(a, Opaque) or isinstance(b, Opaque):
        if a is b:
            return True
        raise Unsupported("equality of opaque values")
    return NotImplemented


def contains(it, container, item):
    if isinstance(container, Range):
        raise Unsupported("in range")
    return NotImplemented


def pow_model(it, a, b):
    """pow on reals as an uninterpreted function with the facts the code relies on."""
    _use(it, "model:pow(x,e) on reals: pow(x,e)>=0 for x>=0; pow(0,e)=0 for e>0; pow(x,0)=1; pow(x,1)=x")
    f = it.engine.uf("pow", z3.RealSort(), z3.RealSort(), z3.RealSort())
    za, zb = zof(a, "real"), zof(b, "real")
    r = f(za, zb)
    it.ctx.assume(z3.Implies(za >= 0, r >= 0))
    it.ctx.assume(z3.Implies(z3.And(za == 0, zb > 0), r == 0))
    it.ctx.assume(z3.Implies(zb == 0, r == 1))
    it.ctx.assume(z3.Implies(zb == 1, r == za))
    it.ctx.assume(z3.Implies(z3.And(za > 0), r > 0))
    return mk(r, "real")


# ======================================================================== attributes

def getattr_model(it, base, attr):
    if isinstance(base, VRef):
        h = it.ctx.deref(base)
        if isinstance(h, HSymList) and attr == "maxlen":
            return h.maxlen
        if isinstance(h, HList) and attr == "maxlen":
            return h.maxlen
        if isinstance(h, HObj) and h.cls.startswith("ext:") and attr not in h.fields:
            return BoundBuiltin(attr, base)
    if isinstance(base, VQty):
        if attr == "base_value":
            return base.val
        return BoundBuiltin(attr, base)
    if isinstance(base, (VTime, VDelta)):
        return BoundBuiltin(attr, base)
    if isinstance(base, ExcGroup):
        if attr == "exceptions":
            return tuple(base.members)
        if attr == "split":
            return BoundBuiltin("split", base)
    if isinstance(base, ExcValue):
        if attr == "args":
            return tuple(base.args)
        return Opaque(f"exc.{attr}")
    if isinstance(base, Opaque):
        return Opaque(base.tag + "." + attr)
    if isinstance(base, VEnum):
        if attr == "name":
            return base.name
        if attr == "value":
            return it.engine.enum_value(it, base)
    return NotImplemented


def setattr_model(it, obj, attr, v):
    return NotImplemented


def getitem_model(it, base, idx):
    if isinstance(base, Range):
        raise Unsupported("range index")
    if isinstance(base, Opaque):
        return Opaque(base.tag + "[]")
    return NotImplemented


def getslice_model(it, base, lo, hi):
    return NotImplemented


def setitem_model(it, obj, idx, v):
    return NotImplemented


def delitem_model(it, obj, idx):
    return NotImplemented


def instantiate_model(it, c, ci, args, kwargs):
    return NotImplemented


def is_symbolic_iterable(it, v):
    return isinstance(v, Range) and not (isinstance(v.lo, int) and isinstance(v.hi, int))


class Range:
    def __init__(self, lo, hi, step=1):
        self.lo = lo
        self.hi = hi
        self.step = step


def iterate_model(it, v):
    if isinstance(v, Range):
        if isinstance(v.lo, int) and isinstance(v.hi, int) and isinstance(v.step, int):
            return list(range(v.lo, v.hi, v.step))
        raise Unsupported("symbolic range")
    if isinstance(v, Zipped):
        return v.items
    return NotImplemented


class Zipped:
    def __init__(self, items):
        self.items = items


def isinstance_model(it, v, cls):
    """isinstance(v, cls) -> python bool or z3 Bool."""
    if isinstance(cls, tuple):
        acc = False
        for c in cls:
            acc = it.or_(acc, isinstance_model(it, v, c))
        return acc
    if isinstance(v, VOpt):
        inner = isinstance_model(it, v.val, cls)
        return it.and_(z3.Not(v.isnone), inner)
    if v is None:
        return isinstance(cls, ExtRef) and cls.name in ("builtins.object",)
    if isinstance(cls, ExtRef):
        n = cls.name
        last = n.split(".")[-1]
        if last in QTY_UNITS:
            return isinstance(v, VQty) and (last == "Quantity" or v.unit == last)
        if n == "builtins.float":
            return kind_of(v) in ("real", "fp") or isinstance(v, Fraction)
        if n == "builtins.int":
            return kind_of(v) in ("int", "bool")
        if n == "builtins.bool":
            return kind_of(v) == "bool"
        if n == "builtins.str":
            return isinstance(v, str)
        if n == "builtins.tuple":
            return isinstance(v, tuple)
        if last == "datetime":
            return isinstance(v, VTime)
        if last == "timedelta":
            return isinstance(v, VDelta)
        if n in ("builtins.list", "builtins.dict", "builtins.set"):
            if isinstance(v, VRef):
                h = it.ctx.deref(v)
                return isinstance(h, {"builtins.list": HList, "builtins.dict": HDict, "builtins.set": HSet}[n])
            return False
        if isinstance(v, ExcValue):
            from .interp import exc_is_subclass
            return exc_is_subclass(v.cls, last, it.ctx.extra_exc)
        if isinstance(v, VRec) or isinstance(v, VRef):
            vcls = v.cls if isinstance(v, VRec) else getattr(it.ctx.deref(v), "cls", None)
            if vcls is None:
                return False
            return it.engine.is_subclass(vcls, n)
        return False
    if isinstance(cls, ClassRef):
        if isinstance(v, VRec):
            return it.engine.is_subclass(v.cls, cls.qual)
        if isinstance(v, VRef):
            h = it.ctx.deref(v)
            if isinstance(h, HObj):
                return it.engine.is_subclass(h.cls, cls.qual)
            return False
        if isinstance(v, (VEnum, SEnum)):
            return v.cls == cls.qual
        if isinstance(v, ExcValue):
            from .interp import exc_is_subclass
            return exc_is_subclass(v.cls, cls.name, it.ctx.extra_exc)
        return False
    raise Unsupported(f"isinstance against {cls!r}")


# ======================================================================== bound methods of model values

def call_bound(it, f: BoundBuiltin, args, kwargs):
    t, name = f.target, f.name
    if isinstance(t, ExcGroup) and name == "split":
        from .interp import exc_is_subclass
        cname = it.exc_class_name_of(args[0])
        match = [m for m in t.members if exc_is_subclass(m.cls, cname, it.ctx.extra_exc)]
        rest = [m for m in t.members if not exc_is_subclass(m.cls, cname, it.ctx.extra_exc)]
        return (ExcGroup(t.cls, match) if match else None, ExcGroup(t.cls, rest) if rest else None)
    if isinstance(t, VQty):
        return qty_method(it, t, name, args, kwargs)
    if isinstance(t, VDelta):
        if name == "total_seconds":
            return it.num_binop("Div", t.us, 1000000)
        raise Unsupported(f"timedelta.{name}")
    if isinstance(t, VTime):
        if name == "timestamp":
            return it.num_binop("Div", t.us, 1000000)
        if name in ("astimezone", "replace"):
            return t
        raise Unsupported(f"datetime.{name}")
    if isinstance(t, VRef):
        h = it.ctx.deref(t)
        if isinstance(h, HObj) and h.cls == "ext:asyncio.Task":
            return task_method(it, t, h, name, args, kwargs)
        if isinstance(h, HObj) and h.cls.startswith("ext:"):
            return ext_method(it, t, h, name, args, kwargs)
        if isinstance(h, HList):
            return list_method(it, t, h, name, args, kwargs)
        if isinstance(h, HDict):
            return dict_method(it, t, h, name, args, kwargs)
        if isinstance(h, HSet):
            return set_method(it, t, h, name, args, kwargs)
        if isinstance(h, HKeySet):
            return keyset_method(it, t, h, name, args, kwargs)
        if isinstance(h, HOptDict):
            from . import optdict
            return optdict.method(it, t, h, name, args, kwargs)
        if isinstance(h, HSymList):
            from . import symlist
            return symlist.method(it, t, h, name, args, kwargs)
        if isinstance(h, HSymSet):
            from . import symset
            return symset.method(it, t, h, name, args, kwargs)
    if isinstance(t, frozenset):
        if name == "union":
            out = set(t)
            for a in args:
                out |= set(it.iterate_concrete(a))
            return frozenset(out)
        if name == "issubset":
            return all(x in set(it.iterate_concrete(args[0])) for x in t)
        if name == "isdisjoint":
            return not (set(t) & set(it.iterate_concrete(args[0])))
    if isinstance(t, tuple):
        if name == "index":
            for i, x in enumerate(t):
                if it.decide(it.equal(x, args[0]), "tuple.index"):
                    return i
            raise PyRaise("ValueError")
        if name == "count":
            return sum(1 for x in t if it.decide(it.equal(x, args[0]), "tuple.count"))
    if isinstance(t, str):
        if name in ("format", "join", "strip", "lower", "upper"):
            return Opaque("str")
        if name == "startswith" and isinstance(args[0], str):
            return t.startswith(args[0])
        if name == "isdigit":
            return t.isdigit()
        if name == "isspace":
            return t.isspace()
        if name == "isalnum":
            return t.isalnum()
        if name == "isalpha":
            return t.isalpha()
    if isinstance(t, SymSeq):
        return it.engine.symseq_method(it, t, name, args, kwargs)
    if isinstance(t, SymMap) and name == "get" and len(args) == 1 and not kwargs:
        # dict.get(key): the value when the key is present, else None
        k = it.key_z(args[0])
        from .values import VOpt
        return VOpt(z3.Not(z3.Select(t.dom, k)), t.get(k))
    raise Unsupported(f"method {name} of {t!r}")


def qty_method(it, q, name, args, kwargs):
    if name in QTY_GETTERS:
        return it.num_binop("Div", q.val, QTY_GETTERS[name]) if QTY_GETTERS[name] != 1 else q.val
    if name == "isclose":
        other = it.unwrap(args[0])
        rel = kwargs.get("rel_tol", args[1] if len(args) > 1 else Fraction(1, 10**9))
        ab = kwargs.get("abs_tol", args[2] if len(args) > 2 else 0)
        return isclose(it, q.val, other.val, rel, ab)
    if name == "isnan":
        if kind_of(q.val) == "fp":
            return mk(z3.fpIsNaN(zof(q.val)), "bool")
        _use(it, "assume:reals-for-floats (Quantity.isnan() is False)")
        return False
    if name == "isinf":
        if kind_of(q.val) == "fp":
            return mk(z3.fpIsInf(zof(q.val)), "bool")
        return False
    raise Unsupported(f"Quantity.{name}")


def isclose(it, a, b, rel, ab):
    """math.isclose on reals: abs(a-b) <= max(rel*max(|a|,|b|), abs_tol)."""
    _use(it, "model:math.isclose(a,b,rel,abs) = |a-b| <= max(rel*max(|a|,|b|), abs)")
    if is_pynum(a) and is_pynum(b) and is_pynum(rel) and is_pynum(ab):
        return abs(a - b) <= max(rel * max(abs(a), abs(b)), ab)
    za, zb = zof(a, "real"), zof(b, "real")
    zr, zt = zof(rel, "real"), zof(ab, "real")
    absf = lambda x: z3.If(x >= 0, x, -x)
    d = absf(za - zb)
    m = z3.If(absf(za) >= absf(zb), absf(za), absf(zb))
    bound = z3.If(zr * m >= zt, zr * m, zt)
    return mk(d <= bound, "bool")


def list_method(it, ref, h, name, args, kwargs):
    if name == "append":
        it.ctx.mutate()
        h.items.append(args[0])
        if h.maxlen is not None and len(h.items) > h.maxlen:
            h.items.pop(0)
        return None
    if name == "extend":
        it.ctx.mutate()
        h.items.extend(it.iterate_concrete(args[0]))
        return None
    if name == "pop":
        it.ctx.mutate()
        if not h.items:
            raise PyRaise("IndexError")
        idx = args[0] if args else -1
        if not isinstance(idx, int):
            raise Unsupported("list.pop symbolic index")
        try:
            return h.items.pop(idx)
        except IndexError:
            raise PyRaise("IndexError") from None
    if name == "popleft":
        it.ctx.mutate()
        if not h.items:
            raise PyRaise("IndexError")
        return h.items.pop(0)
    if name == "insert":
        it.ctx.mutate()
        h.items.insert(args[0], args[1])
        return None
    if name == "clear":
        it.ctx.mutate()
        h.items.clear()
        return None
    if name == "copy":
        return it.ctx.alloc(HList(h.items))
    if name == "sort":
        it.ctx.mutate()
        h.items[:] = sort_concrete(it, h.items, kwargs.get("key"), kwargs.get("reverse", False))
        return None
    if name == "reverse":
        it.ctx.mutate()
        h.items.reverse()
        return None
    if name == "index":
        for i, x in enumerate(h.items):
            if it.decide(it.equal(x, args[0]), "list.index"):
                return i
        raise PyRaise("ValueError")
    if name == "remove":
        it.ctx.mutate()
        for i, x in enumerate(h.items):
            if it.decide(it.equal(x, args[0]), "list.remove"):
                del h.items[i]
                return None
        raise PyRaise("ValueError")
    raise Unsupported(f"list.{name}")


def dict_method(it, ref, h, name, args, kwargs):
    if name == "get":
        return it.dict_get(h, args[0], default=args[1] if len(args) > 1 else None)
    if name == "items":
        return tuple((getattr(k, "value", k) if type(k).__name__ == "SymKey" else k, v) for k, v in h.items.items())
    if name == "keys":
        return tuple(getattr(k, "value", k) if type(k).__name__ == "SymKey" else k for k in h.items.keys())
    if name == "values":
        return tuple(h.items.values())
    if name == "setdefault":
        cur = it.dict_get(h, args[0], default=_MISSING)
        if cur is _MISSING:
            it.ctx.mutate()
            d = args[1] if len(args) > 1 else None
            h.items[it.dict_key(args[0])] = d
            return d
        return cur
    if name == "pop":
        cur = it.dict_get(h, args[0], default=_MISSING)
        if cur is _MISSING:
            if len(args) > 1:
                return args[1]
            raise PyRaise("KeyError")
        it.ctx.mutate()
        k = it.hashable(args[0])
        if k in h.items:
            del h.items[k]
        else:
            for k2 in list(h.items):
                if it.decide(it.equal(k, k2), "dict.pop"):
                    del h.items[k2]
                    break
        return cur
    if name == "update":
        it.ctx.mutate()
        for a in args:
            src = it.ctx.deref(a)
            h.items.update(src.items)
        for k, v in kwargs.items():
            h.items[k] = v
        return None
    if name == "clear":
        it.ctx.mutate()
        h.items.clear()
        return None
    if name == "copy":
        return it.ctx.alloc(HDict(h.items))
    raise Unsupported(f"dict.{name}")


_MISSING = Opaque("missing")


def set_method(it, ref, h, name, args, kwargs):
    if name == "add":
        it.ctx.mutate()
        k = args[0]
        if isinstance(k, VOpt):
            k = it.unwrap(k, "set element") if isinstance(k.val, VRec) else k
        if isinstance(k, VRec):
            for k2 in list(h.items):
                if it.decide(it.equal(k, k2), "set.add existing"):
                    return None
            h.items[k] = None
            return None
        h.items[it.hashable(k)] = None
        return None
    if name in ("remove", "discard"):
        it.ctx.mutate()
        k = args[0]
        if isinstance(k, VOpt) and isinstance(k.val, VRec):
            k = it.unwrap(k, "set element")
        if isinstance(k, VRec):
            for k2 in list(h.items):
                if it.decide(it.equal(k, k2), "set.remove match"):
                    del h.items[k2]
                    return None
        else:
            k = it.hashable(k)
            if k in h.items:
                del h.items[k]
                return None
        if name == "remove":
            raise PyRaise("KeyError")
        return None
    if name == "union":
        out = list(h.items)
        for a in args:
            out.extend(it.iterate_concrete(a))
        return it.ctx.alloc(HSet([it.hashable(x) for x in out]))
    if name == "intersection":
        others = [set(it.hashable(x) for x in it.iterate_concrete(a)) for a in args]
        return it.ctx.alloc(HSet([x for x in h.items if all(x in o for o in others)]))
    if name == "difference":
        others = [set(it.hashable(x) for x in it.iterate_concrete(a)) for a in args]
        return it.ctx.alloc(HSet([x for x in h.items if not any(x in o for o in others)]))
    if name == "issubset":
        o = set(it.hashable(x) for x in it.iterate_concrete(args[0]))
        return all(x in o for x in h.items)
    if name == "isdisjoint":
        o = set(it.hashable(x) for x in it.iterate_concrete(args[0]))
        return not any(x in o for x in h.items)
    if name == "copy":
        return it.ctx.alloc(HSet(list(h.items)))
    if name == "clear":
        it.ctx.mutate()
        h.items.clear()
        return None
    if name == "update":
        it.ctx.mutate()
        for a in args:
            for x in it.iterate_concrete(a):
                h.items[it.hashable(x)] = None
        return None
    if name == "pop":
        it.ctx.mutate()
        if not h.items:
            raise PyRaise("KeyError")
        k = next(iter(h.items))
        del h.items[k]
        return k
    raise Unsupported(f"set.{name}")


def ext_method(it, ref, h, name, args, kwargs):
    """Method of an external / scripted object: recorded; effects, result and exceptions per its model."""
    from .interp import Frame
    from .values import Coro
    spec = (h.fields.get("__methods__") or {}).get(name, {})
    _use(it, f"model:{h.cls[4:]}.{name}(): " + (f"scripted model {sorted(spec)}" if spec else
                                               "only the fact of the call matters (recorded), returns None"))

    def run():
        it.ctx.mutate()
        if isinstance(h.fields.get("calls"), VRef):
            calls = it.ctx.deref(h.fields["calls"])
            calls.items.append((name, tuple(args)))
        if spec.get("raise_before_effects"):
            for exc in spec.get("raises", []):
                if it.ctx.choose(f"{h.cls[4:]}.{name} raises {exc}"):
                    raise PyRaise(exc)
        cm = it.engine.contract_module(it.engine.current)
        efr = Frame(cm, dict(it.ctx.ghost))
        efr.locals.update({"self": ref, "args": tuple(args), "kwargs": kwargs})
        pre_fields_frame = {"pre": VRec("pre", dict(h.fields))}
        new_vals = {f: it.eval(it.engine.parse_clause(e), efr) for f, e in spec.get("effects", {}).items()}
        for f, v in new_vals.items():
            h.fields[f] = v
        # the call was made (effects recorded) whether or not it then fails
        for exc in ([] if spec.get("raise_before_effects") else spec.get("raises", [])):
            if it.ctx.choose(f"{h.cls[4:]}.{name} raises {exc}"):
                raise PyRaise(exc)
        rs = spec.get("returns")
        if rs is None:
            res = None
        elif isinstance(rs, str):
            # expression over `self` (after the effects), `pre` (fields before), `args`, and `fresh`
            rfr = Frame(cm, dict(efr.locals))
            rfr.locals.update(pre_fields_frame)
            if spec.get("fresh") is not None:
                rfr.locals["fresh"] = it.engine.make_sym(it.ctx, spec["fresh"], fresh_name(name + "_fresh"))
            res = it.eval(it.engine.parse_clause(rs), rfr)
        else:
            res = it.engine.make_sym(it.ctx, rs, fresh_name(name))
            if spec.get("where"):
                # the fresh result is constrained relative to the object's state BEFORE the effects
                wfr = Frame(cm, dict(efr.locals))
                wfr.locals.update(pre_fields_frame)
                wfr.locals["result"] = res
                g = it.truth(it.eval(it.engine.parse_clause(spec["where"]), wfr))
                it.ctx.assume(zbool(g) if not isinstance(g, bool) else g)
        if isinstance(h.fields.get("results"), VRef):
            it.ctx.deref(h.fields["results"]).items.append(res)
        if "last_result" in h.fields:
            h.fields["last_result"] = res
        return res
    if spec.get("is_async"):
        return Coro(run, label=f"{h.cls[4:]}.{name}", scripted=True)
    return run()


def keyset_method(it, ref, h, name, args, kwargs):
    from . import keysets
    eng = it.engine
    if name == "add":
        it.ctx.mutate()
        h.val = keysets.add(eng, it, h.val, args[0])
        return None
    if name == "remove":
        it.ctx.mutate()
        h.val = keysets.remove(eng, it, h.val, args[0], must_exist=True)
        return None
    if name in ("difference_update", "difference") and len(args) == 1 and isinstance(args[0], VRef) and \
            isinstance(it.ctx.deref(args[0]), HKeySet):
        new = keysets.difference(eng, it, h.val, it.ctx.deref(args[0]).val)
        if name == "difference":
            return it.ctx.alloc(HKeySet(new))
        it.ctx.mutate()
        h.val = new
        return None
    if name == "discard":
        it.ctx.mutate()
        h.val = keysets.remove(eng, it, h.val, args[0], must_exist=False)
        return None
    if name == "copy":
        return it.ctx.alloc(HKeySet(h.val))
    raise Unsupported(f"set-of-records.{name}")


def sort_concrete(it, items, key=None, reverse=False):
    """sorted() on a list of concrete length: insertion sort with symbolic comparisons (stable)."""
    _use(it, "model:sorted/list.sort is a stable sort by __lt__ (on keys)")
    keyed = [(it.call(key, [x], {}) if key is not None else x, x) for x in items]
    if reverse:
        keyed.reverse()
    out = []
    for k, x in keyed:
        pos = len(out)
        # stable: insert after all elements not greater than k
        while pos > 0 and it.decide(it.compare("Lt", k, out[pos - 1][0]), "sort: a < b"):
            pos -= 1
        out.insert(pos, (k, x))
    res = [x for _, x in out]
    if reverse:
        res.reverse()
    return res


# ======================================================================== external callables

def call_ext(it, f: ExtRef, args, kwargs):
    n = f.name
    last = n.split(".")[-1]
    if n.startswith("builtins."):
        return call_builtin(it, last, args, kwargs)
    if n in ("typing.cast", "typing_extensions.cast"):
        return args[1]
    if n in ("typing.TypeVar", "typing.NewType"):
        return Opaque("typing")
    if n == "functools.partial":
        fn0, pre, prekw = args[0], list(args[1:]), dict(kwargs)
        return ModelCallable(lambda it2, a, k: it2.call(fn0, pre + list(a), dict(prekw, **k)), name="partial")
    # quantities
    parts = n.split(".")
    if len(parts) >= 2 and parts[-2] in QTY_UNITS:
        unit = parts[-2]
        if last == "zero":
            return VQty(unit, 0 if it.ctx.mode != "ieee" else S(z3.FPVal(0.0, FP), "fp"))
        if last in QTY_CTORS:
            x = it.unwrap(args[0] if args else next(iter(kwargs.values())))
            if kind_of(x) is None:
                raise PyRaise("TypeError", "quantity from non-number")
            sc = QTY_CTORS[last]
            return VQty(unit, x if sc == 1 else it.num_binop("Mult", x, sc))
        if last == "_new":
            return VQty(unit, args[0])
    if last in QTY_UNITS and len(args) <= 2:
        # Quantity(value, exponent=0) - only base class is constructible
        return VQty(last, args[0])
    if n.startswith("math."):
        return call_math(it, last, args, kwargs)
    if n.startswith("logging."):
        return Opaque("logger")
    if n in ("datetime.timedelta",):
        return make_timedelta(it, args, kwargs)
    if n in ("datetime.datetime.now", "datetime.now"):
        return it.engine.now(it)
    if n in ("datetime.datetime.fromtimestamp",):
        x = args[0]
        return VTime(round_half_even(it, it.num_binop("Mult", x, 1000000)))
    if n in ("copy.deepcopy", "copy.copy"):
        return deepcopy_value(it, args[0])
    if n == "dataclasses.replace":
        base = args[0]
        if isinstance(base, VRec):
            fl = dict(base.fields)
            fl.update(kwargs)
            return VRec(base.cls, fl)
        h = it.ctx.deref(base)
        fl = dict(h.fields)
        fl.update(kwargs)
        return it.ctx.alloc(HObj(h.cls, fl))
    if last in ("ValueError", "TypeError", "KeyError", "RuntimeError", "NotImplementedError",
                "AssertionError", "IndexError", "Exception", "BaseException", "CancelledError",
                "TimeoutError", "StopIteration", "AttributeError", "ZeroDivisionError"):
        return ExcValue(last, tuple(args))
    if n in ("bisect.bisect", "bisect.bisect_right", "bisect.bisect_left"):
        return bisect_model(it, last, args, kwargs)
    if n == "itertools.islice":
        from . import symlist
        seq = it.as_symbolic_iterable(args[0])
        if isinstance(seq, SymSeq):
            _use(it, "model:itertools.islice(seq, a, b) yields seq[a:b] (a, b >= 0)")
            a = zof(it.unwrap(args[1]), "int")
            b = zof(it.unwrap(args[2]), "int") if len(args) > 2 and args[2] is not None else seq.length
            if it.ctx.branch(z3.Or(a < 0, b < 0), "islice with negative index"):
                raise PyRaise("ValueError")
            start = z3.If(a < seq.length, a, seq.length)
            stop0 = z3.If(b < seq.length, b, seq.length)
            stop = z3.If(stop0 < start, start, stop0)
            return symlist.sub(it, seq, mk(start, "int"), mk(stop, "int"))
        items = it.iterate_concrete(args[0])
        return tuple(items[args[1]:args[2] if len(args) > 2 else None])
    if n == "collections.deque":
        return deque_model(it, args, kwargs)
    if n.startswith("asyncio."):
        r = call_asyncio(it, n[8:], args, kwargs)
        if r is not NotImplemented:
            return r
    r = it.engine.call_external(it, n, args, kwargs)
    if r is not NotImplemented:
        return r
    raise Unsupported(f"call to external {n}")


def bisect_model(it, which, args, kwargs):
    """bisect on a sequence sorted by key: the insertion point (right of equal keys, or left for bisect_left).
    Sortedness of the sequence is the function's precondition and is checked at the call site."""
    seq = it.as_symbolic_iterable(args[0])
    x = args[1]
    key = kwargs.get("key")
    left = which == "bisect_left"
    if not isinstance(seq, SymSeq):
        raise Unsupported("bisect on a concrete sequence")
    _use(it, "model:bisect.bisect(a, x, key) on a key-sorted sequence returns k with key(a[i]) <= x for i < k and "
             "x < key(a[i]) for i >= k (bisect_left: < and >=)")
    ctx = it.ctx
    kf = (lambda e: it.call(key, [e], {})) if key is not None else (lambda e: e)
    i = z3.Int(fresh_name("bi"))
    j = z3.Int(fresh_name("bj"))
    n = seq.length
    # precondition: sorted by key
    try:
        srt = it.try_nofork(z3.And(0 <= i, i < j, j < n),
                            lambda: it.truth(it.compare("LtE", kf(seq.get(i)), kf(seq.get(j)))))
        srt = zbool(srt) if not isinstance(srt, bool) else z3.BoolVal(srt)
        ctx.check(f"{ctx.function}::call[bisect].requires.sorted_by_key",
                  z3.ForAll([i, j], z3.Implies(z3.And(0 <= i, i < j, j < n), srt)), kind="precondition")
    except Infeasible:
        pass
    k = z3.Int(fresh_name("bisect"))
    ctx.assume(z3.And(0 <= k, k <= n))
    try:
        lo = it.try_nofork(z3.And(0 <= i, i < k, i < n),
                           lambda: it.truth(it.compare("Lt" if left else "LtE", kf(seq.get(i)), x)))
        lo = zbool(lo) if not isinstance(lo, bool) else z3.BoolVal(lo)
        ctx.assume(z3.ForAll([i], z3.Implies(z3.And(0 <= i, i < k), lo)))
    except Infeasible:
        pass
    try:
        hi = it.try_nofork(z3.And(k <= i, i < n, 0 <= i),
                           lambda: it.truth(it.compare("GtE" if left else "Gt", kf(seq.get(i)), x)))
        hi = zbool(hi) if not isinstance(hi, bool) else z3.BoolVal(hi)
        ctx.assume(z3.ForAll([i], z3.Implies(z3.And(k <= i, i < n), hi)))
    except Infeasible:
        pass
    return mk(k, "int")


def deque_model(it, args, kwargs):
    from . import symlist
    maxlen = kwargs.get("maxlen", args[1] if len(args) > 1 else None)
    _use(it, "model:collections.deque(iterable, maxlen=n) keeps the last min(len, n) items; append on a full deque drops the leftmost")
    if not args or args[0] is None:
        raise Unsupported("empty deque() construction (element shape unknown)")
    seq = it.as_symbolic_iterable(args[0])
    if not isinstance(seq, SymSeq):
        raise Unsupported("deque() of a concrete sequence")
    if maxlen is None:
        return it.ctx.alloc(HSymList(seq, None))
    ml = zof(it.unwrap(maxlen), "int")
    if it.ctx.branch(ml < 0, "deque maxlen < 0"):
        raise PyRaise("ValueError")
    start = z3.If(seq.length > ml, seq.length - ml, 0)
    kept = symlist.sub(it, seq, mk(start, "int"), mk(seq.length, "int"))
    return it.ctx.alloc(HSymList(kept, maxlen))


def fresh_outcome(it):
    from .verify import TASK_OUTCOMES
    z = z3.Int(fresh_name("task_outcome"))
    it.ctx.assume(z3.And(z >= 0, z < 3))
    return SEnum("task_outcome", list(TASK_OUTCOMES), z)


def finish_task(it, tref, by_await=True):
    """The task ends now: cancelled if cancellation was requested while it was pending."""
    h = it.ctx.deref(tref)
    f = h.fields
    d = it.truth(f["_done"])
    if d is True:
        return
    if d is not False and it.ctx.branch(d, "task already done"):
        f["_done"] = True
        return
    it.ctx.mutate()
    if f.get("cancel_requested"):
        f["_outcome"] = VEnum("task_outcome", "CancelledError")
    f["_done"] = True


def await_task(it, tref):
    finish_task(it, tref)
    return task_method(it, tref, it.ctx.deref(tref), "result", [], {})


def task_method(it, ref, h, name, args, kwargs):
    """asyncio.Task: done / result / exception / cancel / add_done_callback / get_name."""
    _use(it, "model:asyncio.Task (done(), result() re-raises the task's exception, add_done_callback records the callback, "
             "cancel() requests cancellation)")
    f = h.fields
    if name == "done":
        return f["_done"]
    if name == "cancelled":
        d = it.truth(f["_done"])
        return it.wrap_bool(it.and_(d, it.truth(it.equal(f["_outcome"], VEnum("task_outcome", "CancelledError")))))
    if name in ("result", "exception"):
        if not it.decide(f["_done"], "task is done"):
            raise PyRaise("InvalidStateError")
        oc = f["_outcome"]
        members = oc.members if isinstance(oc, SEnum) else [oc.name]
        for i, m in enumerate(members):
            if len(members) == 1 or it.decide(it.equal(oc, VEnum("task_outcome", m)), f"task outcome is {m}"):
                if m == "returned":
                    return f.get("_result") if name == "result" else None
                if name == "exception" and m != "CancelledError":
                    return ExcValue(m)
                raise PyRaise(m)
        raise PyRaise("InvalidStateError")
    if name == "add_done_callback":
        it.ctx.mutate()
        it.ctx.deref(f["callbacks"]).items.append(args[0])
        return None
    if name == "cancel":
        it.ctx.mutate()
        f["cancel_requested"] = True
        return it.wrap_bool(it.not_(it.truth(f["_done"])))
    if name == "get_name":
        return f.get("name", Opaque("task-name"))
    raise Unsupported(f"Task.{name}")


def call_asyncio(it, name, args, kwargs):
    from .values import Coro
    if name == "create_task":
        _use(it, "model:asyncio.create_task returns a fresh task that is not done; the coroutine is started "
                 "(calls it makes to scripted collaborators are recorded at creation)")
        co = args[0]
        outcome = None
        task_result = None
        if isinstance(co, Coro) and co.scripted:
            # the task is in flight from now on: what it calls on scripted collaborators is recorded here,
            # and how the coroutine ends is how the task will end.  (Coroutines of repository functions
            # are not run: such a task ends in an arbitrary way at an arbitrary later time.)
            try:
                task_result = it.engine.run_coro(it, co)
                outcome = VEnum("task_outcome", "returned")
            except PyRaise as e:
                if isinstance(e.cls, str):
                    outcome = VEnum("task_outcome", e.cls)
        t = it.ctx.alloc(HObj("ext:asyncio.Task", {
            "_done": False, "_outcome": outcome if outcome is not None else fresh_outcome(it),
            "callbacks": it.ctx.alloc(HList([])), "cancel_requested": False, "name": kwargs.get("name", Opaque("task-name")),
            "_result": task_result,
            "__methods__": {}, "__stream__": None, "calls": it.ctx.alloc(HList([])), "results": it.ctx.alloc(HList([]))}))
        created = it.ctx.ghost.setdefault("created_tasks", it.ctx.alloc(HList([])))
        it.ctx.deref(created).items.append(t)
        return t
    if name == "gather":
        _use(it, "model:asyncio.gather runs every awaitable once, results positionally (exceptions as values with return_exceptions)")
        ret_exc = it.decide(kwargs.get("return_exceptions", False))
        coros = list(args)

        def run():
            results = []
            for co in coros:
                try:
                    if isinstance(co, VRef) and isinstance(it.ctx.deref(co), HObj) and it.ctx.deref(co).cls == "ext:asyncio.Task":
                        results.append(await_task(it, co))
                        continue
                    results.append(it.engine.await_value(it, co, None))
                except PyRaise as e:
                    if not ret_exc or not isinstance(e.cls, str):
                        raise
                    if e.cls in ("KeyboardInterrupt", "SystemExit"):
                        raise
                    results.append(e.value if isinstance(e.value, ExcValue) else ExcValue(e.cls))
            return it.ctx.alloc(HList(results))
        return Coro(run, label="gather")
    if name == "wait":
        _use(it, "model:asyncio.wait(ALL_COMPLETED, timeout): every task either finishes before the timeout (done) or is "
                 "still pending; without timeout all are done")
        tasks = it.iterate_concrete(args[0])
        timeout = kwargs.get("timeout")
        rw = kwargs.get("return_when")
        first = rw is not None and "FIRST_COMPLETED" in repr(rw)
        if rw is not None and not first and "ALL_COMPLETED" not in repr(rw):
            raise Unsupported(f"asyncio.wait(return_when={rw!r})")

        def run_wait_first():
            # FIRST_COMPLETED: returns as soon as at least one task is done - any non-empty subset of the unfinished
            # tasks may have finished by then; if none ever finishes the call does not return (path pruned)
            done, pending = [], []
            for t in tasks:
                h = it.ctx.deref(t)
                d = it.truth(h.fields["_done"])
                if d is True or (d is not False and it.ctx.branch(d, "task already done")):
                    done.append(t)
                elif it.ctx.choose("task is among the first to finish"):
                    finish_task(it, t)
                    done.append(t)
                else:
                    pending.append(t)
            if not done:
                from .interp import Infeasible
                raise Infeasible()
            return (it.ctx.alloc(HSet(done)), it.ctx.alloc(HSet(pending)))
        if first:
            _use(it, "model:asyncio.wait(FIRST_COMPLETED): returns with a non-empty set of finished tasks, the rest pending")
            return Coro(run_wait_first, label="wait")

        def run_wait():
            # the timeouts handed to asyncio.wait are recorded when the contract declares the ghost list `wait_timeouts`
            wlog = getattr(it.engine, "spec_locals", {}).get("wait_timeouts")
            if wlog is not None:
                it.ctx.deref(wlog).items.append(timeout)
            done, pending = [], []
            for t in tasks:
                h = it.ctx.deref(t)
                d = it.truth(h.fields["_done"])
                if d is True or (d is not False and it.ctx.branch(d, "task already done")):
                    done.append(t)
                elif timeout is None or it.ctx.choose("task finishes before the timeout"):
                    finish_task(it, t)
                    done.append(t)
                else:
                    pending.append(t)
            return (it.ctx.alloc(HSet(done)), it.ctx.alloc(HSet(pending)))
        return Coro(run_wait, label="wait")
    if name == "sleep":
        _use(it, "model:asyncio.sleep returns None (may be cancelled only where the contract says so)")
        delay = args[0] if args else kwargs.get("delay")

        def do_sleep():
            # the requested delays are recorded (ghost list `sleeps`) so that contracts can speak about them
            log = getattr(it.engine, "spec_locals", {}).get("sleeps")     # declared by the contract (ghost_init)
            if log is None:
                log = it.ctx.ghost.setdefault("sleeps", it.ctx.alloc(HList([])))
            it.ctx.deref(log).items.append(delay)
            return None
        return Coro(do_sleep, label="sleep")
    if name == "CancelledError":
        return ExcValue("CancelledError", tuple(args))
    return NotImplemented


def deepcopy_value(it, v):
    if isinstance(v, VRef):
        h = it.ctx.deref(v)
        if isinstance(h, HList):
            return it.ctx.alloc(HList([deepcopy_value(it, x) for x in h.items], h.maxlen))
        if isinstance(h, HDict):
            return it.ctx.alloc(HDict({k: deepcopy_value(it, x) for k, x in h.items.items()}))
        if isinstance(h, HSet):
            return it.ctx.alloc(HSet(list(h.items)))
        return it.ctx.alloc(HObj(h.cls, {k: deepcopy_value(it, x) for k, x in h.fields.items()}))
    if isinstance(v, tuple):
        return tuple(deepcopy_value(it, x) for x in v)
    return v


def make_timedelta(it, args, kwargs):
    units = {"days": 86400 * 10**6, "seconds": 10**6, "microseconds": 1, "milliseconds": 1000,
             "minutes": 60 * 10**6, "hours": 3600 * 10**6, "weeks": 7 * 86400 * 10**6}
    order_ = ["days", "seconds", "microseconds", "milliseconds", "minutes", "hours", "weeks"]
    vals = dict(zip(order_, args))
    vals.update(kwargs)
    total = 0
    for k, v in vals.items():
        total = it.num_binop("Add", total, it.num_binop("Mult", v, units[k]))
    if kind_of(total) == "int":
        return VDelta(total)
    if isinstance(total, Fraction) and total.denominator == 1:
        return VDelta(int(total))
    return VDelta(round_half_even(it, total))


def call_math(it, name, args, kwargs):
    if name == "isclose":
        rel = kwargs.get("rel_tol", Fraction(1, 10**9))
        ab = kwargs.get("abs_tol", 0)
        a = args[0] if args else kwargs["a"]
        b = args[1] if len(args) > 1 else kwargs["b"]
        return isclose(it, it.unwrap(a), it.unwrap(b), rel, ab)
    if name == "isnan":
        x = it.unwrap(args[0])
        if kind_of(x) == "fp":
            return mk(z3.fpIsNaN(zof(x)), "bool")
        _use(it, "assume:reals-for-floats (math.isnan is False)")
        return False
    if name == "isinf":
        x = it.unwrap(args[0])
        if kind_of(x) == "fp":
            return mk(z3.fpIsInf(zof(x)), "bool")
        _use(it, "assume:reals-for-floats (math.isinf is False)")
        return False
    if name == "isfinite":
        x = it.unwrap(args[0])
        if kind_of(x) == "fp":
            return mk(z3.Not(z3.Or(z3.fpIsInf(zof(x)), z3.fpIsNaN(zof(x)))), "bool")
        return True
    if name in ("ceil", "floor"):
        x = it.unwrap(args[0])
        if is_pynum(x):
            import math
            return math.ceil(x) if name == "ceil" else math.floor(x)
        zx = zof(x, "real")
        fl = z3.ToInt(zx)
        if name == "floor":
            return mk(fl, "int")
        return mk(z3.If(z3.ToReal(fl) == zx, fl, fl + 1), "int")
    if name == "fabs":
        return call_builtin(it, "abs", args, kwargs)
    if name == "pow":
        return it.num_binop("Pow", args[0], args[1])
    if name == "sqrt":
        raise Unsupported("math.sqrt")
    raise Unsupported(f"math.{name}")


def maxmin(it, name, a, b, key=None):
    """Python's 2-argument max/min: `max(a,b) = b if b > a else a`; `min(a,b) = b if b < a else a`."""
    _use(it, "model:max(a,b)= b if b>a else a; min(a,b)= b if b<a else a (first wins ties/incomparables)")
    ka = it.call(key, [a], {}) if key is not None else a
    kb = it.call(key, [b], {}) if key is not None else b
    c = it.truth(it.compare("Gt" if name == "max" else "Lt", kb, ka))
    if isinstance(c, bool):
        return b if c else a
    try:
        return it.ite_value(c, b, a)
    except Exception:  # CannotMerge
        return b if it.ctx.branch(c, f"{name}: second operand wins") else a


def call_builtin(it, name, args, kwargs):
    from .exec import GenExp
    if name in ("max", "min"):
        key = kwargs.get("key")
        if len(args) == 1:
            seq = args[0]
            if isinstance(seq, SymSeq) or (isinstance(seq, GenExp) and it.engine.genexp_is_symbolic(it, seq)):
                return it.engine.fold_symbolic(it, name, seq, kwargs)
            items = it.iterate_concrete(seq)
            if not items:
                if "default" in kwargs:
                    return kwargs["default"]
                raise PyRaise("ValueError", f"{name}() of empty sequence")
        else:
            items = list(args)
        acc = it.unwrap(items[0]) if key is None else items[0]
        for x in items[1:]:
            acc = maxmin(it, name, acc, it.unwrap(x) if key is None else x, key)
        return acc
    if name == "abs":
        x = it.unwrap(args[0])
        if is_pynum(x):
            return abs(x)
        if isinstance(x, VQty):
            return VQty(x.unit, call_builtin(it, "abs", [x.val], {}))
        if isinstance(x, VDelta):
            return VDelta(call_builtin(it, "abs", [x.us], {}))
        if kind_of(x) == "fp":
            return S(z3.fpAbs(zof(x)), "fp")
        z = zof(x)
        return mk(z3.If(z >= 0, z, -z), kind_of(x))
    if name == "len":
        x = it.unwrap(args[0])
        if isinstance(x, (tuple, str, frozenset)):
            return len(x)
        if isinstance(x, VRef):
            h = it.ctx.deref(x)
            if isinstance(h, (HList, HDict, HSet)):
                return len(h.items)
            if isinstance(h, HKeySet):
                from . import keysets
                return mk(keysets.enumeration(it.engine, it, h.val).length, "int")
            if isinstance(h, HOptDict):
                from . import optdict
                return optdict.length(it, h)
            if isinstance(h, HSymList):
                return mk(h.seq.length, "int")
            if isinstance(h, HSymSet):
                from . import symset
                return symset.length(it, h.val)
            return it.call_method(x, "__len__", [], {})
        if isinstance(x, SymSeq):
            return mk(x.length, "int")
        if isinstance(x, VRec):
            return it.call_method(x, "__len__", [], {})
        r = it.engine.len_model(it, x)
        if r is not NotImplemented:
            return r
        raise Unsupported(f"len of {x!r}")
    if name == "sum":
        seq = args[0]
        if isinstance(seq, SymSeq) or (isinstance(seq, GenExp) and it.engine.genexp_is_symbolic(it, seq)):
            return it.engine.fold_symbolic(it, "sum", seq, kwargs, start=args[1] if len(args) > 1 else 0)
        items = it.iterate_concrete(seq)
        acc = args[1] if len(args) > 1 else kwargs.get("start", 0)
        for x in items:
            acc = it.binop("Add", acc, x)
        return acc
    if name in ("all", "any"):
        seq = args[0]
        if isinstance(seq, GenExp) and it.engine.genexp_is_symbolic(it, seq):
            return it.engine.fold_symbolic(it, name, seq, kwargs)
        if isinstance(seq, GenExp):
            # lazily: short-circuit evaluation, merged when possible
            return lazy_allany(it, name, seq)
        items = it.iterate_concrete(seq)
        acc = name == "all"
        for x in items:
            t = it.truth(x)
            acc = it.and_(acc, t) if name == "all" else it.or_(acc, t)
        return it.wrap_bool(acc)
    if name == "isinstance":
        return it.wrap_bool(isinstance_model(it, args[0], args[1]))
    if name == "float":
        x = it.unwrap(args[0])
        if isinstance(x, str):
            if x in ("nan", "inf", "-inf"):
                if it.ctx.mode == "ieee":
                    return S(z3.FPVal(float(x), FP), "fp")
                raise Unsupported("non-finite float in real mode")
            return Fraction(x)
        if isinstance(x, bool):
            return Fraction(int(x))
        if isinstance(x, int):
            return Fraction(x) if it.ctx.mode != "ieee" else S(z3.FPVal(float(x), FP), "fp")
        if isinstance(x, Fraction):
            return x
        if isinstance(x, S):
            if x.kind in ("real", "fp"):
                return x
            if x.kind == "int":
                return mk(z3.ToReal(x.z), "real")
        raise Unsupported(f"float({x!r})")
    if name == "int":
        x = it.unwrap(args[0])
        if isinstance(x, bool):
            return int(x)
        if isinstance(x, int):
            return x
        if isinstance(x, Fraction):
            return int(x)
        if isinstance(x, S):
            if x.kind == "int":
                return x
            if x.kind == "bool":
                return mk(z3.If(x.z, 1, 0), "int")
            if x.kind == "real":
                fl = z3.ToInt(x.z)
                return mk(z3.If(x.z >= 0, fl, z3.If(z3.ToReal(fl) == x.z, fl, fl + 1)), "int")
        raise Unsupported(f"int({x!r})")
    if name == "bool":
        return it.wrap_bool(it.truth(args[0])) if args else False
    if name == "tuple":
        return tuple(it.iterate_concrete(args[0])) if args else ()
    if name == "list":
        if args and isinstance(args[0], SymSeq):
            return args[0]
        return it.ctx.alloc(HList(it.iterate_concrete(args[0]) if args else []))
    if name == "set":
        if args and isinstance(args[0], (SymSet,)):
            return args[0]
        return it.ctx.alloc(HSet([it.hashable(x) for x in it.iterate_concrete(args[0])] if args else []))
    if name == "frozenset":
        if args and isinstance(args[0], (SymSet,)):
            return args[0]
        items = [it.hashable(x) for x in it.iterate_concrete(args[0])] if args else []
        return frozenset(items)
    if name == "dict":
        d = HDict()
        if args:
            src = args[0]
            if isinstance(src, VRef) and isinstance(it.ctx.deref(src), HDict):
                d.items.update(it.ctx.deref(src).items)
            else:
                for kv in it.iterate_concrete(src):
                    k, v = it.iterate_concrete(kv)
                    d.items[it.hashable(k)] = v
        d.items.update(kwargs)
        return it.ctx.alloc(d)
    if name == "range":
        a = [it.unwrap(x) for x in args]
        if len(a) == 1:
            return Range(0, a[0])
        if len(a) == 2:
            return Range(a[0], a[1])
        return Range(a[0], a[1], a[2])
    if name == "map":
        fn = args[0]
        return tuple(it.call(fn, [x], {}) for x in it.iterate_concrete(args[1]))
    if name == "filter":
        fn = args[0]
        return tuple(x for x in it.iterate_concrete(args[1])
                     if it.decide(it.call(fn, [x], {}) if fn is not None else x, "filter()"))
    if name == "enumerate":
        start = args[1] if len(args) > 1 else kwargs.get("start", 0)
        return tuple((i + start, x) for i, x in enumerate(it.iterate_concrete(args[0])))
    if name == "zip":
        lists = [it.iterate_concrete(a) for a in args]
        return tuple(zip(*lists))
    if name == "reversed":
        return tuple(reversed(it.iterate_concrete(args[0])))
    if name == "sorted":
        seq = it.as_symbolic_iterable(args[0])
        if isinstance(seq, (SymSeq, SymSet)):
            return it.engine.sorted_symbolic(it, seq, kwargs)
        return it.ctx.alloc(HList(sort_concrete(it, it.iterate_concrete(seq), kwargs.get("key"),
                                                it.decide(kwargs.get("reverse", False)))))
    if name == "round":
        x = it.unwrap(args[0])
        if len(args) > 1:
            raise Unsupported("round with ndigits")
        return round_half_even(it, x)
    if name == "pow":
        return it.num_binop("Pow", args[0], args[1])
    if name == "divmod":
        return (it.binop("FloorDiv", args[0], args[1]), it.binop("Mod", args[0], args[1]))
    if name == "hash":
        # hash() of integers / identifiers / tuples of them: an uninterpreted function of the components (equal
        # arguments hash equal, nothing else is known); objects with a __hash__ of their own: that method
        v = it.unwrap(args[0])
        if isinstance(v, VRec):
            ci = it.engine.class_info(v.cls)
            if ci and "__hash__" in ci.methods:
                return it.call_method(v, "__hash__", [], {})
        comps = list(v) if isinstance(v, tuple) else [v]
        comps = [it.unwrap(x) for x in comps]
        if comps and all(kind_of(x) in ("int", "bool") for x in comps):
            f = z3.Function(f"pyhash_{len(comps)}", *([z3.IntSort()] * len(comps)), z3.IntSort())
            _use(it, "model:hash() of integers/identifiers/tuples = an uninterpreted function of the components")
            return mk(f(*[zof(x, "int") for x in comps]), "int")
        return Opaque("hash")
    if name in ("str", "repr"):
        return Opaque("str")
    if name == "print":
        return None
    if name == "id":
        return Opaque("id")
    if name == "next":
        if isinstance(args[0], GenExp) and it.engine.genexp_is_symbolic(it, args[0]):
            return it.engine.fold_symbolic(it, "next", args[0], {"default": args[1]} if len(args) > 1 else {})
        items = it.iterate_concrete(args[0])
        if items:
            return items[0]
        if len(args) > 1:
            return args[1]
        raise PyRaise("StopIteration")
    if name == "iter":
        return tuple(it.iterate_concrete(args[0]))
    if name == "callable":
        return isinstance(args[0], (FuncRef, ClassRef, ExtRef, BoundBuiltin, ModelCallable))
    if name == "type":
        v = it.unwrap(args[0])
        qual = v.cls if isinstance(v, VRec) else (it.ctx.deref(v).cls if isinstance(v, VRef) and isinstance(it.ctx.deref(v), HObj) else None)
        if qual is None or ":" not in qual:
            raise Unsupported("type() of a non-repository object")
        modname, cname = qual.split(":")
        mi = it.engine.repo.find(modname)
        return ClassRef(mi, cname, mi.classes[cname])
    if name in ("getattr",):
        if isinstance(args[1], str):
            try:
                return it.getattr(args[0], args[1])
            except PyRaise:
                if len(args) > 2:
                    return args[2]
                raise
    if name == "hasattr":
        if isinstance(args[1], str):
            try:
                it.getattr(args[0], args[1])
                return True
            except PyRaise:
                return False
    if name in ("BaseExceptionGroup", "ExceptionGroup"):
        return ExcGroup(name, it.iterate_concrete(args[1]))
    if name in ("ValueError", "TypeError", "KeyError", "RuntimeError", "NotImplementedError",
                "AssertionError", "IndexError", "Exception", "BaseException", "AttributeError",
                "ZeroDivisionError", "StopIteration", "TimeoutError", "OSError", "LookupError",
                "ArithmeticError", "StopAsyncIteration"):
        return ExcValue(name, tuple(args))
    raise Unsupported(f"builtin {name}")


def lazy_allany(it, name, g):
    """all()/any() over a generator of concrete length, merging the short-circuit."""
    is_all = name == "all"
    node = g.node
    # collect per-element thunks by expanding the comprehension frames eagerly
    frames = []
    it._comp(node.generators, 0, g.fr, frames.append)

    def go(i):
        if i == len(frames):
            return is_all
        v = it.truth(it.eval(node.elt, frames[i]))
        if isinstance(v, bool):
            if v == is_all:
                return go(i + 1)
            return v
        cont = v if is_all else z3.Not(v)
        try:
            rest = it.try_nofork(cont, lambda: go(i + 1))
            rest_z = zbool(rest) if not isinstance(rest, bool) else z3.BoolVal(rest)
            return z3.And(v, rest_z) if is_all else z3.Or(v, rest_z)
        except NeedFork:
            if it.ctx.branch(cont, f"{name}() continues"):
                return go(i + 1)
            return not is_all
        except Infeasible:
            return v
    return it.wrap_bool(go(0))
