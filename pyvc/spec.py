"""Contract vocabulary shared by the verifier (python3-vt) and the native replayer (/venv).

This module must import under both interpreters: no z3, no repository imports.

A *shape* describes the sort of a parameter / field / result: it tells the verifier
how to make a symbolic value and the native side how to build the real object from
the JSON form of a counter-model.
"""
from __future__ import annotations


class Shape:
    kind = "?"

    def __repr__(self):
        return self.kind


class _Scalar(Shape):
    def __init__(self, kind):
        self.kind = kind


Real = _Scalar("real")     # python float treated as a mathematical real
Int = _Scalar("int")       # python int (unbounded)
Bool = _Scalar("bool")
Float = _Scalar("fp")      # IEEE-754 binary64 (z3 Float64), used by C13 only
Time = _Scalar("time")     # aware datetime, integer microseconds
Delta = _Scalar("delta")   # timedelta, integer microseconds
StrId = _Scalar("strid")   # string used as an identifier: equality and a strict total order only
NoneT = _Scalar("none")


class Opt(Shape):
    kind = "opt"

    def __init__(self, inner):
        self.inner = inner

    def __repr__(self):
        return f"Opt({self.inner!r})"


class Qty(Shape):
    kind = "qty"

    def __init__(self, unit="Power"):
        self.unit = unit

    def __repr__(self):
        return f"Qty({self.unit})"


PowerT = Qty("Power")


class Rec(Shape):
    """Frozen record (dataclass) by value."""
    kind = "rec"

    def __init__(self, cls, **fields):
        self.cls = cls
        self.fields = fields

    def __repr__(self):
        return f"Rec({self.cls})"


class Obj(Shape):
    """Mutable heap object of a repository class with the listed fields."""
    kind = "obj"

    def __init__(self, cls, **fields):
        self.cls = cls
        self.fields = fields

    def __repr__(self):
        return f"Obj({self.cls})"


class Tup(Shape):
    kind = "tup"

    def __init__(self, *items):
        self.items = items


class Seq(Shape):
    """list / tuple / deque of symbolic length."""
    kind = "seq"

    def __init__(self, elem, container="list", maxlen=None, sorted_by=None):
        self.elem = elem
        self.container = container
        self.maxlen = maxlen
        self.sorted_by = sorted_by   # hint for the native generator only (field to sort generated items by)


class FixedList(Shape):
    """list of a fixed number of symbolic elements (used for bounded-size configurations)."""
    kind = "fixedlist"

    def __init__(self, *items, container="list", optional=False):
        self.items = items
        self.container = container
        self.optional = optional      # each item present or not (symbolically): any sub-collection


class SetOf(Shape):
    kind = "set"

    def __init__(self, elem, frozen=False):
        self.elem = elem
        self.frozen = frozen


class MapOf(Shape):
    kind = "map"

    def __init__(self, key, val):
        self.key = key
        self.val = val


EXT_ENUMS: dict[str, list] = {}
EXT_ENUM_KEYS: dict[str, list] = {}   # library enum members only used as (concrete) dict keys


class Enum(Shape):
    """Enum member. `cls` is 'module:Class' of a repository enum, or 'ext:dotted.Class' of a library
    enum with its `members` listed (the list is checked against the installed library by a probe)."""
    kind = "enum"

    def __init__(self, cls, members=None):
        self.cls = cls
        self.members = members  # None => read from the class body
        if cls.startswith("ext:") and members:
            EXT_ENUMS[cls] = list(members)


class ExtObj(Shape):
    """An external (library) object, or a scripted collaborator, that the code under contract only
    talks to.  Every method call is recorded in `.calls` ((name, args) tuples).  `methods` may give a
    method a model:  dict(effects={field: "expr over self/args"}, returns=<shape>, raises=[exception
    class names it may raise], is_async=bool).  `stream` = shape of the items an `async for` / `for`
    over the object yields (an unbounded stream that may also end)."""
    kind = "extobj"

    def __init__(self, cls, methods=None, stream=None, returns=None, **fields):
        self.cls = cls
        self.methods = methods or {}
        for k, v in (returns or {}).items():
            self.methods.setdefault(k, {})["returns"] = v
        self.stream = stream
        self.fields = fields


class EnumKey:
    """A library/repository enum member used as a dict key in a DictOpt shape."""

    def __init__(self, cls, member):
        self.cls = cls
        self.member = member
        if cls.startswith("ext:") and member not in EXT_ENUM_KEYS.setdefault(cls, []):
            EXT_ENUM_KEYS[cls].append(member)

    def __hash__(self):
        return hash((self.cls, self.member))

    def __eq__(self, o):
        return isinstance(o, EnumKey) and (o.cls, o.member) == (self.cls, self.member)

    def __repr__(self):
        return f"{self.cls.split('.')[-1]}.{self.member}"


class Const(Shape):
    kind = "const"

    def __init__(self, value):
        self.value = value


class AliasOf(Shape):
    """The parameter is the very object another expression (over earlier parameters) evaluates to."""
    kind = "alias"

    def __init__(self, expr):
        self.expr = expr


class OneOf(Shape):
    """One of the given constant values (symbolic choice)."""
    kind = "oneof"

    def __init__(self, *values):
        self.values = list(values)


class Variant(Shape):
    """One of several shapes (every alternative is explored on its own path)."""
    kind = "variant"

    def __init__(self, *shapes):
        self.shapes = list(shapes)


class TaskT(Shape):
    """An asyncio.Task created earlier: done or not; if done, how it ended."""
    kind = "task"

    def __init__(self, outcomes=("returned", "Exception", "CancelledError")):
        self.outcomes = list(outcomes)


class Subset(Shape):
    """A python set that is an arbitrary subset of the given constant elements."""
    kind = "subset"

    def __init__(self, elems, frozen=False):
        self.elems = list(elems)
        self.frozen = frozen


class OpaqueT(Shape):
    """A value the code under contract never inspects (passed through)."""
    kind = "opaque"

    def __init__(self, tag="opaque"):
        self.tag = tag


class KeySet(Shape):
    """A python set of records whose __eq__/__hash__ identify them by `key` fields: modelled as a
    finite map key -> record (the representation invariant of such a set).  The declared key must
    be justified by a proved lemma about the class's real __eq__."""
    kind = "keyset"

    def __init__(self, elem, key):
        self.elem = elem
        self.key = tuple(key)


class DictOpt(Shape):
    """dict with the given constant keys, each present or absent (symbolically)."""
    kind = "dictopt"

    def __init__(self, entries, always=()):
        self.entries = entries
        self.always = set(always)


CONTRACTS: dict[str, type] = {}
LEMMAS: dict[str, type] = {}


def contract(target: str, case: str | None = None):
    """Bind a contract class to `module:qualname` of a repository function.

    `case` names an additional specification case of the same function (its own
    requires/ensures/invariants); the un-named contract is the one callers use by default.
    """

    def deco(cls):
        cls.target = target
        cls.key = target if case is None else f"{target}#{case}"
        for attr, default in (("shapes", {}), ("requires", {}), ("ensures", {}),
                              ("raises", {}), ("loops", {}), ("result", None),
                              ("modifies", []), ("inline", []), ("ghost", {}),
                              ("self_shape", None), ("pure", False), ("regimes", {}),
                              ("mode", "real"), ("by_contract", None), ("opaque_calls", {}),
                              ("max_paths", 4000), ("ghost_seqs", {}), ("use", {}),
                              ("instantiate", {}), ("native_opaque", {})):
            if not hasattr(cls, attr):
                setattr(cls, attr, default)
        CONTRACTS[cls.key] = cls
        return cls

    return deco


def lemma(name: str):
    """A lemma: `forall vars. requires => ensures`, optionally by induction on `induct`."""

    def deco(cls):
        cls.name = name
        for attr, default in (("shapes", {}), ("requires", {}), ("ensures", {}), ("induct", None),
                              ("uses", []), ("mode", "real")):
            if not hasattr(cls, attr):
                setattr(cls, attr, default)
        LEMMAS[name] = cls
        return cls

    return deco


# ---------------------------------------------------------------------------------
# Native meaning of the spec vocabulary (the verifier gives these a symbolic meaning)
# ---------------------------------------------------------------------------------

def implies(a, b):
    return (not a) or bool(b)


def forall(lo, hi, pred):
    return all(pred(i) for i in range(lo, hi))


def exists(lo, hi, pred):
    return any(pred(i) for i in range(lo, hi))


def ite(c, a, b):
    return a if c else b


class SetSeq(Shape):
    """A python set of records of symbolic size: an arbitrary enumeration without duplicates
    (w.r.t. the records' __eq__).  Iteration order is therefore arbitrary, as in python."""
    kind = "setseq"

    def __init__(self, elem):
        self.elem = elem


def keyset_has(bucket, keyfields, keys):
    """Does the set of records contain an element whose key fields equal `keys`?"""
    return any(tuple(getattr(e, f) for f in keyfields) == tuple(keys) for e in bucket)


def keyset_get(bucket, keyfields, keys):
    """The element with the given key (must exist)."""
    for e in bucket:
        if tuple(getattr(e, f) for f in keyfields) == tuple(keys):
            return e
    raise KeyError(keys)


def same_record(a, b):
    """Field-by-field equality of two dataclass records (ignores a custom __eq__)."""
    import dataclasses
    return all(getattr(a, f.name) == getattr(b, f.name) for f in dataclasses.fields(a))


def close(a, b):
    """Equal up to floating-point rounding (the verifier, which computes with reals, reads it as ==)."""
    import math
    if a is None or b is None:
        return a is b
    return math.isclose(a, b, rel_tol=1e-9, abs_tol=1e-9)


def elements(s):
    """The elements of a set in (some) iteration order."""
    return list(s)


def new_pending_task():
    """A task that is not done yet (spec vocabulary for interference: tasks added by someone else)."""
    from native.bindings import FakeTask
    return FakeTask(False, "returned")
