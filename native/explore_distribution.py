"""Bounded stand-in for C01 / C02: the real BatteryDistributionAlgorithm.distribute_power on generated
consistent battery/inverter data; the property clauses are evaluated on every result.

Deviations that match a finding listed in known_findings.json are reported under `known` (with the predicate
that identifies the failing path / input class); any other deviation is a failure.

BOUNDED (never counted as proved).  Runs under /venv/bin/python via native.runner (mode script).
"""
from __future__ import annotations

import math
import random
import sys
import time

TOL = 1e-6


def make_pair(bat_id, inv_ids, d):
    """Real InvBatPair with exactly the fields the algorithm reads."""
    from frequenz.client.microgrid import InverterData
    from frequenz.sdk.microgrid._power_distributing._distribution_algorithm._battery_distribution_algorithm import (
        AggregatedBatteryData, InvBatPair)
    from frequenz.sdk.microgrid._power_distributing.result import PowerBounds
    b = object.__new__(AggregatedBatteryData)
    b.component_id = bat_id
    b.soc, b.capacity = d["soc"], d["capacity"]
    b.soc_upper_bound, b.soc_lower_bound = d["soc_hi"], d["soc_lo"]
    b.power_bounds = PowerBounds(inclusion_lower=d["bat"][0], exclusion_lower=d["bat"][1],
                                 exclusion_upper=d["bat"][2], inclusion_upper=d["bat"][3])
    invs = []
    for iid, ib in zip(inv_ids, d["invs"]):
        inv = object.__new__(InverterData)
        object.__setattr__(inv, "component_id", iid)
        object.__setattr__(inv, "active_power_inclusion_lower_bound", ib[0])
        object.__setattr__(inv, "active_power_exclusion_lower_bound", ib[1])
        object.__setattr__(inv, "active_power_exclusion_upper_bound", ib[2])
        object.__setattr__(inv, "active_power_inclusion_upper_bound", ib[3])
        invs.append(inv)
    return InvBatPair(b, invs)


def gen_bounds(rng, scale):
    eu = rng.choice([0.0, 0.0, 50.0, 100.0, 250.0]) * scale
    el = -rng.choice([0.0, 0.0, 50.0, 100.0, 250.0]) * scale
    iu = eu + rng.choice([0.0, 100.0, 500.0, 1000.0, 2000.0]) * scale
    il = el - rng.choice([0.0, 100.0, 500.0, 1000.0, 2000.0]) * scale
    return (il, el, eu, iu)


def gen_config(rng):
    n_groups = rng.choice([1, 2, 2, 3])
    groups = []
    next_inv = 10
    for g in range(n_groups):
        n_inv = rng.choice([1, 1, 2, 3])
        lo, hi = rng.choice([(10.0, 90.0), (20.0, 80.0), (0.0, 100.0)])
        soc = rng.choice([lo - 5, lo, lo + 1, (lo + hi) / 2, hi - 1, hi, hi + 5, rng.uniform(lo, hi)])
        d = {"soc": soc, "soc_lo": lo, "soc_hi": hi, "capacity": rng.choice([1000.0, 5000.0, 9000.0, rng.uniform(100, 20000)]),
             "bat": gen_bounds(rng, rng.choice([1.0, 1.0, 3.0])),
             "invs": [gen_bounds(rng, rng.choice([0.5, 1.0, 1.0, 2.0])) for _ in range(n_inv)]}
        inv_ids = list(range(next_inv, next_inv + n_inv))
        next_inv += n_inv
        groups.append((g + 1, inv_ids, d))
    exponent = rng.choice([0.0, 0.5, 1.0, 1.0, 2.0, 3.0])
    for _, _, d in groups:
        # the property's domain: group minimum power <= group inclusion bound, in both directions
        up_min = max(d["bat"][2], min(i[2] for i in d["invs"]))
        up_incl = min(d["bat"][3], sum(min(i[3], d["bat"][3]) for i in d["invs"]))
        dn_min = max(-d["bat"][1], min(-i[1] for i in d["invs"]))
        dn_incl = min(-d["bat"][0], sum(-max(i[0], d["bat"][0]) for i in d["invs"]))
        if up_min > up_incl or dn_min > dn_incl:
            return gen_config(rng)
    return groups, exponent


def reference_split(power, ids, excl, incl):
    """The split of one set's share over its inverters as the pinned code does it (greedy in the set's iteration
    order; an inverter whose exclusion bound exceeds what is left gets 0 and what is left is dropped): this is the
    behaviour recorded as known finding C01-B."""
    if len(ids) == 1:
        return {ids[0]: power}
    out, rem = {}, power
    for i in ids:
        if abs(rem) > 1e-9 and excl[i] <= rem:
            out[i] = min(incl[i], rem)
            rem -= out[i]
        else:
            out[i] = 0.0
    return out


def advertised(groups):
    """Pool bounds as advertised (per group max/min of aggregated battery vs summed inverter bounds)."""
    il = sum(max(d["bat"][0], sum(i[0] for i in d["invs"])) for _, _, d in groups)
    el = sum(min(d["bat"][1], sum(i[1] for i in d["invs"])) for _, _, d in groups)
    eu = sum(max(d["bat"][2], sum(i[2] for i in d["invs"])) for _, _, d in groups)
    iu = sum(min(d["bat"][3], sum(i[3] for i in d["invs"])) for _, _, d in groups)
    return il, el, eu, iu


def pinned_algorithm():
    """The distribution algorithm exactly as in the pinned tree (a verbatim copy of the file, kept under
    /verif/known/): it defines WHAT the recorded known findings are - a deviation of the real code counts as one of
    them only if the real code still computes what the pinned algorithm computes on that input."""
    import importlib.util
    import os
    pkg = "frequenz.sdk.microgrid._power_distributing._distribution_algorithm"
    name = pkg + "._pinned_for_known_findings"
    if name in sys.modules:
        return sys.modules[name].BatteryDistributionAlgorithm
    path = os.path.join(os.path.dirname(os.path.dirname(os.path.abspath(__file__))), "known",
                        "pinned_battery_distribution_algorithm.py.txt")
    import importlib.machinery
    loader = importlib.machinery.SourceFileLoader(name, path)
    spec = importlib.util.spec_from_loader(name, loader)
    mod = importlib.util.module_from_spec(spec)
    mod.__package__ = pkg
    sys.modules[name] = mod
    loader.exec_module(mod)
    return mod.BatteryDistributionAlgorithm


def same_result(a, b, scale):
    if a is None or b is None:
        return False
    keys = set(a.distribution) | set(b.distribution)
    return (all(abs(a.distribution.get(k, 0.0) - b.distribution.get(k, 0.0)) <= TOL * scale for k in keys)
            and abs(a.remaining_power - b.remaining_power) <= TOL * scale)


class Trace:
    """Which of the known-finding code paths did this call take? (anchored on source text, not line numbers)"""

    def __init__(self, module=None):
        import inspect
        if module is None:
            from frequenz.sdk.microgrid._power_distributing._distribution_algorithm import _battery_distribution_algorithm as module
        m = module
        src, first = inspect.getsourcelines(m.BatteryDistributionAlgorithm._distribute_power)  # pylint: disable=protected-access
        self.file = m.__file__
        self.deficit_lines = {first + i for i, l in enumerate(src)
                              if l.strip() in ("distributed_power += deficit", "distributed_power += left_over")}
        self.hit_deficit = False

    def __call__(self, frame, event, arg):
        if frame.f_code.co_filename != self.file or frame.f_code.co_name != "_distribute_power":
            return None
        return self.local

    def local(self, frame, event, arg):
        if event == "line" and frame.f_lineno in self.deficit_lines:
            self.hit_deficit = True
        return self.local


def check(groups, exponent, power, res, tr, split_log, prop=None):
    """-> (failure text or None, known-finding id or None)."""
    dist = res.distribution
    rem = res.remaining_power
    sgn = 1.0 if power > 0 else -1.0
    mag = abs(power)
    scale = max(1.0, mag)
    total = sum(dist.values())
    # ---- C01
    # known finding C01-B is the loss the documented greedy split produces (same iteration order): a split that loses
    # power in any other way is a new violation, not the known one
    lost_in_split = any(abs(sum(out.values()) - p) > TOL * scale for p, out, _ in split_log)
    split_as_documented = all(all(abs(out[i] - ref[i]) <= TOL * scale for i in out) for _, out, ref in split_log)
    if lost_in_split and not split_as_documented:
        p, out, ref = next((p, o, r) for p, o, r in split_log if any(abs(o[i] - r[i]) > TOL * scale for i in o))
        return (f"a set's share {p} was split as {out}; the documented greedy split (known finding C01-B) gives {ref}: "
                f"power is lost in a way the known finding does not cover"), None
    if prop not in ("C02", "C17") and abs(total + rem - power) > TOL * scale:
        fid = "C01-A-deficit-branch" if tr.hit_deficit else ("C01-B-split-drops-power" if lost_in_split else None)
        return f"set-points {total} + remainder {rem} != request {power}", fid
    for iid, sp in dist.items():
        if sp * sgn < -TOL:
            return f"set-point of inverter {iid} = {sp} has the wrong sign for request {power}", None
    if prop not in ("C02", "C17") and (rem * sgn < -TOL or abs(rem) > mag + TOL * scale):
        fid = "C01-A-deficit-branch" if tr.hit_deficit else None
        return f"remainder {rem} for request {power}", fid
    if prop == "C01":
        return None, None
    # ---- C02
    for bat_id, inv_ids, d in groups:
        headroom = (d["soc_hi"] - d["soc"]) if power > 0 else (d["soc"] - d["soc_lo"])
        gtotal = sum(dist.get(i, 0.0) for i in inv_ids)
        b_incl = d["bat"][3] if power > 0 else -d["bat"][0]
        b_excl = d["bat"][2] if power > 0 else -d["bat"][1]
        for iid, ib in zip(inv_ids, d["invs"]):
            sp = dist.get(iid, 0.0) * sgn
            i_incl = min(ib[3], d["bat"][3]) if power > 0 else -max(ib[0], d["bat"][0])
            i_excl = ib[2] if power > 0 else -ib[1]
            if abs(sp) > TOL and (sp > i_incl + TOL * scale or sp < i_excl - TOL * scale):
                fid = "C01-A-deficit-branch" if tr.hit_deficit else None
                return f"inverter {iid} commanded {sp} outside [{i_excl}, {i_incl}]", fid
        g = gtotal * sgn
        if prop != "C17" and headroom <= 0 and abs(g) > TOL:      # (C17 speaks about exclusion zones only)
            fid = "C02-D-exponent-zero" if exponent == 0 else "C02-C-no-headroom-gets-min-power"
            return f"group {bat_id} has no SoC headroom ({headroom}) but is assigned {g}", fid
        if abs(g) > TOL and (g > b_incl + TOL * scale or g < b_excl - TOL * scale):
            fid = ("C01-B-split-drops-power" if lost_in_split else
                   "C01-A-deficit-branch" if tr.hit_deficit else None)
            return f"group {bat_id} total {g} outside battery bounds [{b_excl}, {b_incl}]", fid
    return None, None


def run(req):
    from frequenz.sdk.microgrid._power_distributing._distribution_algorithm import BatteryDistributionAlgorithm
    tier = req.get("tier", "quick")
    seed = int(req.get("seed", 0))
    budget = 20 if tier == "quick" else 240
    rng = random.Random(seed)
    t0 = time.time()
    known, samples = {}, []
    evaluations = 0
    distinct = set()
    failure = None
    veterans = {}       # exponent -> one algorithm instance that serves every request of this run
    while time.time() - t0 < budget:
        groups, exponent = gen_config(rng)
        il, el, eu, iu = advertised(groups)
        # requests the advertised bounds admit: on / just outside the exclusion bound, inside, on and above inclusion
        cands = []
        for lo, hi in ((eu, iu), (-el, -il)):
            sign = 1.0 if (lo, hi) == (eu, iu) else -1.0
            if hi <= 0:
                continue
            for p in (lo, lo + 1e-3, (lo + hi) / 2, hi, hi * 1.3 + 10, rng.uniform(lo, max(lo, hi))):
                if p > 1e-6:
                    cands.append(sign * p)
        for power in cands:
            algo = BatteryDistributionAlgorithm(distributor_exponent=exponent)
            comps = [make_pair(b, invs, d) for b, invs, d in groups]
            split_log = []
            orig = algo._distribute_multi_inverter_pairs  # pylint: disable=protected-access

            def wrapped(distribution, excl_bounds, incl_bounds, _orig=orig, _log=split_log):
                before = {k: v.power for k, v in distribution.items()}
                out = _orig(distribution, excl_bounds, incl_bounds)
                for ids, p in before.items():
                    _log.append((p, {i: out.get(i, 0.0) for i in ids}, reference_split(p, list(ids), excl_bounds, incl_bounds)))
                return out
            algo._distribute_multi_inverter_pairs = wrapped  # pylint: disable=protected-access
            tr = Trace()
            sys.settrace(tr)
            try:
                res = algo.distribute_power(power, comps)
            except Exception as e:  # pylint: disable=broad-except
                sys.settrace(None)
                failure = (f"distribute_power raised {type(e).__name__}: {e}", None, groups, exponent, power)
                break
            finally:
                sys.settrace(None)
            evaluations += 1
            distinct.add((repr(groups), exponent, power))
            if len(samples) < 2:
                samples.append({"groups": [[b, i, d] for b, i, d in groups], "exponent": exponent, "power": power,
                                "distribution": dict(res.distribution), "remaining": res.remaining_power})
            f, fid = check(groups, exponent, power, res, tr, split_log, req.get("prop"))
            if not f:
                # the same request on a long-lived instance (as BatteryManager keeps one for its whole life), twice in a
                # row: an answer that differs from the fresh instance's must still satisfy the clauses
                vet = veterans.setdefault(exponent, BatteryDistributionAlgorithm(distributor_exponent=exponent))
                for nth in (1, 2):
                    try:
                        v = vet.distribute_power(power, [make_pair(b, invs, d) for b, invs, d in groups])
                    except Exception as e:  # pylint: disable=broad-except
                        failure = (f"distribute_power raised {type(e).__name__}: {e} on an instance that had served other "
                                   f"requests before", None, groups, exponent, power)
                        break
                    evaluations += 1
                    if same_result(v, res, max(1.0, abs(power))):
                        continue
                    vf, _ = check(groups, exponent, power, v, Trace(), [], req.get("prop"))
                    if vf:
                        failure = (vf + f" - on an algorithm instance that had served other requests before (call #{nth} of this "
                                        f"request in a row); a fresh instance gives {dict(res.distribution)} / remainder "
                                        f"{res.remaining_power}: the answer depends on the instance's history", None, groups, exponent, power)
                        break
                if failure:
                    break
            if f:
                # Is this one of the listed findings?  That is decided on the PINNED algorithm (a verbatim copy of the
                # pinned file): it is run on the same input, classified by the same rules, and the deviation counts as
                # that finding only if the real code still returns exactly what the pinned algorithm returns.  How the
                # real code is organised (helpers, names) plays no role.
                fid = None
                try:
                    pinned_cls = pinned_algorithm()
                    pinned_mod = sys.modules[pinned_cls.__module__]
                    ref_algo = pinned_cls(distributor_exponent=exponent)
                    ref_log = []
                    ref_orig = ref_algo._distribute_multi_inverter_pairs  # pylint: disable=protected-access

                    def ref_wrapped(distribution, excl_bounds, incl_bounds, _orig=ref_orig, _log=ref_log):
                        before = {k: v.power for k, v in distribution.items()}
                        out = _orig(distribution, excl_bounds, incl_bounds)
                        for ids, p in before.items():
                            _log.append((p, {i: out.get(i, 0.0) for i in ids}, reference_split(p, list(ids), excl_bounds, incl_bounds)))
                        return out
                    ref_algo._distribute_multi_inverter_pairs = ref_wrapped  # pylint: disable=protected-access
                    ref_tr = Trace(pinned_mod)
                    sys.settrace(ref_tr)
                    try:
                        ref = ref_algo.distribute_power(power, [make_pair(b, invs, d) for b, invs, d in groups])
                    finally:
                        sys.settrace(None)
                    _, ref_fid = check(groups, exponent, power, ref, ref_tr, ref_log, req.get("prop"))
                except Exception:  # pylint: disable=broad-except
                    ref, ref_fid = None, None
                if ref_fid is not None and same_result(res, ref, max(1.0, abs(power))):
                    fid = ref_fid
                else:
                    f = (f + f"; the pinned algorithm gives {dict(ref.distribution) if ref else None} / remainder "
                         f"{ref.remaining_power if ref else None} on this input"
                         + (f" (its own deviation there is the listed finding {ref_fid})" if ref_fid else " and satisfies the clauses")
                         + ": not a listed finding")
            if f:
                if fid is not None:
                    known.setdefault(fid, f"{f} (exponent {exponent}, request {power}, groups {[(b, i, d) for b, i, d in groups]})"[:600])
                    continue
                failure = (f, None, groups, exponent, power)
                break
        if failure:
            break
    out = {"status": "failed" if failure else "ok", "evaluations": evaluations, "distinct": len(distinct), "known": known,
           "samples": samples, "wall_s": round(time.time() - t0, 1),
           "rule": "seeded random consistent configurations (1-3 battery groups x 1-3 inverters, bounds from a lattice with "
                   "incl_lower <= excl_lower <= 0 <= excl_upper <= incl_upper, SoC below/at/inside/at/above its limits, exponent in "
                   "{0, 1/2, 1, 2, 3}); per configuration requests on / just outside the advertised exclusion bound, inside, on and "
                   "above the inclusion bound, both signs; every request also twice in a row on one long-lived instance per exponent "
                   "(answers that depend on the instance's history must still satisfy the clauses); "
                   "distinct = distinct (configuration, exponent, request) triples"}
    if failure:
        out["failure"] = {"clause": "C01/C02 clause", "detail": failure[0]}
        out["inputs"] = {"groups": [[b, i, d] for b, i, d in failure[2]], "exponent": failure[3], "power": failure[4]}
    return out
