"""Bounded stand-in for C14 on the real PowerDistributingActor (real request channel, real tasks and done-callbacks):
the component manager is a probe whose distribute_power() blocks on a gate per call and may raise when released.
Seeded random schedules interleave requests for two disjoint groups with releases of in-flight distributions,
including "release and send in the same loop iteration" (the window between a task finishing and its callback).

Checked: never two distributions of one group at the same time; requests are applied in issue order with coalescing
(an applied sequence is a subsequence of the issued one that ends with the last issued request of the group); the last
request of every group is eventually applied; groups do not wait for each other.

BOUNDED (never counted as proved).  Runs under /venv/bin/python via native.runner (mode script).
"""
from __future__ import annotations

import asyncio
import logging
import random
import time
from datetime import timedelta
from unittest import mock

G = {"A": frozenset({1, 2}), "B": frozenset({3, 4})}


class Probe:
    """Stands in for BatteryManager: records entries/exits of distribute_power, blocks until released."""

    def __init__(self):
        self.log = []               # ("enter"/"exit", group, power)
        self.active = {"A": 0, "B": 0}
        self.max_active = {"A": 0, "B": 0}
        self.gates = []             # (group, power, event, raise?)

    def component_ids(self):
        return G["A"] | G["B"]

    async def start(self):
        return None

    async def stop(self):
        return None

    async def distribute_power(self, request):
        g = "A" if frozenset(request.component_ids) == G["A"] else "B"
        p = request.power.as_watts()
        self.active[g] += 1
        self.max_active[g] = max(self.max_active[g], self.active[g])
        self.log.append(("enter", g, p))
        ev = asyncio.Event()
        gate = [g, p, ev, False]
        self.gates.append(gate)
        try:
            await ev.wait()
            if gate[3]:
                raise RuntimeError("scripted distribution failure")
        finally:
            self.active[g] -= 1
            self.log.append(("exit", g, p))


async def scenario(events):
    """events: ('req', group) | ('release', raises: bool) | ('yield', n) | ('release_and_req', group, raises)."""
    from frequenz.channels import Broadcast
    from frequenz.client.microgrid import ComponentCategory
    from frequenz.quantities import Power
    from frequenz.sdk.microgrid._power_distributing import power_distributing as pd
    from frequenz.sdk.microgrid._power_distributing.request import Request
    probe = Probe()
    req_chan, res_chan, st_chan = Broadcast(name="req"), Broadcast(name="res"), Broadcast(name="st")
    with mock.patch.object(pd, "BatteryManager", lambda *a, **k: probe):
        actor = pd.PowerDistributingActor(req_chan.new_receiver(limit=100), res_chan.new_sender(), st_chan.new_sender(),
                                          api_power_request_timeout=timedelta(seconds=5.0),
                                          component_category=ComponentCategory.BATTERY)
    tx = req_chan.new_sender()
    issued = {"A": [], "B": []}
    counter = [0]

    async def send(g):
        counter[0] += 1
        p = 100.0 * counter[0]
        issued[g].append(p)
        await tx.send(Request(power=Power.from_watts(p), component_ids=G[g]))

    def release(raises):
        open_gates = [x for x in probe.gates if not x[2].is_set()]
        if open_gates:
            gate = open_gates[0]
            gate[3] = raises
            gate[2].set()

    early = None
    async with actor:
        await asyncio.sleep(0)
        for ev in events:
            if ev[0] == "req":
                await send(ev[1])
            elif ev[0] == "release":
                release(ev[1])
            elif ev[0] == "release_and_req":
                release(ev[2])
                await send(ev[1])           # no yield in between: the task may be done with its callback still pending
            elif ev[0] == "yield":
                for _ in range(ev[1]):
                    await asyncio.sleep(0)
            elif ev[0] == "expect_entered":     # ('expect_entered', group, n-th issued request of the group, why)
                want = issued[ev[1]][ev[2]]
                if ("enter", ev[1], want) not in probe.log:
                    early = (f"group {ev[1]}: request {want:.0f} W had not reached distribute_power after {ev[3]} "
                             f"(log {probe.log}, in flight {probe.active})")
                    break
        # drain: release everything until nothing is in flight or waiting
        for _ in range(200):
            for _ in range(5):
                await asyncio.sleep(0)
            if not [x for x in probe.gates if not x[2].is_set()]:
                break
            release(False)
        for _ in range(20):
            await asyncio.sleep(0)
    if early:
        return early
    for g in ("A", "B"):
        if probe.max_active[g] > 1:
            return f"group {g}: {probe.max_active[g]} distributions ran at the same time (log {probe.log})"
        applied = [p for what, gg, p in probe.log if what == "enter" and gg == g]
        it = iter(issued[g])
        if not all(any(p == q for q in it) for p in applied):
            return f"group {g}: applied {applied} is not in issue order of {issued[g]}"
        if issued[g] and (not applied or applied[-1] != issued[g][-1]):
            return f"group {g}: issued {issued[g]}, applied {applied}: the last request was not the last one applied"
    return None


def run(req):
    logging.disable(logging.CRITICAL)
    tier = req.get("tier", "quick")
    rng = random.Random(int(req.get("seed", 0)))
    budget = 10 if tier == "quick" else 90
    t0 = time.time()
    evaluations, distinct, samples, failure = 0, set(), [], None
    # fixed schedules: disjoint groups do not wait for each other; a waiting request starts as soon as the in-flight
    # one finishes (normally or by raising) without any further event
    fixed = []
    for raises in (False, True):
        fixed.append([("req", "A"), ("yield", 5), ("expect_entered", "A", 0, "5 loop iterations with nothing in flight"),
                      ("req", "B"), ("yield", 5),
                      ("expect_entered", "B", 0, "5 loop iterations while only the OTHER group's distribution was in flight"),
                      ("req", "A"), ("req", "A"), ("yield", 5), ("req", "B"), ("yield", 5), ("release", raises), ("yield", 8),
                      ("expect_entered", "A", 2, "the in-flight distribution of its group finished and 8 loop iterations passed"),
                      ("release", raises), ("yield", 8),
                      ("expect_entered", "B", 1, "the in-flight distribution of its group finished and 8 loop iterations passed")])
    for events in fixed:
        evaluations += 1
        distinct.add(tuple(events))
        if not samples:
            samples.append({"events": events})
        try:
            f = asyncio.run(scenario(events))
        except Exception as e:  # pylint: disable=broad-except
            f = f"scenario raised {type(e).__name__}: {e}"
        if f:
            failure = (f, {"events": events})
            break
    while failure is None and time.time() - t0 < budget:
        n = rng.randint(3, 12)
        events = []
        for _ in range(n):
            r = rng.random()
            if r < 0.45:
                events.append(("req", rng.choice("AAB")))
            elif r < 0.65:
                events.append(("release", rng.random() < 0.3))
            elif r < 0.8:
                events.append(("release_and_req", rng.choice("AAB"), rng.random() < 0.3))
            else:
                events.append(("yield", rng.choice([1, 2, 5])))
        evaluations += 1
        distinct.add(tuple(events))
        try:
            f = asyncio.run(scenario(events))
        except Exception as e:  # pylint: disable=broad-except
            f = f"scenario raised {type(e).__name__}: {e}"
        if len(samples) < 2:
            samples.append({"events": events})
        if f:
            failure = (f, {"events": events})
    logging.disable(logging.NOTSET)
    out = {"status": "failed" if failure else "ok", "evaluations": evaluations, "distinct": len(distinct), "known": {},
           "samples": samples, "wall_s": round(time.time() - t0, 1),
           "rule": "seeded random schedules of 3-12 events: requests for two disjoint groups, releases of the oldest in-flight "
                   "distribution (30 % of them raising), release-and-send without yielding, explicit yields of 1/2/5 loop "
                   "iterations; plus 2 fixed schedules asserting that a group's request starts while only the other group is "
                   "in flight and that a waiting request starts within 8 loop iterations of the in-flight one finishing "
                   "(returning / raising); distinct = distinct event sequences"}
    if failure:
        out["failure"] = {"clause": "one at a time per group, latest wins, last request applied", "detail": failure[0]}
        out["inputs"] = failure[1]
    return out
