"""Witnesses for the known findings of C01 / C02: fixed configurations (witnesses/c01_c02.json) replayed on the
real BatteryDistributionAlgorithm; 'failed' while the recorded deviation still occurs."""
import json
import os
import sys


def run(req):
    from native import explore_distribution as ed
    from frequenz.sdk.microgrid._power_distributing._distribution_algorithm import BatteryDistributionAlgorithm
    here = os.path.dirname(os.path.dirname(os.path.abspath(__file__)))
    with open(os.path.join(here, "witnesses", "c01_c02.json"), encoding="utf-8") as fh:
        cases = json.load(fh)
    case = cases[req["case"]]
    groups = [(b, i, d) for b, i, d in case["groups"]]
    algo = BatteryDistributionAlgorithm(distributor_exponent=case["exponent"])
    comps = [ed.make_pair(b, invs, d) for b, invs, d in groups]
    split_log = []
    orig = algo._distribute_multi_inverter_pairs  # pylint: disable=protected-access

    def wrapped(distribution, excl_bounds, incl_bounds):
        before = {k: v.power for k, v in distribution.items()}
        out = orig(distribution, excl_bounds, incl_bounds)
        for ids, p in before.items():
            split_log.append((p, {i: out.get(i, 0.0) for i in ids}))
        return out
    algo._distribute_multi_inverter_pairs = wrapped  # pylint: disable=protected-access
    tr = ed.Trace()
    sys.settrace(tr)
    try:
        res = algo.distribute_power(case["power"], comps)
    finally:
        sys.settrace(None)
    f, fid = ed.check(groups, case["exponent"], case["power"], res, tr, split_log)
    if f and fid == req["case"]:
        return {"status": "failed", "clause": fid, "detail": f}
    if f:
        return {"status": "failed", "clause": fid or "unclassified", "detail": f}
    return {"status": "ok"}
