"""Bounded stand-in for the history-freedom clause of C03 on the real Matryoshka: the target depends only on the
set of live proposals (the latest one per actor) and the system bounds - not on arrival order or on earlier,
replaced proposals.  Proposal sets deliberately contain EQUAL priorities with conflicting wishes, where only the
tie-break by source id makes the outcome unique; source ids are chosen so that set iteration order varies.

BOUNDED (never counted as proved).  Runs under /venv/bin/python via native.runner (mode script).
"""
from __future__ import annotations

import itertools
import random
import time
from datetime import datetime, timedelta, timezone


def run(req):
    from frequenz.quantities import Power
    from frequenz.sdk import timeseries
    from frequenz.sdk.microgrid._power_managing._base_classes import Proposal
    from frequenz.sdk.microgrid._power_managing._matryoshka import Matryoshka
    from frequenz.sdk.timeseries._base_types import SystemBounds
    tier = req.get("tier", "quick")
    seed = int(req.get("seed", 0))
    budget = 10 if tier == "quick" else 90
    rng = random.Random(seed)
    t0 = time.time()
    ids = frozenset({1, 2})
    names = [f"actor-{c}{k}" for c in "abcdefgh" for k in range(6)]
    evaluations, distinct, samples, failure = 0, set(), [], None

    def w(x):
        return None if x is None else Power.from_watts(float(x))

    def mk(spec, now):
        sid, prio, pref, lo, hi = spec
        return Proposal(source_id=sid, preferred_power=w(pref), bounds=timeseries.Bounds(w(lo), w(hi)), component_ids=ids,
                        priority=prio, creation_time=now, set_operating_point=False)

    def final_target(order, specs, stale, sysb):
        algo = Matryoshka(max_proposal_age=timedelta(seconds=60.0))
        now = 1000.0
        # an earlier, different proposal of some actors first (it is replaced later: must leave no trace)
        for sid, prio in stale:
            algo.calculate_target_power(ids, mk((sid, prio, 777.0, None, None), now), sysb, True)
        last = None
        for i in order:
            last = algo.calculate_target_power(ids, mk(specs[i], now), sysb, True)
        return last

    while failure is None and time.time() - t0 < budget:
        n = rng.choice([2, 2, 3, 3, 4])
        sids = rng.sample(names, n)
        prios = [rng.choice([1, 1, 2, 3]) for _ in range(n)]
        specs = []
        for sid, pr in zip(sids, prios):
            lo, hi = rng.choice([(None, None), (40, 60), (-60, -40), (-100, 100), (0, 50), (-50, 0)])
            pref = rng.choice([None, 50, -50, 10, -10, 100, -100, 0])
            specs.append((sid, pr, pref, lo, hi))
        excl = rng.choice([None, (-30, 30), (0, 0), (-10, 20)])
        sysb = SystemBounds(timestamp=datetime.now(tz=timezone.utc),
                            inclusion_bounds=timeseries.Bounds(w(-200), w(200)),
                            exclusion_bounds=None if excl is None else timeseries.Bounds(w(excl[0]), w(excl[1])))
        stale = [(sid, pr) for sid, pr in zip(sids, prios) if rng.random() < 0.3]
        results = {}
        for order in itertools.permutations(range(n)):
            for st in ([], stale):
                evaluations += 1
                t = final_target(order, specs, st, sysb)
                results[(order, tuple(st))] = None if t is None else t.as_watts()
        distinct.add((tuple(specs), excl))
        if len(samples) < 2:
            samples.append({"proposals": specs, "exclusion": excl, "stale_first": stale})
        vals = set(results.values())
        if len(vals) > 1:
            (o1, s1), v1 = next(iter(results.items()))
            (o2, s2), v2 = next((k, v) for k, v in results.items() if v != v1)
            failure = (f"the same live proposals {specs} (system bounds [-200, 200] W, exclusion {excl}) give target {v1} W when "
                       f"they arrive in order {o1} (after replaced proposals {list(s1)}) and {v2} W in order {o2} (after {list(s2)})",
                       {"proposals": specs, "exclusion": excl})
    out = {"status": "failed" if failure else "ok", "evaluations": evaluations, "distinct": len(distinct), "known": {},
           "samples": samples, "wall_s": round(time.time() - t0, 1),
           "rule": "seeded random sets of 2-4 proposals (priorities from {1,1,2,3}: ties are frequent; wishes and bounds from a "
                   "small lattice incl. conflicting ones; 48 actor names), every arrival order, with and without earlier proposals "
                   "of the same actors that are replaced; distinct = distinct (proposal set, exclusion zone) pairs"}
    if failure:
        out["failure"] = {"clause": "the target is a function of the live proposal set", "detail": failure[0]}
        out["inputs"] = failure[1]
    return out
