"""Witness for the known finding C10/stop: a task added to a BackgroundService while stop() is waiting
is neither cancelled nor awaited; stop() returns while it is still running."""
import asyncio


def run(req):
    from frequenz.sdk.actor import BackgroundService

    class Svc(BackgroundService):
        def __init__(self):
            super().__init__(name="witness")
            self.late = None

        def start(self):
            self._tasks.add(asyncio.create_task(self._main()))

        async def _main(self):
            try:
                await asyncio.sleep(3600)
            except asyncio.CancelledError:
                # clean-up work spawned as another task of the same service
                self.late = asyncio.create_task(asyncio.sleep(3600))
                self._tasks.add(self.late)
                raise

    async def scenario():
        svc = Svc()
        svc.start()
        await asyncio.sleep(0)
        await svc.stop()
        late_done = svc.late is not None and svc.late.done()
        cancelled = svc.late is not None and (svc.late.cancelled() or svc.late.cancelling() > 0)
        if svc.late is not None:
            svc.late.cancel()
        return late_done, cancelled

    late_done, cancel_requested = asyncio.run(scenario())
    if not late_done:
        return {"status": "failed", "clause": "ensures.late_tasks_finished_too",
                "detail": f"stop() returned while a task added during the wait was still running "
                          f"(cancellation requested: {cancel_requested})"}
    return {"status": "ok"}
