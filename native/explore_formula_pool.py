"""Bounded stand-in for the entry points above the formula compiler (C05; also the "a valid 0.0 is a value" clause of
C13/C19): the real FormulaEnginePool -> ResampledFormulaBuilder -> FormulaEngine over a real ChannelRegistry.  The
resampling actor is played by the script: it answers every subscription request the engines send by feeding the
channel that request names.

Checked: string formulas obtained from ONE pool and composed with the operator API compute, for every timestamp, the
composition of the individual formulas on the component values of that timestamp (values include 0.0, negative values
and None); a single string formula on a reading of exactly 0.0 gives the number, not None.

BOUNDED (never counted as proved).  Runs under /venv/bin/python via native.runner (mode script).
"""
from __future__ import annotations

import asyncio
import itertools
import logging
import time
from datetime import datetime, timedelta, timezone

T0 = datetime(2024, 1, 1, tzinfo=timezone.utc)
N_STEPS = 4


def exact(formula, env):
    """Reference value of one of the formulas used below (None when an input it needs is None)."""
    import re
    ids = [int(x) for x in re.findall(r"#(\d+)", formula)]
    if any(env[i] is None for i in ids):
        return None
    expr = re.sub(r"#(\d+)", lambda m: f"({env[int(m.group(1))]!r})", formula)
    return eval(expr, {"__builtins__": {}})  # pylint: disable=eval-used   (our own constant strings)


async def scenario(f1, f2, op, table):
    """table[step][component id] -> value or None."""
    import frequenz.sdk.microgrid  # noqa: F401  pylint: disable=unused-import   (resolves a circular import)
    from frequenz.channels import Broadcast
    from frequenz.client.microgrid import ComponentMetricId
    from frequenz.quantities import Quantity
    from frequenz.sdk._internal._channels import ChannelRegistry
    from frequenz.sdk.timeseries import Sample
    from frequenz.sdk.timeseries.formula_engine._formula_engine_pool import FormulaEnginePool
    registry = ChannelRegistry(name="explore-pool")
    subs = Broadcast(name="subscriptions")
    sub_rx = subs.new_receiver(limit=200)
    pool = FormulaEnginePool("explore-ns", registry, subs.new_sender())
    e1 = pool.from_string(f1, ComponentMetricId.ACTIVE_POWER)
    e2 = pool.from_string(f2, ComponentMetricId.ACTIVE_POWER)
    engines = {"first": e1, "second": e2}
    if op is not None:
        composed = {"-": e1 - e2, "+": e1 + e2, "max": e1.max(e2)}[op].build("composed")
        engines["composed"] = composed
    # play the resampling actor: one channel per subscription request, named by the request
    names = {}

    async def collect():
        async for req in sub_rx:
            names.setdefault(req.component_id, set()).add(req.get_channel_name())

    collector = asyncio.create_task(collect())
    outs = {k: e.new_receiver() for k, e in engines.items()}
    for _ in range(100):        # loop iterations, not wall-clock time: the engines subscribe when they start
        await asyncio.sleep(0)
    collector.cancel()
    senders = {(cid, n): registry.get_or_create(Sample[Quantity], n).new_sender() for cid, ns in names.items() for n in ns}
    for step, row in enumerate(table):
        for (cid, _n), tx in senders.items():
            v = row[cid]
            await tx.send(Sample(T0 + timedelta(seconds=step), None if v is None else Quantity(v)))
        for _ in range(30):
            await asyncio.sleep(0)
    got = {k: [] for k in outs}
    for k, rx in outs.items():
        for _ in table:
            try:
                got[k].append(await asyncio.wait_for(rx.receive(), timeout=10.0))
            except Exception:  # pylint: disable=broad-except
                break
    for e in engines.values():
        await e._stop()  # pylint: disable=protected-access
    for step, row in enumerate(table):
        w1, w2 = exact(f1, row), exact(f2, row)
        want = {"first": w1, "second": w2}
        if op is not None:
            want["composed"] = None if w1 is None or w2 is None else {"-": w1 - w2, "+": w1 + w2, "max": max(w1, w2)}[op]
        for k, w in want.items():
            if len(got[k]) <= step:
                return f"{k} formula emitted {len(got[k])} samples for {len(table)} input steps"
            s = got[k][step]
            have = None if s.value is None else s.value.base_value
            if (w is None) != (have is None) or (w is not None and abs(have - w) > 1e-6 * max(1.0, abs(w))):
                return (f"{k} formula ({f1!r} {op or ''} {f2!r}) at step {step}: emitted {have}, the component values "
                        f"{row} give {w}")
    return None


def run(req):
    logging.disable(logging.CRITICAL)
    t0 = time.time()
    evaluations, failure, samples = 0, None, []
    tables = [
        [{1: 10.0, 2: 20.0, 3: 3.0, 4: 4.0}, {1: 11.0, 2: 0.0, 3: 2.0, 4: 7.0}, {1: 0.0, 2: 0.0, 3: 5.0, 4: -1.0},
         {1: -4.5, 2: 1.5, 3: 0.0, 4: 9.0}],
        [{1: 1.0, 2: None, 3: 3.0, 4: 4.0}, {1: 0.0, 2: 5.0, 3: None, 4: 7.0}, {1: 2.0, 2: 2.0, 3: 2.0, 4: 2.0},
         {1: 0.0, 2: -0.0, 3: 1e-3, 4: 1e6}],
    ]
    pairs = [("#1 + #2", "#3 * #4"), ("#1 - #2", "#3 + #4"), ("#1", "#3"), ("#1 * #2", "#1 + #2")]
    for (f1, f2), op, table in itertools.product(pairs, (None, "-", "+", "max"), tables):
        evaluations += 1
        try:
            f = asyncio.run(scenario(f1, f2, op, table))
        except Exception as e:  # pylint: disable=broad-except
            f = f"scenario raised {type(e).__name__}: {e}"
        if len(samples) < 2:
            samples.append({"formulas": [f1, f2], "composition": op, "table": table})
        if f:
            failure = (f, {"formulas": [f1, f2], "composition": op, "table": table})
            break
    logging.disable(logging.NOTSET)
    out = {"status": "failed" if failure else "ok", "evaluations": evaluations, "distinct": evaluations, "known": {},
           "samples": samples, "wall_s": round(time.time() - t0, 1), "exhaustive": failure is None,
           "rule": "4 pairs of string formulas from one FormulaEnginePool x (alone, a - b, a + b, max(a, b) via the operator "
                   "API) x 2 value tables of 4 steps (0.0, -0.0, negative, tiny, large and None readings); all cases distinct"}
    if failure:
        out["failure"] = {"clause": "pool-built engines and their compositions compute the formulas on the values of each timestamp",
                          "detail": failure[0]}
        out["inputs"] = failure[1]
    return out
