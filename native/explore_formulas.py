"""Bounded stand-in for C05 (and the whole-expression part of C13): the real Tokenizer + FormulaBuilder /
HigherOrderFormulaBuilder compile expressions to post-fix steps; the steps are executed on a float stack with
preset input values and compared with an exact (Fraction) evaluation using ordinary precedence, parentheses
and left-to-right associativity.  Missing inputs (None / NaN / inf) and division by zero: the output must be
None exactly when a needed non-zeroed input is missing or the exact result is undefined.

BOUNDED (never counted as proved).  Runs under /venv/bin/python via native.runner (mode script).
"""
from __future__ import annotations

import asyncio
import itertools
import math
import random
import time
from datetime import datetime, timezone
from fractions import Fraction

T0 = datetime(2024, 1, 1, tzinfo=timezone.utc)
UNDEF = "undefined"
VALUES = [Fraction(-3), Fraction(-1), Fraction(0), Fraction(1, 2), Fraction(2), Fraction(7)]
MISSING = [None, float("nan"), float("inf"), float("-inf")]


# ------------------------------------------------------------------ exact oracle
def parse(tokens):
    """Ordinary precedence: * / bind tighter than + -, both left-associative, parentheses."""
    pos = [0]

    def peek():
        return tokens[pos[0]] if pos[0] < len(tokens) else None

    def take():
        t = tokens[pos[0]]
        pos[0] += 1
        return t

    def atom():
        t = take()
        if t == "(":
            e = expr()
            assert take() == ")"
            return e
        return ("leaf", t)

    def term():
        e = atom()
        while peek() in ("*", "/"):
            op = take()
            e = (op, e, atom())
        return e

    def expr():
        e = term()
        while peek() in ("+", "-"):
            op = take()
            e = (op, e, term())
        return e
    e = expr()
    assert pos[0] == len(tokens)
    return e


def exact(tree, env):
    """env: leaf -> Fraction or UNDEF (missing and not zeroed)."""
    k = tree[0]
    if k == "leaf":
        v = tree[1]
        return env[v] if not isinstance(v, Fraction) else v
    if k in ("consumption", "production"):
        a = exact(tree[1], env)
        if a is UNDEF:
            return UNDEF
        return max(a, Fraction(0)) if k == "consumption" else max(-a, Fraction(0))
    a, b = exact(tree[1], env), exact(tree[2], env)
    if a is UNDEF or b is UNDEF:
        return UNDEF
    if k == "+":
        return a + b
    if k == "-":
        return a - b
    if k == "*":
        return a * b
    if k == "/":
        return UNDEF if b == 0 else a / b
    if k == "max":
        return max(a, b)
    if k == "min":
        return min(a, b)
    raise AssertionError(k)


# ------------------------------------------------------------------ running the real steps
def run_steps(steps, fetchers, inputs):
    from frequenz.quantities import Quantity
    from frequenz.sdk.timeseries import Sample
    for name, f in fetchers.items():
        v = inputs[name]
        f._next_value = Sample(T0, None if v is None else Quantity(float(v)))  # pylint: disable=protected-access
    stack: list[float] = []
    for st in steps:
        st.apply(stack)
    assert len(stack) == 1, f"stack has {len(stack)} values after the last step"
    res = stack.pop()
    return None if (math.isnan(res) or math.isinf(res)) else res


ILL = "ill-conditioned in binary floating point"


def float_shadow(tree, env):
    """The same expression in Python floats with ordinary precedence: (value or None, ill) - `ill` is set when a
    divisor is zero in exact arithmetic but not in floats or vice versa (rounding decides whether the result is
    defined; the property speaks about real arithmetic 'to float tolerance', so such a case cannot be judged)."""
    k = tree[0]
    if k == "leaf":
        v = tree[1]
        v = env[v] if not isinstance(v, Fraction) else v
        return (None, False, UNDEF) if v is UNDEF else (float(v), False, v)
    if k in ("consumption", "production"):
        a, ill, ea = float_shadow(tree[1], env)
        if ea is UNDEF:
            return None, ill, UNDEF
        return ((max(a, 0.0), ill, max(ea, Fraction(0))) if k == "consumption" else (max(-a, 0.0), ill, max(-ea, Fraction(0))))
    a, ia, ea = float_shadow(tree[1], env)
    b, ib, eb = float_shadow(tree[2], env)
    ill = ia or ib
    if ea is UNDEF or eb is UNDEF:
        return None, ill, UNDEF
    if k == "/":
        if (eb == 0) != (b == 0.0):
            return None, True, UNDEF
        if eb == 0:
            return None, ill, UNDEF
        return a / b, ill, ea / eb
    if k == "+":
        return a + b, ill, ea + eb
    if k == "-":
        return a - b, ill, ea - eb
    if k == "*":
        return a * b, ill, ea * eb
    if k == "max":
        return max(a, b), ill, max(ea, eb)
    if k == "min":
        return min(a, b), ill, min(ea, eb)
    raise AssertionError(k)


def compare(got, want):
    if want is UNDEF:
        return got is None
    if got is None:
        return False
    return math.isclose(got, float(want), rel_tol=1e-9, abs_tol=1e-9)


class DummyReceiver:
    """push_metric only stores the receiver; the explorer never receives from it."""


def compile_tokens(tokens, zeros):
    from frequenz.quantities import Quantity
    from frequenz.sdk.timeseries.formula_engine._formula_engine import FormulaBuilder
    b = FormulaBuilder("explore", Quantity)
    for t in tokens:
        if isinstance(t, Fraction):
            b.push_constant(float(t))
        elif t in ("+", "-", "*", "/", "(", ")"):
            b.push_oper(t)
        else:
            b.push_metric(t, DummyReceiver(), nones_are_zeros=zeros[t])
    return b.finalize()


def tokens_from_string(formula):
    """The real Tokenizer; component metric #n -> leaf name 'n'."""
    from frequenz.sdk.timeseries.formula_engine._tokenizer import Tokenizer, TokenType
    out = []
    for tok in Tokenizer(formula):
        out.append(tok.value if tok.type == TokenType.OPER else f"m{tok.value}")
    return out


def gen_tokens(rng, depth, metrics):
    def atom(d):
        r = rng.random()
        if d > 0 and r < 0.3:
            return ["("] + expr(d - 1) + [")"]
        if r < 0.8:
            return [rng.choice(metrics)]
        return [rng.choice(VALUES)]

    def expr(d):
        out = atom(d)
        for _ in range(rng.randint(0, 3)):
            out += [rng.choice(["+", "-", "*", "/"])] + atom(d)
        return out
    return expr(depth)


def render(tokens):
    return " ".join("#" + t[1:] if isinstance(t, str) and t.startswith("m") else str(t) for t in tokens)


def check_tokens(tokens, rng, failures, counters, zero_choices=None):
    metrics = sorted({t for t in tokens if isinstance(t, str) and t.startswith("m")})
    tree = parse(tokens)
    for zeros_bits in (zero_choices or [tuple(rng.random() < 0.5 for _ in metrics)]):
        zeros = dict(zip(metrics, zeros_bits))
        try:
            steps, fetchers = compile_tokens(tokens, zeros)
        except Exception as e:  # pylint: disable=broad-except
            failures.append({"clause": "compile", "detail": f"{render(tokens)}: {type(e).__name__}: {e}"})
            return
        for _ in range(4):
            inputs, env = {}, {}
            for m in metrics:
                if rng.random() < 0.25:
                    inputs[m] = rng.choice(MISSING)
                    env[m] = Fraction(0) if zeros[m] else UNDEF
                else:
                    inputs[m] = rng.choice(VALUES)
                    env[m] = inputs[m]
            counters["evaluations"] += 1
            try:
                got = run_steps(steps, fetchers, inputs)
            except Exception as e:  # pylint: disable=broad-except
                failures.append({"clause": "no sample for this timestamp (step raised)",
                                 "detail": f"{render(tokens)} with {inputs}: {type(e).__name__}: {e}"})
                return
            want = exact(tree, env)
            if float_shadow(tree, env)[1]:
                counters["ill_conditioned_skipped"] = counters.get("ill_conditioned_skipped", 0) + 1
                continue
            if not compare(got, want):
                failures.append({"clause": "value", "detail": f"{render(tokens)} zeros={zeros} inputs={ {k: str(v) for k, v in inputs.items()} }: "
                                                              f"engine {got}, exact {want}"})
                return


def check_small_divisors(failures, counters):
    """(f) a divisor that is small but not zero divides: `a / b`, `a / (b - c)`, `(a + b) / c` with divisors 5e-10,
    -4e-10, 1e-12, 2**-31 (as a difference of two exactly representable readings); only an exact 0 makes the result
    undefined.  Well conditioned expressions only (compared relative to the result)."""
    tiny = [Fraction(5, 10**10), Fraction(-4, 10**10), Fraction(1, 10**12), Fraction(1, 2**31)]
    cases = []
    for d in tiny + [Fraction(0)]:
        cases.append((["m1", "/", "m2"], {"m1": Fraction(6), "m2": d}))
        cases.append((["(", "m1", "+", "m2", ")", "/", "m3"], {"m1": Fraction(1), "m2": Fraction(2), "m3": d}))
        cases.append((["m1", "/", "(", "m2", "-", "m3", ")"], {"m1": Fraction(-3), "m2": Fraction(1) + d, "m3": Fraction(1)})
                     if d.denominator in (1, 2**31) else (["m1", "/", "m2"], {"m1": d, "m2": d * 2}))
    for toks, env in cases:
        zeros = {m: False for m in env}
        try:
            steps, fetchers = compile_tokens(toks, zeros)
            counters["evaluations"] += 1
            counters["ho"] += 1
            got = run_steps(steps, fetchers, dict(env))
        except Exception as e:  # pylint: disable=broad-except
            failures.append({"clause": "value", "detail": f"{render(toks)} with {env}: {type(e).__name__}: {e}"})
            return
        want = exact(parse(toks), env)
        ok = (got is None) if want is UNDEF else (got is not None and math.isclose(got, float(want), rel_tol=1e-9))
        if not ok:
            failures.append({"clause": "value", "detail": f"{render(toks)} inputs={ {k: float(v) for k, v in env.items()} }: engine {got}, "
                                                          f"exact {'undefined' if want is UNDEF else float(want)} "
                                                          f"(a divisor that is small but not zero divides)"})
            return


async def check_build_default(failures, counters):
    """(g) a composed formula built WITHOUT saying how missing values count (`(a + b).build(name)`): a missing input
    makes the sample None - it counts as zero only on request."""
    from frequenz.quantities import Quantity
    from frequenz.sdk.timeseries.formula_engine._formula_engine import FormulaBuilder

    def leaf(name):
        b = FormulaBuilder(name, Quantity)
        b.push_metric(name, DummyReceiver(), nones_are_zeros=False)
        return b.build()
    for op in ("+", "max"):
        a, b2 = leaf("a"), leaf("b")
        top = (a + b2) if op == "+" else a.max(b2)
        try:
            steps, fetchers = top.build("default")._builder.finalize()  # pylint: disable=protected-access
        except Exception as e:  # pylint: disable=broad-except
            failures.append({"clause": "build", "detail": f"(a {op} b).build(name): {type(e).__name__}: {e}"})
            return
        names = sorted(fetchers)
        for mv in MISSING:
            counters["evaluations"] += 1
            counters["ho"] += 1
            got = run_steps(steps, fetchers, {names[0]: mv, names[1]: Fraction(4)})
            if got is not None:
                failures.append({"clause": "value", "detail": f"(a {op} b).build(name) without a nones_are_zeros argument, a missing "
                                                              f"({mv}), b = 4: engine {got}, expected None"})
                return


def check_from_receiver(failures, counters):
    """(d) single-stream engines made with FormulaEngine.from_receiver: the stream's nones_are_zeros setting is the
    one given (a missing sample counts as 0 exactly when it was asked for), a present value passes through."""
    from frequenz.quantities import Quantity
    from frequenz.sdk.timeseries.formula_engine._formula_engine import FormulaEngine
    for z in (False, True):
        try:
            eng = FormulaEngine.from_receiver("m1", DummyReceiver(), Quantity, nones_are_zeros=z)
            steps, fetchers = eng._builder.finalize()  # pylint: disable=protected-access
        except Exception as e:  # pylint: disable=broad-except
            failures.append({"clause": "build", "detail": f"from_receiver(nones_are_zeros={z}): {type(e).__name__}: {e}"})
            return
        for v in list(MISSING) + [Fraction(7), Fraction(-3), Fraction(0)]:
            counters["evaluations"] += 1
            counters["ho"] += 1
            got = run_steps(steps, fetchers, {name: v for name in fetchers})
            want = (Fraction(0) if z else UNDEF) if (v is None or not isinstance(v, Fraction)) else v
            if not compare(got, want):
                failures.append({"clause": "value", "detail": f"from_receiver(nones_are_zeros={z}) with input {v}: engine {got}, "
                                                              f"expected {want}"})
                return


async def check_three_phase(failures, counters):
    """(e) 3-phase compositions (a3 - b3, a3 + b3) built with build(name, nones_are_zeros=z): on every phase a missing
    input counts as 0 exactly when z was asked for."""
    from frequenz.quantities import Quantity
    from frequenz.sdk.timeseries.formula_engine._formula_engine import FormulaBuilder, FormulaEngine3Phase

    def phase_engine(name):
        b = FormulaBuilder(name, Quantity)
        b.push_metric(name, DummyReceiver(), nones_are_zeros=False)
        return b.build()

    for z in (False, True):
        for op in ("+", "-", "max", "min"):
            try:
                a3 = FormulaEngine3Phase("a", Quantity, tuple(phase_engine(f"a{p}") for p in range(3)))
                b3 = FormulaEngine3Phase("b", Quantity, tuple(phase_engine(f"b{p}") for p in range(3)))
                top = {"+": lambda: a3 + b3, "-": lambda: a3 - b3, "max": lambda: a3.max(b3), "min": lambda: a3.min(b3),
                       "*": lambda: a3 * 2.0, "/": lambda: a3 / 2.0}[op]()
                eng3 = top.build("ho3", nones_are_zeros=z)
                per_phase = [e._builder.finalize() for e in eng3._streams]  # pylint: disable=protected-access
            except Exception as e:  # pylint: disable=broad-except
                failures.append({"clause": "build", "detail": f"3-phase a {op} b, nones_are_zeros={z}: {type(e).__name__}: {e}"})
                return
            for p, (steps, fetchers) in enumerate(per_phase):
                names = sorted(fetchers)
                for missing in ([], [names[0]], [names[-1]], names):
                    for mv in ([None] if not missing else MISSING):
                        inputs = {n: (mv if n in missing else Fraction(7 if n == names[0] else 2)) for n in names}
                        counters["evaluations"] += 1
                        counters["ho"] += 1
                        got = run_steps(steps, fetchers, inputs)
                        vals = [Fraction(0) if (n in missing and z) else (UNDEF if n in missing else inputs[n]) for n in names]
                        if op in ("*", "/"):
                            if len(names) != 1:
                                continue
                            want = UNDEF if vals[0] is UNDEF else (vals[0] * 2 if op == "*" else vals[0] / 2)
                        else:
                            if len(names) != 2:
                                continue
                            want = UNDEF if any(v is UNDEF for v in vals) else {
                                "+": lambda: vals[0] + vals[1], "-": lambda: vals[0] - vals[1],
                                "max": lambda: max(vals[0], vals[1]), "min": lambda: min(vals[0], vals[1])}[op]()
                        if not compare(got, want):
                            failures.append({"clause": "value", "detail": f"3-phase a {op} b built with nones_are_zeros={z}, phase {p + 1}, "
                                                                          f"inputs {inputs}: engine {got}, expected {want}"})
                            return


async def check_higher_order(rng, failures, counters, budget_end):
    """Expression trees built through the operator/method API of formula engines."""
    from frequenz.quantities import Quantity
    from frequenz.sdk.timeseries.formula_engine._formula_engine import FormulaBuilder

    def leaf_engine(name, zeros):
        b = FormulaBuilder(name, Quantity)
        b.push_metric(name, DummyReceiver(), nones_are_zeros=zeros)
        return b.build()

    def gen(d):
        r = rng.random()
        if d == 0 or r < 0.25:
            return ("leaf", rng.choice(["m1", "m2", "m3"])) if rng.random() < 0.8 else ("leaf", rng.choice(VALUES))
        if r < 0.85:
            return (rng.choice(["+", "-", "*", "/", "min", "max"]), gen(d - 1), gen(d - 1))
        return (rng.choice(["consumption", "production"]), gen(d - 1))

    n = 0
    while time.time() < budget_end and n < 400:
        n += 1
        tree = gen(3)
        # the composed engine reads the OUTPUT of its operand engines; how it treats a missing output is the
        # nones_are_zeros argument of build() - one setting for all operands
        z_all = rng.random() < 0.5
        zeros = {m: z_all for m in ("m1", "m2", "m3")}
        engines = {m: leaf_engine(m, zeros[m]) for m in zeros}

        def build(t):
            k = t[0]
            if k == "leaf":
                return engines[t[1]] if isinstance(t[1], str) else float(t[1])
            if k in ("consumption", "production"):
                a = build(t[1])
                if isinstance(a, float):
                    raise SkipTree()
                return getattr(a, k)()
            a, b = build(t[1]), build(t[2])
            if isinstance(a, float):
                raise SkipTree()       # the API needs an engine/builder on the left
            if isinstance(b, float) and k in ("+", "-", "min", "max"):
                b = Quantity(b)        # additive operators and min/max take a Quantity constant, * and / a float
            if k == "+":
                return a + b
            if k == "-":
                return a - b
            if k == "*":
                return a * b
            if k == "/":
                return a / b
            if isinstance(b, float) and k in ("min", "max"):
                return getattr(a, k)(b)
            return getattr(a, k)(b)
        try:
            top = build(tree)
        except SkipTree:
            continue
        except Exception as e:  # pylint: disable=broad-except
            failures.append({"clause": "compose", "detail": f"{tree}: {type(e).__name__}: {e}"})
            return
        if not hasattr(top, "build"):
            continue
        try:
            eng = top.build("ho", nones_are_zeros=z_all)
            steps, fetchers = eng._builder.finalize()  # pylint: disable=protected-access
        except Exception as e:  # pylint: disable=broad-except
            failures.append({"clause": "build", "detail": f"{tree}: {type(e).__name__}: {e}"})
            return
        for _ in range(3):
            inputs, env = {}, {}
            for m in zeros:
                if rng.random() < 0.2:
                    inputs[m] = rng.choice(MISSING)
                    env[m] = Fraction(0) if zeros[m] else UNDEF
                else:
                    inputs[m] = rng.choice(VALUES)
                    env[m] = inputs[m]
            counters["evaluations"] += 1
            counters["ho"] += 1
            try:
                got = run_steps(steps, {k: v for k, v in fetchers.items()}, {k: inputs[k] for k in fetchers})
            except Exception as e:  # pylint: disable=broad-except
                failures.append({"clause": "no sample for this timestamp (step raised)",
                                 "detail": f"{tree} with {inputs}: {type(e).__name__}: {e}"})
                return
            want = exact(tree, env)
            if float_shadow(tree, env)[1]:
                counters["ill_conditioned_skipped"] = counters.get("ill_conditioned_skipped", 0) + 1
                continue
            if not compare(got, want):
                failures.append({"clause": "value (composition API)", "detail": f"{tree} zeros={zeros} inputs={ {k: str(v) for k, v in inputs.items()} }: "
                                                                                f"engine {got}, exact {want}"})
                return
    for t in asyncio.all_tasks():
        if t is not asyncio.current_task():
            t.cancel()


class SkipTree(Exception):
    pass


def run(req):
    tier = req.get("tier", "quick")
    seed = int(req.get("seed", 0))
    budget = 20 if tier == "quick" else 200
    t0 = time.time()
    rng = random.Random(seed)
    failures: list[dict] = []
    counters = {"evaluations": 0, "ho": 0}
    distinct = set()
    samples = []
    # (a) exhaustive: all flat expressions with up to 4 operands over 2 metrics and the four operators,
    #     with every parenthesisation of adjacent pairs
    ops = ["+", "-", "*", "/"]
    for n_ops in (1, 2, 3):
        for opseq in itertools.product(ops, repeat=n_ops):
            for leaves in itertools.product(["m1", "m2"], repeat=n_ops + 1):
                base = [leaves[0]]
                for o, l in zip(opseq, leaves[1:]):
                    base += [o, l]
                variants = [base]
                for i in range(0, len(base) - 2, 2):
                    variants.append(base[:i] + ["("] + base[i:i + 3] + [")"] + base[i + 3:])
                for toks in variants:
                    if tuple(toks) in distinct:
                        continue
                    distinct.add(tuple(toks))
                    # through the real tokenizer as well
                    toks2 = tokens_from_string(render(toks))
                    if toks2 != toks:
                        failures.append({"clause": "tokenizer", "detail": f"{render(toks)} -> {toks2}"})
                        break
                    check_tokens(toks, rng, failures, counters,
                                 zero_choices=[(False,) * 2, (True,) * 2][:len({t for t in toks if t.startswith('m')}) and 2])
                    if failures:
                        break
                if failures:
                    break
            if failures or time.time() - t0 > budget * 0.5:
                break
        if failures:
            break
    # (b) seeded random nested token strings with constants and three metrics
    while not failures and time.time() - t0 < budget * 0.75:
        toks = gen_tokens(rng, 3, ["m1", "m2", "m3"])
        if not any(isinstance(t, str) and t.startswith("m") for t in toks):
            continue
        distinct.add(tuple(toks))
        if len(samples) < 2:
            samples.append({"formula": render(toks)})
        check_tokens(toks, rng, failures, counters)
    # (c) the composition API
    if not failures:
        check_from_receiver(failures, counters)
    if not failures:
        check_small_divisors(failures, counters)
    if not failures:
        asyncio.run(check_build_default(failures, counters))
    if not failures:
        asyncio.run(check_three_phase(failures, counters))
    if not failures:
        asyncio.run(check_higher_order(rng, failures, counters, t0 + budget))
    out = {"status": "failed" if failures else "ok", "evaluations": counters["evaluations"], "distinct": len(distinct) + counters["ho"],
           "known": {}, "samples": samples, "wall_s": round(time.time() - t0, 1),
           "rule": "expressions: (a) every flat expression with up to 4 operands over 2 metrics and + - * / with every single "
                   "parenthesised adjacent pair, through the real Tokenizer and FormulaBuilder; (b) seeded random nested "
                   "token strings (depth 3, constants, 3 metrics); (c) seeded random trees (depth 3) built with the engine "
                   "composition API incl. min/max/consumption/production; inputs from {-3,-1,0,1/2,2,7} and "
                   "None/NaN/+-inf, both nones_are_zeros settings; oracle = exact Fraction evaluation with ordinary "
                   "precedence; (f) small non-zero divisors (5e-10, -4e-10, 1e-12, 2**-31) and exact 0 in a / b, (a + b) / c, "
                   "a / (b - c); distinct = distinct expressions"}
    if failures:
        out["failure"] = failures[0]
        out["inputs"] = {"see": "failure.detail"}
    return out
