"""Witness for the known finding C06/3-phase: FormulaEngine3Phase zips its three per-phase streams without
aligning timestamps, so phase streams that start at different times yield samples mixing timestamps."""
import asyncio
from datetime import datetime, timedelta, timezone


def run(req):
    from frequenz.channels import Broadcast
    from frequenz.quantities import Current
    from frequenz.sdk.timeseries import Sample
    from frequenz.sdk.timeseries.formula_engine._formula_engine import FormulaEngine3Phase

    class PhaseEngine:
        """Stands in for a per-phase FormulaEngine: only new_receiver() is used by the 3-phase engine."""

        def __init__(self, name):
            self.chan = Broadcast(name=name)

        def new_receiver(self, name=None, max_size=50):
            return self.chan.new_receiver(name=name, limit=max_size)

    t0 = datetime(2024, 1, 1, tzinfo=timezone.utc)

    async def scenario():
        phases = [PhaseEngine(f"p{i}") for i in (1, 2, 3)]
        eng = FormulaEngine3Phase("witness", Current.from_amperes, tuple(phases))
        out = eng.new_receiver()
        await asyncio.sleep(0)
        senders = [p.chan.new_sender() for p in phases]
        # phase k starts k seconds late; the value encodes (phase, second) = 100 * phase + second
        for sec in range(0, 6):
            for k, s in enumerate(senders):
                if sec >= k:
                    await s.send(Sample(t0 + timedelta(seconds=sec), Current.from_amperes(100.0 * (k + 1) + sec)))
        got = []
        for _ in range(3):
            got.append(await asyncio.wait_for(out.receive(), timeout=10.0))
        await eng._stop()  # pylint: disable=protected-access
        return got

    got = asyncio.run(scenario())
    for s in got:
        sec = int((s.timestamp - t0).total_seconds())
        vals = [s.value_p1, s.value_p2, s.value_p3]
        secs = [int(round(v.as_amperes())) % 100 for v in vals]
        if secs != [sec, sec, sec]:
            return {"status": "failed", "clause": "loop[while True].init.phases_in_step",
                    "detail": f"sample stamped second {sec} was built from phase samples of seconds {secs}"}
    return {"status": "ok"}
