"""Witness for the known finding C04/tied priorities: two live proposals with the SAME priority for the same
component set.  The target sweep orders them by (priority, source_id), so the proposal with the greater source id
acts as the higher-priority one and its bounds clamp the other's preferred power; get_status() only folds in
proposals of STRICTLY higher priority, so the clamped actor is told a range in which its preferred power is
not adopted."""
from datetime import datetime, timezone


def run(req):
    from frequenz.quantities import Power
    from frequenz.sdk import timeseries
    from frequenz.sdk.microgrid._power_managing._base_classes import Proposal
    from frequenz.sdk.microgrid._power_managing._matryoshka import Matryoshka
    from frequenz.sdk.timeseries._base_types import SystemBounds
    from datetime import timedelta

    ids = frozenset({1})
    sysb = SystemBounds(timestamp=datetime.now(tz=timezone.utc),
                        inclusion_bounds=timeseries.Bounds(Power.from_watts(-1000.0), Power.from_watts(1000.0)),
                        exclusion_bounds=None)
    algo = Matryoshka(max_proposal_age=timedelta(seconds=60.0))
    import asyncio
    now = asyncio.new_event_loop().time()

    def prop(source, power, lo, hi):
        return Proposal(source_id=source, preferred_power=None if power is None else Power.from_watts(power),
                        bounds=timeseries.Bounds(None if lo is None else Power.from_watts(lo),
                                                 None if hi is None else Power.from_watts(hi)),
                        component_ids=ids, priority=5, creation_time=now, set_operating_point=False)
    algo.calculate_target_power(ids, prop("b", None, -10.0, 10.0), sysb)
    target = algo.calculate_target_power(ids, prop("a", 50.0, None, None), sysb)
    if target is None:
        target = algo._target_power.get(ids)  # pylint: disable=protected-access
    rep = algo.get_status(ids, 5, sysb)
    lo, hi = rep._inclusion_bounds.lower.as_watts(), rep._inclusion_bounds.upper.as_watts()  # pylint: disable=protected-access
    tw = target.as_watts()
    # property: the range reported to actor "a" is the range in which its preferred power is adopted unchanged
    # (no lower-priority actor exists here)
    if lo <= 50.0 <= hi and abs(tw - 50.0) > 1e-9:
        return {"status": "failed", "clause": "ensures.reported_range_is_own_clamp_range",
                "detail": f"actor 'a' (priority 5) is told [{lo}, {hi}] W, asks for 50 W inside it, target is {tw} W: the equal-"
                          f"priority proposal of 'b' (bounds [-10, 10] W) clamps it but is not reflected in the reported range"}
    return {"status": "ok", "detail": f"reported [{lo}, {hi}], target {tw}"}
