"""Bounded stand-in for one clause of C18: a metric that arrives as NaN counts as missing - whatever NaN object it is
(math.nan, float("nan"), inf - inf, a NaN decoded from bytes) - so that the battery is excluded instead of poisoning
the pool aggregate.  The real LatestBatteryMetricsFetcher.fetch_next is fed through a real channel (scripted API
client), and its output goes to the real SoC / capacity calculators.

BOUNDED (a finite list of NaN encodings and metric positions).  Runs under /venv/bin/python via native.runner.
"""
from __future__ import annotations

import asyncio
import itertools
import math
import struct
import time
from datetime import datetime, timezone
from unittest import mock


def nan_variants():
    return {"math.nan": math.nan, 'float("nan")': float("nan"), "inf - inf": math.inf - math.inf,
            "decoded from bytes": struct.unpack("<d", struct.pack("<d", float("nan")))[0], "0.0 * inf": 0.0 * math.inf}


async def scenario(nan_name, nan_value, field):
    from frequenz.channels import Broadcast
    from frequenz.client.microgrid import (BatteryComponentState, BatteryData, BatteryRelayState, ComponentMetricId)
    from frequenz.sdk.microgrid import connection_manager
    from frequenz.sdk.timeseries.battery_pool._component_metric_fetcher import LatestBatteryMetricsFetcher
    from frequenz.sdk.timeseries.battery_pool._metric_calculator import CapacityCalculator, SoCCalculator
    chans = {9: Broadcast(name="bat9"), 19: Broadcast(name="bat19")}

    class Api:
        async def battery_data(self, cid, maxsize=1):
            return chans[cid].new_receiver(limit=maxsize)

    class Conn:
        api_client = Api()

    metrics = [ComponentMetricId.SOC, ComponentMetricId.SOC_LOWER_BOUND, ComponentMetricId.SOC_UPPER_BOUND, ComponentMetricId.CAPACITY]

    def data(cid, **over):
        kw = dict(component_id=cid, timestamp=datetime.now(tz=timezone.utc), soc=50.0, soc_lower_bound=10.0, soc_upper_bound=90.0,
                  capacity=1000.0, power_inclusion_lower_bound=-1000.0, power_exclusion_lower_bound=0.0,
                  power_exclusion_upper_bound=0.0, power_inclusion_upper_bound=1000.0, temperature=20.0,
                  relay_state=BatteryRelayState.CLOSED, component_state=BatteryComponentState.IDLE, errors=[])
        kw.update(over)
        return BatteryData(**kw)

    with mock.patch.object(connection_manager, "get", lambda: Conn()):
        f9 = await LatestBatteryMetricsFetcher.async_new(9, metrics)
        f19 = await LatestBatteryMetricsFetcher.async_new(19, metrics)
        await chans[9].new_sender().send(data(9, **{field: nan_value}))
        await chans[19].new_sender().send(data(19, soc=30.0))
        m9 = await asyncio.wait_for(f9.fetch_next(), 2.0)
        m19 = await asyncio.wait_for(f19.fetch_next(), 2.0)
    got = {} if m9 is None else {mid: m9.get(mid) for mid in metrics}
    mid_of = {"soc": ComponentMetricId.SOC, "soc_lower_bound": ComponentMetricId.SOC_LOWER_BOUND,
              "soc_upper_bound": ComponentMetricId.SOC_UPPER_BOUND, "capacity": ComponentMetricId.CAPACITY}[field]
    if got.get(mid_of) is not None:
        return f"metric {mid_of.name} arrived as NaN ({nan_name}) and was handed on as {got.get(mid_of)!r} instead of being dropped"
    for calc in (SoCCalculator(frozenset({9, 19})), CapacityCalculator(frozenset({9, 19}))):
        res = calc.calculate({9: m9, 19: m19}, {9, 19})
        v = res.value.base_value if res is not None and res.value is not None else None
        if v is not None and math.isnan(v):
            return f"{type(calc).__name__} published NaN for a pool in which battery 9 reported {field} = NaN ({nan_name})"
    return None


def run(req):
    t0 = time.time()
    cases = list(itertools.product(nan_variants().items(), ["soc", "soc_lower_bound", "soc_upper_bound", "capacity"]))
    failure = None
    for (name, value), field in cases:
        try:
            f = asyncio.run(scenario(name, value, field))
        except Exception as e:  # pylint: disable=broad-except
            f = f"scenario raised {type(e).__name__}: {e}"
        if f:
            failure = (f, {"nan": name, "field": field})
            break
    out = {"status": "failed" if failure else "ok", "evaluations": len(cases), "distinct": len(cases), "known": {},
           "samples": [{"nan": n, "field": f} for (n, _), f in cases[:2]], "wall_s": round(time.time() - t0, 2),
           "exhaustive": failure is None,
           "rule": "5 ways of producing a NaN x 4 battery metrics, one battery with the NaN next to a healthy one; all distinct"}
    if failure:
        out["failure"] = {"clause": "a NaN metric counts as missing", "detail": failure[0]}
        out["inputs"] = failure[1]
    return out
