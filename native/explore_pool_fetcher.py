"""Bounded stand-in for one clause of C18: a metric that arrives as NaN counts as missing - whatever NaN object it is
(math.nan, float("nan"), inf - inf, a NaN decoded from bytes) - so that the battery is excluded instead of poisoning
the pool aggregate.  The real LatestBatteryMetricsFetcher.fetch_next is fed through a real channel (scripted API
client), and its output goes to the real SoC / capacity calculators.

BOUNDED (a finite list of NaN encodings and metric positions).  Runs under /venv/bin/python via native.runner.
"""
from __future__ import annotations

import asyncio
import itertools
import math
import struct
import time
from datetime import datetime, timedelta, timezone
from unittest import mock


def nan_variants():
    return {"math.nan": math.nan, 'float("nan")': float("nan"), "inf - inf": math.inf - math.inf,
            "decoded from bytes": struct.unpack("<d", struct.pack("<d", float("nan")))[0], "0.0 * inf": 0.0 * math.inf}


async def scenario(nan_name, nan_value, field):
    from frequenz.channels import Broadcast
    from frequenz.client.microgrid import (BatteryComponentState, BatteryData, BatteryRelayState, ComponentMetricId)
    from frequenz.sdk.microgrid import connection_manager
    from frequenz.sdk.timeseries.battery_pool._component_metric_fetcher import LatestBatteryMetricsFetcher
    from frequenz.sdk.timeseries.battery_pool._metric_calculator import CapacityCalculator, SoCCalculator
    chans = {9: Broadcast(name="bat9"), 19: Broadcast(name="bat19")}

    class Api:
        async def battery_data(self, cid, maxsize=1):
            return chans[cid].new_receiver(limit=maxsize)

    class Conn:
        api_client = Api()

    metrics = [ComponentMetricId.SOC, ComponentMetricId.SOC_LOWER_BOUND, ComponentMetricId.SOC_UPPER_BOUND, ComponentMetricId.CAPACITY]

    def data(cid, **over):
        kw = dict(component_id=cid, timestamp=datetime.now(tz=timezone.utc), soc=50.0, soc_lower_bound=10.0, soc_upper_bound=90.0,
                  capacity=1000.0, power_inclusion_lower_bound=-1000.0, power_exclusion_lower_bound=0.0,
                  power_exclusion_upper_bound=0.0, power_inclusion_upper_bound=1000.0, temperature=20.0,
                  relay_state=BatteryRelayState.CLOSED, component_state=BatteryComponentState.IDLE, errors=[])
        kw.update(over)
        return BatteryData(**kw)

    with mock.patch.object(connection_manager, "get", lambda: Conn()):
        f9 = await LatestBatteryMetricsFetcher.async_new(9, metrics)
        f19 = await LatestBatteryMetricsFetcher.async_new(19, metrics)
        await chans[9].new_sender().send(data(9, **{field: nan_value}))
        await chans[19].new_sender().send(data(19, soc=30.0))
        m9 = await asyncio.wait_for(f9.fetch_next(), 2.0)
        m19 = await asyncio.wait_for(f19.fetch_next(), 2.0)
    got = {} if m9 is None else {mid: m9.get(mid) for mid in metrics}
    mid_of = {"soc": ComponentMetricId.SOC, "soc_lower_bound": ComponentMetricId.SOC_LOWER_BOUND,
              "soc_upper_bound": ComponentMetricId.SOC_UPPER_BOUND, "capacity": ComponentMetricId.CAPACITY}[field]
    if got.get(mid_of) is not None:
        return f"metric {mid_of.name} arrived as NaN ({nan_name}) and was handed on as {got.get(mid_of)!r} instead of being dropped"
    for calc in (SoCCalculator(frozenset({9, 19})), CapacityCalculator(frozenset({9, 19}))):
        res = calc.calculate({9: m9, 19: m19}, {9, 19})
        v = res.value.base_value if res is not None and res.value is not None else None
        if v is not None and math.isnan(v):
            return f"{type(calc).__name__} published NaN for a pool in which battery 9 reported {field} = NaN ({nan_name})"
    return None


async def fidelity(values):
    """A metric that arrives as a finite number is handed on as exactly that number (no rounding, scaling or clipping):
    the pool's bounds and the distributor's bounds are computed from the same readings (C17), and so are SoC / capacity."""
    from frequenz.channels import Broadcast
    from frequenz.client.microgrid import (BatteryComponentState, BatteryData, BatteryRelayState, ComponentMetricId,
                                           InverterComponentState, InverterData)
    from frequenz.sdk.microgrid import connection_manager
    from frequenz.sdk.timeseries.battery_pool._component_metric_fetcher import (LatestBatteryMetricsFetcher,
                                                                              LatestInverterMetricsFetcher)
    bchan, ichan = Broadcast(name="bat9"), Broadcast(name="inv8")

    class Api:
        async def battery_data(self, cid, maxsize=1):
            return bchan.new_receiver(limit=maxsize)

        async def inverter_data(self, cid, maxsize=1):
            return ichan.new_receiver(limit=maxsize)

    class Conn:
        api_client = Api()

    bat_fields = {"soc": ComponentMetricId.SOC, "soc_lower_bound": ComponentMetricId.SOC_LOWER_BOUND,
                  "soc_upper_bound": ComponentMetricId.SOC_UPPER_BOUND, "capacity": ComponentMetricId.CAPACITY,
                  "power_inclusion_lower_bound": ComponentMetricId.POWER_INCLUSION_LOWER_BOUND,
                  "power_exclusion_lower_bound": ComponentMetricId.POWER_EXCLUSION_LOWER_BOUND,
                  "power_exclusion_upper_bound": ComponentMetricId.POWER_EXCLUSION_UPPER_BOUND,
                  "power_inclusion_upper_bound": ComponentMetricId.POWER_INCLUSION_UPPER_BOUND}
    inv_fields = {"active_power_inclusion_lower_bound": ComponentMetricId.ACTIVE_POWER_INCLUSION_LOWER_BOUND,
                  "active_power_exclusion_lower_bound": ComponentMetricId.ACTIVE_POWER_EXCLUSION_LOWER_BOUND,
                  "active_power_exclusion_upper_bound": ComponentMetricId.ACTIVE_POWER_EXCLUSION_UPPER_BOUND,
                  "active_power_inclusion_upper_bound": ComponentMetricId.ACTIVE_POWER_INCLUSION_UPPER_BOUND}
    now = datetime.now(tz=timezone.utc)
    bat_kw = {f: values[k % len(values)] for k, f in enumerate(bat_fields)}
    inv_kw = {f: values[(k + 3) % len(values)] for k, f in enumerate(inv_fields)}
    nan3 = (math.nan, math.nan, math.nan)
    with mock.patch.object(connection_manager, "get", lambda: Conn()):
        fb = await LatestBatteryMetricsFetcher.async_new(9, list(bat_fields.values()))
        fi = await LatestInverterMetricsFetcher.async_new(8, list(inv_fields.values()))
        await bchan.new_sender().send(BatteryData(component_id=9, timestamp=now, temperature=20.0, relay_state=BatteryRelayState.CLOSED,
                                                  component_state=BatteryComponentState.IDLE, errors=[], **bat_kw))
        await ichan.new_sender().send(InverterData(component_id=8, timestamp=now, active_power=0.0, active_power_per_phase=nan3,
                                                   current_per_phase=nan3, voltage_per_phase=nan3, reactive_power=0.0,
                                                   reactive_power_per_phase=nan3, frequency=50.0,
                                                   component_state=InverterComponentState.IDLE, errors=[], **inv_kw))
        mb = await asyncio.wait_for(fb.fetch_next(), 10.0)
        mi = await asyncio.wait_for(fi.fetch_next(), 10.0)
    for m, fields, kw, what in ((mb, bat_fields, bat_kw, "battery"), (mi, inv_fields, inv_kw, "inverter")):
        if m is None:
            return f"the {what} fetcher returned nothing for complete data {kw}"
        for f, mid in fields.items():
            if m.get(mid) != kw[f]:
                return f"{what} metric {mid.name} arrived as {kw[f]!r} and was handed on as {m.get(mid)!r}"
    return None


def soc_in_range(rng, n):
    """The pool SoC stays within [0, 100] in float arithmetic: fleets of 1-4 batteries with non-integer capacities and
    SoC limits; batteries below, inside, at and above their limits (full and empty fleets included)."""
    from frequenz.client.microgrid import ComponentMetricId as M
    from frequenz.sdk.timeseries.battery_pool._component_metrics import ComponentMetricsData
    from frequenz.sdk.timeseries.battery_pool._metric_calculator import SoCCalculator
    now = datetime.now(tz=timezone.utc)
    for _ in range(n):
        k = rng.randint(1, 4)
        mode = rng.choice(["full", "empty", "mixed"])
        data, desc = {}, []
        for b in range(k):
            lo, hi = round(rng.uniform(0.0, 30.0), 1), round(rng.uniform(70.0, 100.0), 1)
            soc = {"full": rng.choice([hi, hi + 0.7, 100.0]), "empty": rng.choice([lo, max(0.0, lo - 0.7), 0.0]),
                   "mixed": round(rng.uniform(0.0, 100.0), 2)}[mode]
            cap = round(rng.uniform(500.0, 12000.0), 1)
            data[b] = ComponentMetricsData(b, now, {M.SOC: soc, M.SOC_LOWER_BOUND: lo, M.SOC_UPPER_BOUND: hi, M.CAPACITY: cap})
            desc.append({"soc": soc, "lower": lo, "upper": hi, "capacity": cap})
        res = SoCCalculator(frozenset(range(k))).calculate(data, set(range(k)))
        v = None if res is None or res.value is None else res.value.base_value
        if v is not None and not 0.0 <= v <= 100.0:
            return f"pool SoC {v!r} is outside [0, 100] for batteries {desc}", desc
        # a capacity-weighted mean does not depend on the unit of the capacities: the same fleet with every capacity scaled
        # by 1e-9 (still far above float resolution) has the same SoC
        small = {b: ComponentMetricsData(b, now, {M.SOC: d["soc"], M.SOC_LOWER_BOUND: d["lower"], M.SOC_UPPER_BOUND: d["upper"],
                                                  M.CAPACITY: d["capacity"] * 1e-9}) for b, d in enumerate(desc)}
        res2 = SoCCalculator(frozenset(range(k))).calculate(small, set(range(k)))
        v2 = None if res2 is None or res2.value is None else res2.value.base_value
        if (v is None) != (v2 is None) or (v is not None and abs(v - v2) > 1e-6):
            return (f"pool SoC is {v!r} for batteries {desc} but {v2!r} for the same batteries with all capacities scaled by 1e-9 "
                    f"(a capacity-weighted mean is scale invariant)"), desc
    return None, None


def calculators_do_not_touch_their_arguments():
    """The working set handed to calculate() is the aggregator's own set (passed by reference on every recalculation):
    a calculator must not change it - a battery without data NOW is left out of this aggregate, not out of the set."""
    from frequenz.client.microgrid import ComponentMetricId as M
    from frequenz.sdk.timeseries.battery_pool._component_metrics import ComponentMetricsData
    from frequenz.sdk.timeseries.battery_pool._metric_calculator import CapacityCalculator, SoCCalculator, TemperatureCalculator
    now = datetime.now(tz=timezone.utc)

    def md(b, soc):
        return ComponentMetricsData(b, now, {M.SOC: soc, M.SOC_LOWER_BOUND: 10.0, M.SOC_UPPER_BOUND: 90.0, M.CAPACITY: 1000.0,
                                             M.TEMPERATURE: 20.0})
    for cls in (SoCCalculator, CapacityCalculator, TemperatureCalculator):
        calc = cls(frozenset({9, 19}))
        working = {9, 19}
        data = {9: md(9, 50.0)}                      # battery 19 is working but has no cached data yet
        first = calc.calculate(data, working)
        if working != {9, 19}:
            return f"{cls.__name__}.calculate changed the working set it was handed from {{9, 19}} to {working}"
        if set(data) != {9}:
            return f"{cls.__name__}.calculate changed the metrics mapping it was handed (keys now {sorted(data)})"
        data[19] = md(19, 30.0)                      # ... its data arrives: the next aggregate covers both
        second = calc.calculate(data, working)
        v1 = None if first is None or first.value is None else first.value.base_value
        v2 = None if second is None or second.value is None else second.value.base_value
        if cls is CapacityCalculator and (v1 is None or v2 is None or abs(v2 - 2 * v1) > 1e-9):
            return f"CapacityCalculator: one battery with data gives {v1}, both give {v2} (expected twice as much)"
        if cls is SoCCalculator and (v2 is None or abs(v2 - 37.5) > 1e-9):
            return f"SoCCalculator: batteries at 50 % and 30 % (limits 10..90, equal capacities) give {v2}, expected 37.5"
    return None


def aggregator_initial_working_set():
    """A new SendOnUpdate aggregator covers the batteries that are BOTH reported working and known to its calculator -
    from its very first aggregate on, not only after the next status change."""
    from frequenz.sdk.timeseries.battery_pool import _methods
    from frequenz.sdk.timeseries.battery_pool._metric_calculator import CapacityCalculator

    async def never():
        await asyncio.Event().wait()

    async def build(working, known):
        with mock.patch.object(_methods, "_get_battery_inverter_mappings", lambda *a, **k: {"bat_invs": {b: frozenset() for b in known}}), \
                mock.patch.object(_methods, "run_forever", lambda fn: never()):
            agg = _methods.SendOnUpdate(working_batteries=set(working), metric_calculator=CapacityCalculator(frozenset(known)),
                                        min_update_interval=timedelta(seconds=1))
            got = set(agg._working_batteries)  # pylint: disable=protected-access
            for t in (agg._update_task, agg._send_task):  # pylint: disable=protected-access
                t.cancel()
            await asyncio.sleep(0)
            return got

    for working, known in (({9}, {9, 19}), ({9, 19, 29}, {9, 19}), (set(), {9, 19}), ({9, 19}, {9, 19})):
        got = asyncio.run(build(working, known))
        if got != set(working) & set(known):
            return (f"a new aggregator for batteries {sorted(known)} created while {sorted(working)} are reported working starts with "
                    f"the working set {sorted(got)}; only {sorted(set(working) & set(known))} are both working and its own")
    return None


def run(req):
    t0 = time.time()
    cases = list(itertools.product(nan_variants().items(), ["soc", "soc_lower_bound", "soc_upper_bound", "capacity"]))
    failure = None
    for (name, value), field in cases:
        try:
            f = asyncio.run(scenario(name, value, field))
        except Exception as e:  # pylint: disable=broad-except
            f = f"scenario raised {type(e).__name__}: {e}"
        if f:
            failure = (f, {"nan": name, "field": field})
            break
    n_extra = 0
    for values in ([180.7, 1900.9, 33.33, 0.4, -180.7, -0.25, 7.5, 99.99], [0.5, 1.5, 2.5, -1.5, 1e-3, 12345.678, 50.0, 80.0]):
        if failure:
            break
        n_extra += 1
        try:
            f = asyncio.run(fidelity(values))
        except Exception as e:  # pylint: disable=broad-except
            f = f"scenario raised {type(e).__name__}: {e}"
        if f:
            failure = (f, {"readings": values})
    if not failure:
        n_extra += 1
        try:
            f = aggregator_initial_working_set()
        except Exception as e:  # pylint: disable=broad-except
            f = f"scenario raised {type(e).__name__}: {e}"
        if f:
            failure = (f, {"scenario": "initial working set of a new aggregator"})
    if not failure:
        n_extra += 1
        try:
            f = calculators_do_not_touch_their_arguments()
        except Exception as e:  # pylint: disable=broad-except
            f = f"scenario raised {type(e).__name__}: {e}"
        if f:
            failure = (f, {"working": [9, 19], "data_for": [9]})
    if not failure:
        import random
        n_fleets = 3000 if req.get("tier", "quick") == "quick" else 30000
        n_extra += n_fleets
        f, desc = soc_in_range(random.Random(int(req.get("seed", 0))), n_fleets)
        if f:
            failure = (f, {"batteries": desc})
    cases = cases + [None] * n_extra
    out = {"status": "failed" if failure else "ok", "evaluations": len(cases), "distinct": len(cases), "known": {},
           "samples": [{"nan": c[0][0], "field": c[1]} for c in cases[:2]], "wall_s": round(time.time() - t0, 2),
           "exhaustive": False,
           "rule": "5 ways of producing a NaN x 4 battery metrics, one battery with the NaN next to a healthy one; 2 sets of "
                   "non-integer readings through the real battery / inverter fetchers (handed on unchanged); the calculators "
                   "leave the working set and the metrics mapping they are handed untouched; a new aggregator starts from "
                   "(reported working) AND (its calculator's batteries); seeded random "
                   "fleets of 1-4 batteries with non-integer capacities and limits, full / empty / mixed: pool SoC within "
                   "[0, 100] in floats and unchanged when all capacities are scaled by 1e-9; all distinct"}
    if failure:
        out["failure"] = {"clause": "a NaN metric counts as missing", "detail": failure[0]}
        out["inputs"] = failure[1]
    return out
