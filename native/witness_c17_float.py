"""Witness for the known finding C17-float-rounding-at-the-edge: the pool's calculator and the distributor add the
same bounds in different orders and with different summation routines (a running `+=` vs the built-in sum()), so an
advertised edge can differ from the enforced one in the last bits; a power exactly on the advertised exclusion bound
is then answered OutOfBounds."""
import asyncio
import logging


def run(req):
    from native import explore_bounds_agreement as eb
    logging.disable(logging.CRITICAL)
    known = {}
    # battery 9 behind inverters 7 and 8, battery 19 behind inverter 18: inverter exclusion bounds 198.4 + 100.0 and 180.7
    # -> advertised 298.4 + 180.7 = 479.09999999999997, enforced sum((198.4, 100.0, 180.7)) = 479.1
    values = {9: (382.2, 100.0), 19: (2299.1, 50.0), 7: (500.0, 198.4), 8: (1900.9, 100.0), 18: (1900.9, 180.7)}
    try:
        f = asyncio.run(eb.scenario({8: [9], 7: [9], 18: [19]}, values, [], known))
    finally:
        logging.disable(logging.NOTSET)
    if f:
        return {"status": "failed", "clause": "unclassified", "detail": f}
    if "C17-float-rounding-at-the-edge" in known:
        return {"status": "failed", "clause": "C17-float-rounding-at-the-edge", "detail": known["C17-float-rounding-at-the-edge"]}
    return {"status": "ok"}
