"""Bounded stand-in for C10 on the real Actor / BackgroundService (event loop, real tasks): the run logic follows a
scripted plan of outcomes (return, raise Exception, be cancelled), the restart limit is None / 0 / 1 / 2, the actor
is started once or twice; checked: number of invocations per start, that invocations never overlap, that a restart is
preceded by the actor's own restart delay, that stop() leaves nothing running.

BOUNDED (never counted as proved).  Runs under /venv/bin/python via native.runner (mode script).
"""
from __future__ import annotations

import asyncio
import itertools
import logging
import time
from datetime import timedelta


async def scenario(limit, plan1, plan2, delay_s):
    from frequenz.sdk.actor import Actor

    class Probe(Actor):
        RESTART_DELAY = timedelta(seconds=delay_s)

        def __init__(self):
            super().__init__(name="probe")
            self.plan = []
            self.runs = 0
            self.active = 0
            self.overlap = False
            self.stamps = []

        async def _run(self):
            self.active += 1
            if self.active > 1:
                self.overlap = True
            self.runs += 1
            self.stamps.append(asyncio.get_running_loop().time())
            try:
                what = self.plan.pop(0) if self.plan else "return"
                await asyncio.sleep(0)
                if what == "raise":
                    raise RuntimeError("scripted failure")
            finally:
                self.active -= 1

    a = Probe()
    a._restart_limit = limit  # pylint: disable=protected-access
    results = []
    for plan in (plan1, plan2):
        if plan is None:
            continue
        a.plan = list(plan)
        a.runs = 0
        a.stamps = []
        a.start()
        try:
            await asyncio.wait_for(a.wait(), timeout=5.0)
        except BaseException:  # pylint: disable=broad-except
            pass
        n_fail = 0
        for w in plan:
            if w != "raise":
                break
            n_fail += 1
        all_fail = n_fail == len(plan)
        # run logic is invoked again after every Exception while the limit allows; a normal return ends it
        if limit is None:
            want = n_fail + 1 if not all_fail else len(plan) + 1
        else:
            want = min(n_fail, limit) + 1
        results.append((a.runs, want, list(a.stamps)))
        if a.runs != want:
            return f"start #{len(results)}: run logic invoked {a.runs} times, demanded {want} (limit {limit}, outcomes {plan})"
        if a.overlap:
            return "two invocations of the run logic overlapped"
        for k in range(1, len(a.stamps)):
            if a.stamps[k] - a.stamps[k - 1] < delay_s - 1e-3:
                return (f"restart #{k} came {a.stamps[k] - a.stamps[k - 1]:.3f} s after the previous invocation; the actor's "
                        f"restart delay is {delay_s} s")
        if len(results) == 1 and a.stamps and False:
            pass
    await a.stop()
    if a.is_running or a.active:
        return "the actor is still running after stop()"
    return None


async def start_while_winding_down(cleanup_yields, n_starts):
    """start(); cancel(); start() again while the cancelled run logic is still in its clean-up (it awaits there): the
    run logic must never be active twice, and stop() must leave nothing running - the first task included."""
    from frequenz.sdk.actor import Actor

    class Slow(Actor):
        def __init__(self):
            super().__init__(name="slow")
            self.active = 0
            self.max_active = 0
            self.entered = 0

        async def _run(self):
            self.active += 1
            self.entered += 1
            self.max_active = max(self.max_active, self.active)
            try:
                await asyncio.Event().wait()
            except asyncio.CancelledError:
                for _ in range(cleanup_yields):          # clean-up that takes a few loop iterations
                    await asyncio.sleep(0)
                raise
            finally:
                self.active -= 1

    a = Slow()
    a.start()
    for _ in range(3):
        await asyncio.sleep(0)
    first_tasks = set(a.tasks)
    a.cancel()
    await asyncio.sleep(0)          # the CancelledError is delivered; the run logic is now in its clean-up
    for _ in range(n_starts):
        a.start()
        await asyncio.sleep(0)
    for _ in range(cleanup_yields + 10):
        await asyncio.sleep(0)
    worst = a.max_active
    await a.stop()
    for _ in range(5):
        await asyncio.sleep(0)
    if worst > 1:
        return (f"{worst} invocations of the run logic were active at the same time (start() called {n_starts}x while the "
                f"cancelled invocation was still cleaning up for {cleanup_yields} loop iterations)")
    if any(not t.done() for t in first_tasks) or a.active:
        return "after stop() a task spawned by the first start() is still running"
    return None


async def stop_interrupted(n_starts_after):
    """stop() is cancelled by its caller (e.g. wait_for timed out) while the cancelled run logic is still cleaning up:
    the service still owns that task - it is still running, a start() must not run the logic a second time next to it,
    and a later stop() returns only when it has finished."""
    from frequenz.sdk.actor import Actor
    release = asyncio.Event()

    class Slow(Actor):
        def __init__(self):
            super().__init__(name="slow-stop")
            self.active = 0
            self.max_active = 0

        async def _run(self):
            self.active += 1
            self.max_active = max(self.max_active, self.active)
            try:
                await asyncio.Event().wait()
            except asyncio.CancelledError:
                await release.wait()                     # clean-up that takes as long as the script says
                raise
            finally:
                self.active -= 1

    a = Slow()
    a.start()
    for _ in range(3):
        await asyncio.sleep(0)
    stopper = asyncio.create_task(a.stop())
    for _ in range(5):
        await asyncio.sleep(0)           # stop() has cancelled the task and is waiting for it
    stopper.cancel()
    try:
        await stopper
    except asyncio.CancelledError:
        pass
    if a.active != 1:
        return f"harness: expected the run logic to be in its clean-up, active={a.active}"
    if not a.is_running:
        return "after an interrupted stop() the service says it is not running while its run logic is still cleaning up"
    for _ in range(n_starts_after):
        a.start()
        for _ in range(3):
            await asyncio.sleep(0)
    worst = a.max_active
    second = asyncio.create_task(a.stop())
    for _ in range(5):
        await asyncio.sleep(0)
    returned_early = second.done() and a.active > 0
    release.set()
    await second
    for _ in range(5):
        await asyncio.sleep(0)
    if worst > 1:
        return f"{worst} invocations of the run logic active at the same time after an interrupted stop() and start()"
    if returned_early:
        return "a second stop() returned while the run logic spawned by the first start() was still running"
    if a.active:
        return "the run logic is still active after stop() returned"
    return None


async def helper_probes():
    """The small helpers the life cycle rests on (frequenz.sdk._internal._asyncio, BackgroundService.stop):
    run_forever waits its interval - fractions of a second included - after a failure and not after a normal return;
    cancel_and_await swallows the cancellation it caused and nothing else; stop() surfaces the errors of the tasks
    that failed, without the CancelledErrors of the tasks it cancelled itself."""
    from unittest import mock
    from frequenz.sdk._internal import _asyncio as helpers
    from frequenz.sdk.actor import BackgroundService
    real_sleep = asyncio.sleep
    for interval in (timedelta(seconds=0.25), timedelta(seconds=1.5), timedelta(seconds=1), timedelta(days=1, seconds=2)):
        delays, calls = [], [0]

        async def fake_sleep(d, *a, **k):
            delays.append(d)
            await real_sleep(0)

        async def flaky():
            calls[0] += 1
            await real_sleep(0)
            if calls[0] in (1, 2, 4):
                raise RuntimeError("scripted failure")
            if calls[0] >= 6:
                await asyncio.Event().wait()

        with mock.patch.object(helpers.asyncio, "sleep", fake_sleep):
            t = asyncio.create_task(helpers.run_forever(flaky, interval))
            for _ in range(60):
                await real_sleep(0)
            t.cancel()
            try:
                await t
            except asyncio.CancelledError:
                pass
        if delays != [interval.total_seconds()] * 3 or calls[0] < 6:
            return (f"run_forever(interval={interval}): the callable failed on calls 1, 2 and 4 of {calls[0]}; delays slept: {delays}, "
                    f"demanded three times {interval.total_seconds()} s")
    # cancel_and_await
    async def dies_on_cancel():
        try:
            await asyncio.Event().wait()
        except asyncio.CancelledError:
            raise ValueError("clean-up failed") from None

    t = asyncio.create_task(dies_on_cancel())
    await real_sleep(0)
    try:
        await helpers.cancel_and_await(t)
        return "cancel_and_await swallowed the ValueError a task raised while it was being cancelled"
    except ValueError:
        pass
    t = asyncio.create_task(asyncio.Event().wait())
    await real_sleep(0)
    try:
        await helpers.cancel_and_await(t)
    except BaseException as e:  # pylint: disable=broad-except
        return f"cancel_and_await let {type(e).__name__} escape for a task that was simply cancelled"
    # stop(): one task fails, two are simply cancelled

    class Svc(BackgroundService):
        def start(self):
            async def fails():
                try:
                    await asyncio.Event().wait()
                except asyncio.CancelledError:
                    raise RuntimeError("failed while stopping") from None
            self._tasks.add(asyncio.create_task(fails()))
            self._tasks.add(asyncio.create_task(asyncio.Event().wait()))
            self._tasks.add(asyncio.create_task(asyncio.Event().wait()))

    svc = Svc(name="svc")
    svc.start()
    await real_sleep(0)
    try:
        await svc.stop()
        return "stop() returned normally although one of its tasks raised RuntimeError while being stopped"
    except BaseExceptionGroup as g:      # noqa: F821  (python >= 3.11)
        kinds = sorted(type(e).__name__ for e in g.exceptions)
        if kinds != ["RuntimeError"]:
            return (f"stop() raised a group with {kinds}: the CancelledErrors of the tasks it cancelled itself must not be "
                    f"reported, only the RuntimeError of the task that failed")
    return None


async def default_restart_limit():
    """An actor whose restart limit was never configured restarts after every failure (the documented default is
    'unlimited'): run logic failing twice, then returning, is invoked three times."""
    from frequenz.sdk.actor import Actor

    class Plain(Actor):
        RESTART_DELAY = timedelta(seconds=0)

        def __init__(self):
            super().__init__(name="plain")
            self.runs = 0

        async def _run(self):
            self.runs += 1
            await asyncio.sleep(0)
            if self.runs <= 2:
                raise RuntimeError("scripted failure")

    if "_restart_limit" in Plain.__dict__:
        return "harness: the probe class must not configure a limit"
    a = Plain()
    a.__dict__.pop("_restart_limit", None)
    # (the project's test fixtures overwrite Actor._restart_limit for the whole session; this process does not)
    a.start()
    try:
        await asyncio.wait_for(a.wait(), timeout=10.0)
    except BaseException as e:  # pylint: disable=broad-except
        return (f"an actor with no configured restart limit gave up after {a.runs} invocation(s) with {type(e).__name__} "
                f"(run logic: fail, fail, return - three invocations demanded)")
    if a.runs != 3:
        return f"an actor with no configured restart limit invoked its run logic {a.runs} times for: fail, fail, return (3 demanded)"
    return None


def run(req):
    logging.disable(logging.CRITICAL)
    t0 = time.time()
    plans = [(), ("raise",), ("raise", "raise"), ("raise", "raise", "raise"), ("return",), ("raise", "return")]
    cases = [(lim, p1, p2, d) for lim in (None, 0, 1, 2) for p1 in plans for p2 in (None, ("raise", "raise"), ("raise",))
             for d in (0.0, 0.05)]
    evaluations, failure, samples = 0, None, []
    for lim, p1, p2, d in cases:
        if d > 0 and (len(p1) > 2 or p2 is not None and lim is None):
            continue       # keep the real-time cases few
        evaluations += 1
        try:
            f = asyncio.run(scenario(lim, p1, p2, d))
        except Exception as e:  # pylint: disable=broad-except
            f = f"scenario raised {type(e).__name__}: {e}"
        if len(samples) < 2:
            samples.append({"restart_limit": lim, "first_start": p1, "second_start": p2, "restart_delay_s": d})
        if f:
            failure = (f, {"restart_limit": lim, "first_start": list(p1), "second_start": None if p2 is None else list(p2),
                           "restart_delay_s": d})
            break
    for cy, ns in itertools.product((1, 3, 8), (1, 2)):
        if failure:
            break
        evaluations += 1
        try:
            f = asyncio.run(start_while_winding_down(cy, ns))
        except Exception as e:  # pylint: disable=broad-except
            f = f"scenario raised {type(e).__name__}: {e}"
        if f:
            failure = (f, {"schedule": "start, cancel, start again during clean-up", "cleanup_loop_iterations": cy, "starts": ns})
    for ns in (0, 1, 2):
        if failure:
            break
        evaluations += 1
        try:
            f = asyncio.run(stop_interrupted(ns))
        except Exception as e:  # pylint: disable=broad-except
            f = f"scenario raised {type(e).__name__}: {e}"
        if f:
            failure = (f, {"schedule": "start, stop() cancelled while waiting, start x n, stop", "starts_after_interrupted_stop": ns})
    if not failure:
        evaluations += 1
        try:
            f = asyncio.run(default_restart_limit())
        except Exception as e:  # pylint: disable=broad-except
            f = f"scenario raised {type(e).__name__}: {e}"
        if f:
            failure = (f, {"scenario": "restart limit never configured; run logic: fail, fail, return"})
    if not failure:
        evaluations += 1
        try:
            f = asyncio.run(helper_probes())
        except Exception as e:  # pylint: disable=broad-except
            f = f"scenario raised {type(e).__name__}: {e}"
        if f:
            failure = (f, {"scenario": "run_forever / cancel_and_await / stop() with a failing task"})
    logging.disable(logging.NOTSET)
    out = {"status": "failed" if failure else "ok", "evaluations": evaluations, "distinct": evaluations, "known": {},
           "samples": samples, "wall_s": round(time.time() - t0, 1), "exhaustive": failure is None,
           "rule": "restart limit in {None, 0, 1, 2} x outcome plans of the run logic (up to 3 failures, then return) x an "
                   "optional second start() with its own plan x restart delay 0 / 50 ms (a subclass attribute); plus start / "
                   "cancel / start again (1-2x) while the cancelled run logic cleans up for 1/3/8 loop iterations; a stop() cancelled by its caller "
                   "while it waits, followed by 0-2 start() calls and a second stop(); an actor whose restart limit was never configured; the helpers run_forever (4 intervals), "
                   "cancel_and_await and stop() with one failing and two cancelled tasks; all distinct"}
    if failure:
        out["failure"] = {"clause": "restart policy on the real Actor", "detail": failure[0]}
        out["inputs"] = failure[1]
    return out
