"""Bounded stand-in for C07 on the error / housekeeping paths of the real Resampler: several series over real
channels on a simulated clock (async_solipsism loop + time_machine, as the project's own tests do), with scripted
incidents - a source that closes (the caller removes it and calls resample() again, the documented protocol that
ComponentMetricsResamplingActor follows), a sample without a value, a duplicate registration of a running source.

Checked: every series that stays registered and healthy receives exactly the grid points align_to + k * period for
consecutive k (none skipped, none twice) and all of them receive the SAME timestamps; resample() fails only in the tick
in which a source has closed, naming exactly that source.

BOUNDED (never counted as proved).  Runs under /venv/bin/python via native.runner (mode script).
"""
from __future__ import annotations

import asyncio
import itertools
import logging
import time
from datetime import datetime, timedelta, timezone

PERIOD = timedelta(seconds=2)
ALIGN_TO = datetime(2023, 12, 31, 23, 59, 59, tzinfo=timezone.utc)
CREATION = datetime(2024, 1, 1, 0, 0, 1, 750000, tzinfo=timezone.utc)
STEP = 0.5
RUN_FOR_S = 24.0


async def scenario(n_series, incidents):
    """incidents: list of (at_seconds, kind, series index): kind in 'close' / 'none' / 'readd'."""
    import time_machine
    from frequenz.channels import Broadcast
    from frequenz.quantities import Quantity
    from frequenz.sdk.timeseries import Sample
    from frequenz.sdk.timeseries._resampling import Resampler, ResamplerConfig, ResamplingError, SourceStoppedError
    with time_machine.travel(CREATION, tick=False) as clock:
        resampler = Resampler(ResamplerConfig(resampling_period=PERIOD, align_to=ALIGN_TO))
        chans = [Broadcast(name=f"s{i}") for i in range(n_series)]
        recvs = [c.new_receiver() for c in chans]
        names = [f"s{i}" for i in range(n_series)]
        got = {n: [] for n in names}
        got_dup = []
        closed, unexpected = set(), []

        def sink_for(store):
            async def sink(sample):
                store.append(sample.timestamp)
            return sink

        for i in range(n_series):
            if resampler.add_timeseries(names[i], recvs[i], sink_for(got[names[i]])) is not True:
                return f"add_timeseries({names[i]}) did not return True for a new source"

        async def drive():
            # the caller's protocol: a ResamplingError names the sources that failed; they are removed and resampling goes on
            while True:
                try:
                    await resampler.resample()
                    return
                except ResamplingError as err:
                    for source, exc in err.exceptions.items():
                        if isinstance(exc, SourceStoppedError) and source in {recvs[i] for i in closed}:
                            resampler.remove_timeseries(source)
                        else:
                            unexpected.append(f"resample() blamed {getattr(source, '_name', source)!r}: {type(exc).__name__}: {exc}")
                            resampler.remove_timeseries(source)
                except Exception as exc:  # pylint: disable=broad-except
                    unexpected.append(f"resample() raised {type(exc).__name__}: {exc}")
                    return

        task = asyncio.create_task(drive())
        senders = [c.new_sender() for c in chans]
        elapsed = 0.0
        pending = sorted(incidents)
        dup_result = None
        while elapsed < RUN_FOR_S:
            await asyncio.sleep(STEP)
            clock.shift(STEP)
            elapsed += STEP
            now = datetime.now(timezone.utc)
            while pending and pending[0][0] <= elapsed:
                _, kind, i = pending.pop(0)
                if kind == "close":
                    closed.add(i)
                    await chans[i].close()
                elif kind == "none" and i not in closed:
                    await senders[i].send(Sample(now, None))
                elif kind == "readd":
                    dup_result = resampler.add_timeseries(names[i], recvs[i], sink_for(got_dup))
            for i in range(n_series):
                if i not in closed:
                    await senders[i].send(Sample(now, Quantity(float(i + 1))))
        task.cancel()
        try:
            await task
        except asyncio.CancelledError:
            pass
        await resampler.stop()
    if unexpected:
        return unexpected[0]
    if dup_result not in (None, False):
        return "a duplicate add_timeseries() for a source that is being resampled returned True"
    if got_dup:
        return f"the sink of a refused duplicate registration received {len(got_dup)} samples"
    healthy = [names[i] for i in range(n_series) if i not in closed]
    ref = None
    for n in healthy:
        stamps = got[n]
        if len(stamps) < 8:
            return f"series {n} stayed registered and healthy but received only {len(stamps)} samples in {RUN_FOR_S} s"
        first = stamps[0]
        if (first - ALIGN_TO) % PERIOD:
            return f"series {n}: first timestamp {first.isoformat()} is not align_to + k * period"
        want = [first + PERIOD * k for k in range(len(stamps))]
        if stamps != want:
            ks = [int((s - ALIGN_TO) / PERIOD) for s in stamps]
            return f"series {n}: grid indices received {ks} - not consecutive (a tick skipped or repeated)"
        if ref is None:
            ref = (n, stamps)
        elif stamps != ref[1]:
            return (f"series {n} and {ref[0]} were resampled together but received different timestamps "
                    f"({len(stamps)} vs {len(ref[1])} samples)")
    return None


async def actor_scenario(n_metrics, close_at):
    """The real ComponentMetricsResamplingActor above the Resampler: n metrics subscribed through its request channel,
    their sources fed on the simulated clock; the source of metric 0 closes at `close_at` seconds (or never).  The
    metrics whose sources stay healthy must keep receiving consecutive grid points, the same for all of them."""
    import time_machine
    from frequenz.channels import Broadcast
    from frequenz.client.microgrid import ComponentMetricId
    from frequenz.quantities import Quantity
    from frequenz.sdk._internal._channels import ChannelRegistry
    from frequenz.sdk.microgrid._data_sourcing._component_metric_request import ComponentMetricRequest
    from frequenz.sdk.microgrid._resampling import ComponentMetricsResamplingActor
    from frequenz.sdk.timeseries import Sample
    from frequenz.sdk.timeseries._resampling import ResamplerConfig
    with time_machine.travel(CREATION, tick=False) as clock:
        registry = ChannelRegistry(name="resampling-actor")
        ds_chan, req_chan = Broadcast(name="data-sourcing-requests"), Broadcast(name="resampling-requests")
        ds_rx = ds_chan.new_receiver(limit=50)
        actor = ComponentMetricsResamplingActor(channel_registry=registry, data_sourcing_request_sender=ds_chan.new_sender(),
                                                resampling_request_receiver=req_chan.new_receiver(limit=50),
                                                config=ResamplerConfig(resampling_period=PERIOD, align_to=ALIGN_TO))
        actor.start()
        reqs = [ComponentMetricRequest("ns", 100 + i, ComponentMetricId.ACTIVE_POWER, None) for i in range(n_metrics)]
        outs = [registry.get_or_create(Sample[Quantity], r.get_channel_name()).new_receiver(limit=200) for r in reqs]
        rtx = req_chan.new_sender()
        for r in reqs:
            await rtx.send(r)
        await asyncio.sleep(0.01)
        sources = []
        for _ in reqs:
            sreq = await asyncio.wait_for(ds_rx.receive(), timeout=1.0)
            sources.append(registry.get_or_create(Sample[Quantity], sreq.get_channel_name()))
        senders = [c.new_sender() for c in sources]
        elapsed, closed = 0.0, False
        while elapsed < RUN_FOR_S:
            await asyncio.sleep(STEP)
            clock.shift(STEP)
            elapsed += STEP
            now = datetime.now(timezone.utc)
            if close_at is not None and not closed and elapsed >= close_at:
                closed = True
                await sources[0].close()
            for i, tx in enumerate(senders):
                if not (closed and i == 0):
                    await tx.send(Sample(now, Quantity(float(i + 1))))
        await actor.stop()
        # stop() returns only after every task the actor spawned has finished (C10): nothing of the SDK keeps running
        for _ in range(3):
            await asyncio.sleep(0)
        me = asyncio.current_task()
        left = []
        for t in asyncio.all_tasks():
            if t is me or t.done():
                continue
            code = getattr(t.get_coro(), "cr_code", None)
            # (the tasks the actor itself creates: its run loop, the subscription reader and Resampler.resample(); the
            # per-source receive tasks belong to the Resampler object and are not what C10 speaks about - see DESIGN 7.6)
            if code is not None and "/frequenz/sdk/" in code.co_filename and code.co_name in (
                    "_run_loop", "_run", "_process_resampling_requests", "resample"):
                left.append(f"{code.co_qualname if hasattr(code, 'co_qualname') else code.co_name} ({code.co_filename.split('/frequenz/sdk/')[-1]})")
        if left:
            return f"after ComponentMetricsResamplingActor.stop() returned, tasks it spawned are still running: {sorted(left)}"
        # read what the resampled streams carried: close each channel, then read its receiver to the end
        from frequenz.channels import ReceiverStoppedError
        collected = []
        for r, rx in zip(reqs, outs):
            await registry.get_or_create(Sample[Quantity], r.get_channel_name()).close()
            stamps = []
            while True:
                try:
                    stamps.append((await rx.receive()).timestamp)
                except ReceiverStoppedError:
                    break
            collected.append(stamps)
    ref = None
    for i in range(n_metrics):
        if closed and i == 0:
            continue
        stamps = collected[i]
        if len(stamps) < 8:
            return (f"metric {i} stayed healthy but its resampled stream carried only {len(stamps)} samples in {RUN_FOR_S} s "
                    f"(source of metric 0 closed at {close_at} s)")
        want = [stamps[0] + PERIOD * k for k in range(len(stamps))]
        if stamps != want or (stamps[0] - ALIGN_TO) % PERIOD:
            ks = [int((t - ALIGN_TO) / PERIOD) for t in stamps]
            return f"metric {i}: grid indices received {ks} - not consecutive grid points"
        if ref is None:
            ref = stamps
        elif stamps != ref:
            return f"metric {i} received {len(stamps)} grid points, another healthy metric {len(ref)}: not the same timestamps"
    return None


def run(req):
    import async_solipsism
    logging.disable(logging.CRITICAL)
    t0 = time.time()
    evaluations, failure, samples = 0, None, []
    cases = [(2, []), (3, [])]
    for n in (2, 3):
        for at in (5.0, 8.0, 9.5):
            cases.append((n, [(at, "close", 0)]))
            cases.append((n, [(at, "close", n - 1)]))
            cases.append((n, [(at, "none", 0)]))
            cases.append((n, [(at, "none", n - 1), (at + 4.0, "none", 0)]))
            cases.append((n, [(at, "readd", 0)]))
            cases.append((n, [(at, "readd", n - 1), (at + 3.0, "close", 0)]))
        cases.append((n, [(6.0, "close", 0), (12.5, "close", 1)] if n == 3 else [(6.0, "close", 0), (12.5, "none", 1)]))
    for n_series, incidents in cases:
        evaluations += 1
        try:
            loop = async_solipsism.EventLoop()
            try:
                f = loop.run_until_complete(scenario(n_series, incidents))
            finally:
                loop.close()
        except Exception as e:  # pylint: disable=broad-except
            f = f"scenario raised {type(e).__name__}: {e}"
        if len(samples) < 2:
            samples.append({"series": n_series, "incidents (at s, kind, series)": incidents})
        if f:
            failure = (f, {"series": n_series, "incidents (at s, kind, series)": [list(i) for i in incidents]})
            break
    for n_metrics, close_at in ((2, None), (2, 7.0), (3, 10.5)):
        if failure:
            break
        evaluations += 1
        try:
            loop = async_solipsism.EventLoop()
            try:
                f = loop.run_until_complete(actor_scenario(n_metrics, close_at))
            finally:
                loop.close()
        except Exception as e:  # pylint: disable=broad-except
            f = f"actor scenario raised {type(e).__name__}: {e}"
        if f:
            failure = (f, {"actor": "ComponentMetricsResamplingActor", "metrics": n_metrics, "source_of_metric_0_closes_at_s": close_at})
    logging.disable(logging.NOTSET)
    out = {"status": "failed" if failure else "ok", "evaluations": evaluations, "distinct": evaluations, "known": {},
           "samples": samples, "wall_s": round(time.time() - t0, 1), "exhaustive": failure is None,
           "rule": "2-3 series on a simulated clock (period 2 s, align_to off the creation time), 24 s each: no incident; one source "
                   "closing (first / last series) at 3 moments with the caller removing it and resampling on; samples without a "
                   "value; a duplicate registration of a running source; combinations of two incidents; then the real ComponentMetricsResamplingActor "
                   "with 2-3 metrics, one source closing never / at 7 s / at 10.5 s; all distinct"}
    if failure:
        out["failure"] = {"clause": "healthy series keep receiving the same consecutive grid points", "detail": failure[0]}
        out["inputs"] = failure[1]
    return out
