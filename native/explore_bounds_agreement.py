"""Bounded stand-in for C17 end to end, with HISTORY: the real BatteryManager (real component graph, real caches fed
through channels by a scripted API client) next to the real PowerBoundsCalculator, on the same component data, through
a sequence of working-set changes and data updates.  The pool status tracker is a stub whose working set the script
sets (as the project's own tests do).

After every event: (1) the inclusion bounds the pool advertises equal the ones the distributor enforces (to float
tolerance - the two sides add the same numbers in different orders); (2) every non-zero power on / just inside the
advertised bounds (outside the advertised exclusion zone) is admitted by the distributor's request check with both
adjust_power settings - i.e. _get_distribution does not answer OutOfBounds; (3) such a power covers the sum of the
groups' minimum powers.

Topologies: 1-3 groups; one battery per inverter, two batteries behind one inverter, one battery behind two inverters;
non-integer bounds.  BOUNDED (never counted as proved).  Runs under /venv/bin/python via native.runner (mode script).
"""
from __future__ import annotations

import asyncio
import logging
import random
import time
import types
from datetime import datetime, timedelta, timezone
from unittest import mock

NOW = datetime.now(tz=timezone.utc)
REL = 1e-9


def bat(cid, incl, excl):
    from frequenz.client.microgrid import BatteryComponentState, BatteryData, BatteryRelayState
    return BatteryData(component_id=cid, timestamp=NOW, soc=50.0, soc_lower_bound=10.0, soc_upper_bound=90.0, capacity=10_000.0,
                       power_inclusion_lower_bound=-incl, power_exclusion_lower_bound=-excl, power_exclusion_upper_bound=excl,
                       power_inclusion_upper_bound=incl, temperature=25.0, relay_state=BatteryRelayState.CLOSED,
                       component_state=BatteryComponentState.IDLE, errors=[])


def inv(cid, incl, excl):
    from frequenz.client.microgrid import InverterComponentState, InverterData
    nan3 = (float("nan"),) * 3
    return InverterData(component_id=cid, timestamp=NOW, active_power=0.0, active_power_per_phase=nan3, reactive_power=0.0,
                        reactive_power_per_phase=nan3, current_per_phase=nan3, voltage_per_phase=nan3,
                        active_power_inclusion_lower_bound=-incl, active_power_exclusion_lower_bound=-excl,
                        active_power_exclusion_upper_bound=excl, active_power_inclusion_upper_bound=incl, frequency=50.0,
                        component_state=InverterComponentState.IDLE, errors=[])


class StubTracker:
    """Stands in for ComponentPoolStatusTracker: the script decides which batteries are working."""
    working: set = set()

    def __init__(self, *args, **kwargs):
        pass

    def start(self):
        return None

    async def stop(self):
        return None

    def get_working_components(self, components):
        return set(components) & set(StubTracker.working)

    async def update_status(self, succeeded_components, failed_components):
        return None


async def scenario(inv_bats, values, history, known=None):
    """inv_bats: inverter id -> battery ids (a battery listed under two inverters has both); values: component id ->
    (inclusion magnitude, exclusion magnitude); history: list of ('work', set) / ('data', cid, incl, excl) events."""
    from frequenz.channels import Broadcast
    from frequenz.client.microgrid import Component, ComponentCategory, Connection, InverterType
    from frequenz.quantities import Power
    from frequenz.sdk.microgrid import connection_manager
    from frequenz.sdk.microgrid._data_sourcing.microgrid_api_source import _BatteryDataMethods, _InverterDataMethods
    from frequenz.sdk.microgrid._power_distributing import Request
    from frequenz.sdk.microgrid._power_distributing._component_managers import _battery_manager as bm_module
    from frequenz.sdk.microgrid._power_distributing.result import OutOfBounds
    from frequenz.sdk.microgrid.component_graph import _MicrogridComponentGraph
    from frequenz.sdk.timeseries.battery_pool._component_metrics import ComponentMetricsData
    from frequenz.sdk.timeseries.battery_pool._metric_calculator import PowerBoundsCalculator
    components = {Component(1, ComponentCategory.GRID), Component(2, ComponentCategory.METER)}
    connections = {Connection(1, 2)}
    battery_ids, inverter_ids = set(), set(inv_bats)
    for iid, bids in inv_bats.items():
        components.add(Component(iid, ComponentCategory.INVERTER, InverterType.BATTERY))
        connections.add(Connection(2, iid))
        for b in bids:
            components.add(Component(b, ComponentCategory.BATTERY))
            connections.add(Connection(iid, b))
            battery_ids.add(b)
    chans = {c: Broadcast(name=f"c{c}", resend_latest=True) for c in battery_ids | inverter_ids}
    latest = {}

    class Api:
        async def battery_data(self, cid, maxsize=50):
            return chans[cid].new_receiver(limit=maxsize)

        async def inverter_data(self, cid, maxsize=50):
            return chans[cid].new_receiver(limit=maxsize)

    conn = types.SimpleNamespace(api_client=Api(), component_graph=_MicrogridComponentGraph(components, connections))
    status, results = Broadcast(name="status"), Broadcast(name="results")
    failures = []
    known = {} if known is None else known

    async def settle():
        for _ in range(40):
            await asyncio.sleep(0)

    async def send(datum):
        latest[datum.component_id] = datum
        await chans[datum.component_id].new_sender().send(datum)
        await settle()

    with mock.patch.object(connection_manager, "get", lambda: conn), \
            mock.patch.object(bm_module, "ComponentPoolStatusTracker", StubTracker):
        manager = bm_module.BatteryManager(status.new_sender(), results.new_sender(), timedelta(seconds=1.0))
        calculator = PowerBoundsCalculator(battery_ids)
        StubTracker.working = set(battery_ids)
        await manager.start()
        await settle()
        for cid, (incl, excl) in values.items():
            await send(bat(cid, incl, excl) if cid in battery_ids else inv(cid, incl, excl))

        def advertised():
            metrics = {}
            for cid, data in latest.items():
                table, wanted = ((_BatteryDataMethods, calculator.battery_metrics.get(cid, [])) if cid in battery_ids
                                 else (_InverterDataMethods, calculator.inverter_metrics.get(cid, [])))
                metrics[cid] = ComponentMetricsData(cid, data.timestamp, {mid: table[mid](data) for mid in wanted})
            return calculator.calculate(metrics, set(StubTracker.working))

        async def judge(stage):
            adv = advertised()
            if adv is None or adv.inclusion_bounds is None or adv.exclusion_bounds is None:
                return None
            incl = (adv.inclusion_bounds.lower.as_watts(), adv.inclusion_bounds.upper.as_watts())
            excl = (adv.exclusion_bounds.lower.as_watts(), adv.exclusion_bounds.upper.as_watts())
            pairs = manager._get_components_data(battery_ids)  # pylint: disable=protected-access
            if not pairs:
                return f"{stage}: the pool advertises inclusion {incl} but the distributor has no usable battery group"
            enf = manager._get_bounds(pairs)  # pylint: disable=protected-access
            scale = max(1.0, abs(incl[0]), abs(incl[1]))
            if abs(enf.inclusion_lower - incl[0]) > REL * scale or abs(enf.inclusion_upper - incl[1]) > REL * scale:
                return (f"{stage}: advertised inclusion bounds {incl}, enforced ({enf.inclusion_lower}, {enf.inclusion_upper}) "
                        f"(working batteries {sorted(StubTracker.working)})")
            probes = set()
            for lo, hi, sign in ((excl[1], incl[1], 1.0), (-excl[0], -incl[0], -1.0)):
                if hi <= 0:
                    continue
                for p in (lo, lo + 0.5, (lo + hi) / 2, hi - 0.5, hi * (1 - 1e-12)):
                    if p > 1e-6 and lo <= p <= hi:
                        probes.add(sign * p)
            for watts in sorted(probes):
                for adjust in (True, False):
                    res = await manager._get_distribution(  # pylint: disable=protected-access
                        Request(power=Power.from_watts(watts), component_ids=set(battery_ids), adjust_power=adjust))
                    if isinstance(res, OutOfBounds):
                        # known finding C17-float-rounding-at-the-edge: both sides add the same numbers, but in different
                        # orders / with different summation routines - an edge may differ in the last bits, and a power
                        # exactly on the advertised edge then falls a rounding error inside the enforced zone.  Only that:
                        # a power the enforced bounds admit once they are widened by the float tolerance.
                        eps = REL * scale
                        within = enf.inclusion_lower - eps <= watts <= enf.inclusion_upper + eps
                        outside = watts <= enf.exclusion_lower + eps or watts >= enf.exclusion_upper - eps
                        if within and outside:
                            known.setdefault("C17-float-rounding-at-the-edge",
                                             f"{watts!r} W is on the advertised bound (inclusion {incl}, exclusion {excl}) and is answered "
                                             f"OutOfBounds: the enforced bounds are {res.bounds}")
                            continue
                        return (f"{stage}: {watts} W lies within the advertised bounds (inclusion {incl}, exclusion {excl}) but the "
                                f"distributor (adjust_power={adjust}) answers OutOfBounds with {res.bounds} "
                                f"(working batteries {sorted(StubTracker.working)})")
                algo = manager._distribution_algorithm  # pylint: disable=protected-access
                _, ex = algo._inclusion_exclusion_bounds(pairs, supply=watts < 0.0)  # pylint: disable=protected-access
                ratios, _ = algo._compute_battery_availability_ratio(  # pylint: disable=protected-access
                    pairs, {p.battery.component_id: 1.0 for p in pairs}, ex)
                need = sum(r.min_power for r in ratios)
                if abs(watts) < need - REL * scale:
                    return (f"{stage}: {watts} W is advertised as allowed but is below the sum of the groups' minimum powers "
                            f"({need} W)")
            return None

        f = await judge("initially")
        if f:
            failures.append(f)
        for k, ev in enumerate(history):
            if failures:
                break
            if ev[0] == "work":
                StubTracker.working = set(ev[1])
            else:
                _, cid, incl, excl = ev
                await send(bat(cid, incl, excl) if cid in battery_ids else inv(cid, incl, excl))
            f = await judge(f"after event #{k + 1} {ev}")
            if f:
                failures.append(f)
        await manager.stop()
    return failures[0] if failures else None


TOPOLOGIES = [
    {8: [9], 18: [19]},
    {8: [9, 19]},                       # two batteries behind one inverter
    {8: [9], 7: [9], 18: [19]},         # one battery behind two inverters + a plain pair
    {8: [9], 18: [19], 28: [29]},
    {8: [9, 19], 28: [29], 38: [39]},
]


def run(req):
    logging.disable(logging.CRITICAL)
    tier = req.get("tier", "quick")
    rng = random.Random(int(req.get("seed", 0)))
    budget = 12 if tier == "quick" else 90
    t0 = time.time()
    evaluations, distinct, samples, failure = 0, set(), [], None
    known = {}
    while failure is None and time.time() - t0 < budget:
        inv_bats = rng.choice(TOPOLOGIES)
        bats = sorted({b for bs in inv_bats.values() for b in bs})
        values = {}
        for c in bats + sorted(inv_bats):
            incl = rng.choice([500.0, 1000.0, 1200.5, 1900.9, 2000.0, 0.1 * rng.randint(3000, 30000)])
            excl = rng.choice([0.0, 0.0, 50.0, 100.0, 180.7, 0.1 * rng.randint(0, 2500)])
            values[c] = (incl, min(excl, incl))
        history = []
        for _ in range(rng.randint(1, 5)):
            if rng.random() < 0.6:
                k = rng.randint(1, len(bats))
                history.append(("work", tuple(sorted(rng.sample(bats, k)))))
            else:
                c = rng.choice(bats + sorted(inv_bats))
                incl = rng.choice([400.0, 800.0, 1600.25, 0.1 * rng.randint(3000, 30000)])
                history.append(("data", c, incl, min(rng.choice([0.0, 75.0, 120.3, 300.0]), incl)))
        evaluations += 1
        distinct.add((repr(inv_bats), repr(values), repr(history)))
        try:
            f = asyncio.run(scenario(inv_bats, values, history, known))
        except Exception as e:  # pylint: disable=broad-except
            f = f"scenario raised {type(e).__name__}: {e}"
        if len(samples) < 2:
            samples.append({"topology": {str(k): v for k, v in inv_bats.items()}, "bounds (inclusion, exclusion)": {str(k): v for k, v in values.items()},
                            "history": [list(h) for h in history]})
        if f:
            failure = (f, {"topology": {str(k): v for k, v in inv_bats.items()},
                           "bounds (inclusion, exclusion)": {str(k): v for k, v in values.items()}, "history": [list(h) for h in history]})
    logging.disable(logging.NOTSET)
    out = {"status": "failed" if failure else "ok", "evaluations": evaluations, "distinct": len(distinct), "known": known,
           "samples": samples, "wall_s": round(time.time() - t0, 1),
           "rule": "seeded random: 5 topologies (1-3 groups; 1:1, two batteries behind one inverter, one battery behind two "
                   "inverters), symmetric non-integer inclusion / exclusion bounds per component, histories of 1-5 events (working set "
                   "changes, data updates); after every event the advertised bounds are probed on / just inside every edge with both "
                   "adjust_power settings; distinct = distinct (topology, data, history) triples"}
    if failure:
        out["failure"] = {"clause": "advertised = enforced inclusion; advertised powers admitted; above the groups' minimum powers", "detail": failure[0]}
        out["inputs"] = failure[1]
    return out
