"""Witness for the known finding C19-closed-primary-misaligns-other-terms: formula P + Q, P has a fallback; the
primary stream of P is closed after step 1.  The round in which the closure is noticed is dropped after it has consumed
a sample of Q, and from then on P is fed with the fallback's latest sample whatever its step: every later sample pairs
Q of one step with the fallback's sum of another."""
import asyncio
import logging


def run(req):
    from native import explore_fallback as ef
    logging.disable(logging.CRITICAL)
    known = {}
    try:
        f = asyncio.run(ef.scenario("VVVVVVVVVV", 1, 0, 0, True, known))
    finally:
        logging.disable(logging.NOTSET)
    if f:
        return {"status": "failed", "clause": "unclassified", "detail": f}
    k = "C19-closed-primary-misaligns-other-terms"
    if k in known:
        return {"status": "failed", "clause": k, "detail": known[k]}
    return {"status": "ok"}
