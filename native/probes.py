"""Cheap native checks of the assumed library models (trusted base).  A failing probe means
the checker's assumptions do not match the installed libraries: exit 3, never a violation."""
from __future__ import annotations

import bisect
import dataclasses
import math
from datetime import timedelta


def run():
    results = {}

    def probe(name, fn):
        try:
            results[name] = bool(fn())
        except Exception as e:  # pylint: disable=broad-except
            results[name] = f"error: {type(e).__name__}: {e}"

    from frequenz.quantities import Power, Quantity
    probe("Quantity has no __bool__/__len__ (always truthy)",
          lambda: not hasattr(Quantity, "__bool__") and not hasattr(Quantity, "__len__") and bool(Power.zero()))
    probe("Power arithmetic is arithmetic on base_value",
          lambda: (Power.from_watts(3.0) - Power.from_watts(1.0)).base_value == 2.0
          and (Power.from_watts(3.0) + Power.from_watts(1.0)).as_watts() == 4.0
          and (-Power.from_watts(3.0)).base_value == -3.0 and abs(Power.from_watts(-3.0)).base_value == 3.0)
    probe("Power.isclose(zero) is exact equality with zero (abs_tol defaults to 0)",
          lambda: not Power.from_watts(1e-300).isclose(Power.zero()) and Power.from_watts(0.0).isclose(Power.zero()))
    probe("Power == compares base values; != other types", lambda: Power.from_watts(1.0) == Power.from_watts(1.0)
          and Power.from_watts(1.0) != 1.0)
    probe("max/min: first argument wins ties and incomparables",
          lambda: max(1.0, math.nan) == 1.0 and min(1.0, math.nan) == 1.0 and math.isnan(max(math.nan, 1.0)))
    probe("bisect.bisect is bisect_right", lambda: bisect.bisect([1, 2, 2, 3], 2) == 3 and bisect.bisect_left([1, 2, 2, 3], 2) == 1)
    probe("timedelta(0) is falsy; td % td floor semantics",
          lambda: not timedelta(0) and timedelta(seconds=-1) % timedelta(seconds=3) == timedelta(seconds=2))
    probe("pow(0.0, 0) == 1.0", lambda: pow(0.0, 0) == 1.0 and pow(0.0, 0.5) == 0.0)
    probe("round half to even", lambda: round(0.5) == 0 and round(1.5) == 2 and round(2.5) == 2)
    probe("math.isclose default", lambda: math.isclose(1.0, 1.0 + 1e-10) and not math.isclose(0.0, 1e-12)
          and math.isclose(0.0, 1e-12, abs_tol=1e-9))

    def generic_except():
        from typing import Any, Generic, TypeVar
        T = TypeVar("T")

        class E(Exception, Generic[T]):
            pass
        try:
            try:
                raise E()
            except E[Any]:
                return False
        except TypeError:
            return True
    probe("`except Cls[T]` raises TypeError when an exception reaches the clause", generic_except)

    from frequenz.sdk.microgrid._power_managing._base_classes import Proposal
    from frequenz.sdk.timeseries._base_types import Bounds

    def proposal_eq():
        mk = lambda sid, prio, p: Proposal(source_id=sid, preferred_power=p, bounds=Bounds(None, None),
                                           component_ids=frozenset({1}), priority=prio, creation_time=0.0,
                                           set_operating_point=False)
        a, b = mk("a", 1, None), mk("a", 1, Power.from_watts(5.0))
        return a == b and hash(a) == hash(b) and len({a, b}) == 1 and mk("a", 1, None) < mk("b", 1, None)
    # (Proposal's __eq__/__hash__/__lt__ are repository code, not a library model: they are proved by the lemmas
    #  proposal_eq_is_key_equality / proposal_hash_respects_eq / proposal_lt_strict_total_order_on_keys)
    probe("dataclass match_args order", lambda: Bounds.__match_args__ == ("lower", "upper"))
    probe("sorted is stable and uses __lt__", lambda: sorted([(1, "b"), (0, "z"), (1, "a")], key=lambda t: t[0])
          == [(0, "z"), (1, "b"), (1, "a")])
    # declared member lists of library enums (used as finite datatypes by the verifier)
    import importlib
    from pyvc import spec
    for mod in ("pd_status",):
        try:
            importlib.import_module("contracts." + mod)
        except Exception as e:  # pylint: disable=broad-except
            results[f"import contracts.{mod}"] = f"error: {e}"
    for qual, members in spec.EXT_ENUMS.items():
        def same(qual=qual, members=members):
            modname, _, name = qual[4:].rpartition(".")
            cls = getattr(importlib.import_module(modname), name)
            return [m.name for m in cls] == list(members)
        probe(f"enum members of {qual[4:]}", same)
    return results
