"""Bounded stand-in for C09: the real OrderedRingBuffer against an abstract sliding time-indexed map.

Exhaustive over all update histories of length <= L on a small scope (capacities, slot range, sub-slot
offsets, valid / None / NaN values, list and numpy containers), then seeded random longer histories.
After every update the representation invariant of the gap list and the observable queries are compared
with the abstract map; window queries (by datetime, aligned and unaligned, and by index) are compared too.

This is a BOUNDED check (never counted as proved).  Runs under /venv/bin/python via native.runner (mode script).
"""
from __future__ import annotations

import itertools
import math
import random
import time
from datetime import datetime, timedelta, timezone

T0 = datetime(2024, 1, 1, tzinfo=timezone.utc)
PERIOD = timedelta(seconds=1)
PERIODS = [timedelta(seconds=0.1), timedelta(seconds=0.3), timedelta(seconds=0.05), timedelta(seconds=2), timedelta(seconds=0.7)]


class Model:
    """slot -> value (float) or None (missing) for slots in [newest - cap + 1, newest]."""

    def __init__(self, cap):
        self.cap = cap
        self.newest = None
        self.slots = {}

    @staticmethod
    def slot_of(ts):
        us = (ts - T0) // timedelta(microseconds=1)          # exact integer arithmetic, whatever the period
        per = PERIOD // timedelta(microseconds=1)
        fl, rem = divmod(us, per)
        if 2 * rem > per or (2 * rem == per and fl % 2 != 0):
            fl += 1
        return fl

    def update(self, ts, value):
        """-> 'rejected' or 'ok'."""
        s = self.slot_of(ts)
        if self.newest is not None and s < self.newest - self.cap + 1:
            return "rejected"
        if self.newest is None or s > self.newest:
            self.newest = s
        lo = self.newest - self.cap + 1
        self.slots = {k: v for k, v in self.slots.items() if k >= lo}
        self.slots[s] = value if (value is not None and not math.isnan(value)) else None
        return "ok"

    def valid_slots(self):
        return sorted(k for k, v in self.slots.items() if v is not None)

    def get(self, slot):
        lo = self.newest - self.cap + 1 if self.newest is not None else 0
        if self.newest is None or slot < lo or slot > self.newest:
            return None
        return self.slots.get(slot)


def ts_of(slot, offset=0.0):
    """slot on the grid plus `offset` periods."""
    return T0 + slot * PERIOD + offset * PERIOD


def make_buffer(cap, container):
    import numpy as np
    from frequenz.sdk.timeseries._ringbuffer import OrderedRingBuffer
    buf = [0.0] * cap if container == "list" else np.empty(shape=(cap,), dtype=float)
    return OrderedRingBuffer(buf, PERIOD, T0)


def sample(ts, value):
    from frequenz.quantities import Quantity
    from frequenz.sdk.timeseries import Sample
    return Sample(ts, None if value is None else Quantity(value))


def check_state(rb, m, hist):
    """Compare observable state with the model; returns a failure description or None."""
    valid = m.valid_slots()
    # gap list representation invariant
    # (an empty gap [t, t) contains no slot and is harmless: tolerated; inverted or overlapping ones are not)
    gaps = [g for g in rb.gaps if g.start != g.end]
    for i, g in enumerate(gaps):
        if not g.start < g.end:
            return f"gap {i} inverted: {g}"
        if i + 1 < len(gaps) and not g.end <= gaps[i + 1].start:
            return f"gaps not sorted / disjoint: {gaps}"
    if m.newest is None:
        return None
    lo = m.newest - m.cap + 1
    for s in range(lo, m.newest + 1):
        missing = rb.is_missing(ts_of(s))
        if missing != (m.get(s) is None):
            return f"slot {s}: is_missing={missing} but model value={m.get(s)}"
    if rb.count_valid() != len(valid):
        return f"count_valid()={rb.count_valid()} but {len(valid)} valid slots"
    exp_oldest = ts_of(valid[0]) if valid else None
    if rb.oldest_timestamp != exp_oldest:
        return f"oldest_timestamp={rb.oldest_timestamp} expected {exp_oldest}"
    if (rb.newest_timestamp is None) != (not valid):
        return f"newest_timestamp={rb.newest_timestamp} with {len(valid)} valid slots"
    if valid and rb.time_bound_newest != ts_of(m.newest):
        return f"time_bound_newest={rb.time_bound_newest} expected slot {m.newest}"
    return None


def known_window_finding(start, end):
    """Known finding C09-window-same-slot: start < end but both normalise to the same slot."""
    return start < end and Model.slot_of(start) == Model.slot_of(end)


def check_windows(rb, m, offsets, known, FILL=-777.0):
    """Datetime window queries over the covered range (aligned and unaligned)."""
    valid = m.valid_slots()
    if not valid:
        return None
    lo_slot, hi_slot = valid[0], m.newest
    slots = range(lo_slot - 1, hi_slot + 3)
    for a, b in itertools.product(slots, slots):
        for oa, ob in offsets:
            start, end = ts_of(a, oa), ts_of(b, ob)
            try:
                res = list(rb.window(start, end, fill_value=FILL))
            except Exception as e:  # pylint: disable=broad-except
                return f"window({a}+{oa}, {b}+{ob}) raised {type(e).__name__}: {e}"
            cs = max(start, ts_of(lo_slot))
            ce = min(end, ts_of(hi_slot + 1))
            if cs >= ce:
                expect = []
            else:
                sa, sb = Model.slot_of(cs), Model.slot_of(ce)
                expect = [m.get(s) if m.get(s) is not None else FILL for s in range(sa, sb)]
            # never more slots than the query spans
            span = max(0, math.ceil((end - start) / PERIOD)) + 1
            if res != expect or len(res) > span:
                if known_window_finding(cs, ce) and len(res) > 0:
                    known["C09-window-same-slot"] = (f"window({cs.isoformat()}, {ce.isoformat()}) on capacity {m.cap}: both "
                                                    f"ends normalise to slot {Model.slot_of(cs)}, got {len(res)} values")
                    continue
                return (f"window(slot {a}+{oa}s, slot {b}+{ob}s) = {res} expected {expect} "
                        f"(valid slots {valid}, newest {m.newest}, cap {m.cap})")
    # by index
    n = hi_slot - lo_slot + 1
    for i, j in itertools.product([None, 0, 1, -1, n, n + 2, -n - 1], repeat=2):
        try:
            res = list(rb.window(i, j, fill_value=FILL))
        except Exception as e:  # pylint: disable=broad-except
            return f"window({i}, {j}) raised {type(e).__name__}: {e}"
        covered = [m.get(s) if m.get(s) is not None else FILL for s in range(lo_slot, hi_slot + 1)]
        expect = covered[slice(i, j)]
        if res != expect:
            return f"window({i}, {j}) = {res} expected {expect} (covered {covered})"
    return None


def roundtrip(rb):
    """dump the buffer to disk and load it again (serialization.py): the loaded buffer must carry on identically."""
    import os
    import tempfile
    from frequenz.sdk.timeseries._ringbuffer import serialization
    fd, path = tempfile.mkstemp(suffix=".rb")
    os.close(fd)
    try:
        serialization.dump(rb, path)
        return serialization.load(path)
    finally:
        os.unlink(path)


def run_history(cap, container, hist, window_offsets, known, roundtrip_at=None):
    rb = make_buffer(cap, container)
    m = Model(cap)
    for step, (slot, off, val) in enumerate(hist):
        if roundtrip_at == step:
            try:
                rb = roundtrip(rb)
            except Exception as e:  # pylint: disable=broad-except
                return f"dump/load before update #{step} raised {type(e).__name__}: {e}"
            if rb is None:
                return f"load() returned None before update #{step}"
        ts = ts_of(slot, off)
        exp = m.update(ts, val)
        try:
            rb.update(sample(ts, val))
            got = "ok"
        except IndexError:
            got = "rejected"
        except Exception as e:  # pylint: disable=broad-except
            return f"update #{step} raised {type(e).__name__}: {e}"
        if got != exp:
            return f"update #{step} ({slot}+{off}s, {val}): buffer {got}, model {exp}"
        f = check_state(rb, m, hist)
        if f:
            return f"after update #{step}: {f}"
    f = check_windows(rb, m, window_offsets, known)
    if f is None:
        # a fill value of (plain) zero is a fill value like any other
        f = check_windows(rb, m, window_offsets[:1], known, FILL=0.0)
        if f:
            f = "(fill_value=0.0) " + f
    return f


def run(req):
    tier = req.get("tier", "quick")
    seed = int(req.get("seed", 0))
    budget = 25 if tier == "quick" else 240
    t0 = time.time()
    known = {}
    evaluations = 0
    distinct = set()
    values = [1.0, None, float("nan")]
    offsets = [0.0, 0.25, -0.5, 0.5, 0.499999]
    win_offsets = [(0.0, 0.0), (0.3, 0.0), (0.0, 0.3), (0.2, 0.4), (-0.4, 0.45)]
    caps = [1, 2, 3]
    L = 3 if tier == "quick" else 4
    slot_range = range(0, 6)
    samples = []
    # exhaustive small scope
    for cap in caps:
        for container in ("list", "numpy"):
            events = [(s, o, v) for s in slot_range for o in (0.0, 0.5, -0.25) for v in values]
            for n in range(1, L + 1):
                for hist in itertools.product(events, repeat=n):
                    if time.time() - t0 > budget * 0.6:
                        break
                    evaluations += 1
                    distinct.add((cap, container, hist))
                    f = run_history(cap, container, hist, win_offsets[:3], known)
                    if f:
                        return result(False, f, cap, container, hist, evaluations, distinct, known, samples, t0, exhaustive=False)
                    if len(samples) < 2 and n == L:
                        samples.append({"capacity": cap, "container": container,
                                        "history": [[s, o, str(v)] for s, o, v in hist]})
    # a buffer dumped while still EMPTY and loaded again is an empty buffer: it accepts its first update like a new one
    for cap, container in itertools.product((1, 3), ("list", "numpy")):
        hist = [(2, offsets[0], 1.0), (3, offsets[0], 2.0), (1, offsets[0], 3.0)]
        evaluations += 1
        distinct.add((cap, container, tuple(hist), 0))
        f = run_history(cap, container, hist, win_offsets[:3], known, roundtrip_at=0)
        if f:
            return result(False, "(with a dump/load round trip before update #0) " + f, cap, container, hist, evaluations,
                          distinct, known, samples, t0, exhaustive=False)
    # seeded random longer histories
    rng = random.Random(seed)
    while time.time() - t0 < budget:
        cap = rng.choice([1, 2, 3, 4, 7])
        container = rng.choice(["list", "numpy"])
        n = rng.randint(3, 40)
        base = 0
        hist = []
        for _ in range(n):
            base += rng.choice([0, 0, 1, 1, 1, 2, cap, cap + 3, -1, -2])
            hist.append((max(0, base), rng.choice(offsets), rng.choice(values + [2.5, -3.0])))
        evaluations += 1
        # every third history: the buffer is dumped to disk and loaded again somewhere in the middle
        rt = rng.randrange(0, n) if (evaluations % 3 == 0 and n > 1) else None
        # "every sampling period": half of the histories run on a period that is not 1 s (and not a binary fraction)
        global PERIOD  # pylint: disable=global-statement
        PERIOD = rng.choice(PERIODS) if evaluations % 2 == 0 else timedelta(seconds=1)
        distinct.add((cap, container, tuple(hist), rt, PERIOD))
        try:
            f = run_history(cap, container, hist, win_offsets, known, roundtrip_at=rt)
        finally:
            used_period, PERIOD = PERIOD, timedelta(seconds=1)
        if f:
            f = f"(sampling period {used_period.total_seconds()} s) " + f
            if rt is not None:
                f = f"(with a dump/load round trip before update #{rt}) " + f
            return result(False, f, cap, container, hist, evaluations, distinct, known, samples, t0, exhaustive=False)
    return result(True, None, None, None, None, evaluations, distinct, known, samples, t0, exhaustive=False)


def result(ok, failure, cap, container, hist, evaluations, distinct, known, samples, t0, exhaustive):
    out = {"status": "ok" if ok else "failed", "evaluations": evaluations, "distinct": len(distinct),
           "known": known, "samples": samples, "wall_s": round(time.time() - t0, 1),
           "rule": "update histories on a small scope (capacities 1-3, slots 0-5, offsets 0/+0.5/-0.25 period, values "
                   "valid/None/NaN, list and numpy; all histories up to length L) then seeded random histories up to "
                   "length 40 on capacities up to 7, every third one with a dump/load round trip in the middle; distinct = distinct (capacity, container, history) triples; every "
                   "history is non-trivial (at least one update)"}
    if not ok:
        out["failure"] = {"clause": "abstract sliding-map oracle", "detail": failure}
        out["inputs"] = {"capacity": cap, "container": container, "history": [[s, o, str(v)] for s, o, v in hist]}
    return out
