"""JSON (counter-model values) -> real objects of the repository, by contract shape.

Runs under /venv/bin/python (the interpreter that has the repository's dependencies).
"""
from __future__ import annotations

import collections
import importlib
import math
import random
from datetime import datetime, timedelta, timezone
from fractions import Fraction

EPOCH = datetime(2024, 1, 1, tzinfo=timezone.utc)


def load_class(qual):
    if qual.startswith("ext:"):
        mod, _, name = qual[4:].rpartition(".")
        return getattr(importlib.import_module(mod), name)
    mod, name = qual.split(":")
    return getattr(importlib.import_module(mod), name)


class Recorder:
    """Stand-in for an external object / scripted collaborator: records every method call and applies
    the scripted model of the method (effects, exceptions, result), mirroring pyvc's ExtObj model."""

    def __init__(self, shape=None, rng=None, opaque=None, **fields):
        self.calls = []
        self.results = []
        self._shape = shape
        self._rng = rng or random.Random(0)
        self._opaque = opaque or {}
        self._env = {}          # names the scripted expressions may use (set by the harness: sidecar globals, ghosts)
        self.__dict__.update(fields)

    def __getattr__(self, name):
        if name.startswith("__"):
            raise AttributeError(name)
        return self._method(name)

    def __getitem__(self, key):
        return self._method("__getitem__")(key)

    def _method(self, name):
        spec = (self._shape.methods if self._shape is not None else {}).get(name, {})

        def run(*args, **kwargs):
            self.calls.append((name, tuple(args)))
            import types
            env = dict(self._env)
            env.update({"self": self, "args": tuple(args), "kwargs": kwargs,
                        "pre": types.SimpleNamespace(**{k: v for k, v in self.__dict__.items() if not k.startswith("_")})})
            if spec.get("fresh") is not None:
                env["fresh"] = to_native(spec["fresh"], gen_json(spec["fresh"], self._rng), self._opaque)
            if spec.get("raise_before_effects"):
                for exc in spec.get("raises", []):
                    if self._rng.random() < 0.15:
                        raise _exception_by_name(exc)
            new_vals = {f: eval(e, dict(env)) for f, e in spec.get("effects", {}).items()}  # pylint: disable=eval-used
            for f, v in new_vals.items():
                setattr(self, f, v)
            for exc in ([] if spec.get("raise_before_effects") else spec.get("raises", [])):
                if self._rng.random() < 0.15:
                    raise _exception_by_name(exc)
            rs = spec.get("returns")
            if rs is None:
                res = None
            elif isinstance(rs, str):
                res = eval(rs, dict(env))  # pylint: disable=eval-used
            else:
                res = to_native(rs, gen_json(rs, self._rng), self._opaque)
            self.results.append(res)
            if "last_result" in self.__dict__:
                self.last_result = res
            return res
        if spec.get("is_async"):
            async def arun(*args, **kwargs):
                return run(*args, **kwargs)
            return arun
        return run

    def __call__(self, *args, **kwargs):
        return self._method("__call__")(*args, **kwargs)

    def __aiter__(self):
        return self._items()

    async def _items(self):
        if self._shape is None or self._shape.stream is None:
            return
        for _ in range(self._rng.randint(0, 3)):
            yield to_native(self._shape.stream, gen_json(self._shape.stream, self._rng), self._opaque)


class FakeTask:
    """A finished (or pending) asyncio.Task stand-in with a scripted outcome."""

    def __init__(self, done, outcome):
        self._done = done
        self._outcome = outcome
        self.callbacks = []
        self.cancel_requested = False

    def done(self):
        return self._done

    def cancelled(self):
        return self._done and self._outcome == "CancelledError"

    def result(self):
        import asyncio
        if not self._done:
            raise asyncio.InvalidStateError()
        if self._outcome == "returned":
            return None
        raise _exception_by_name(self._outcome)

    def exception(self):
        import asyncio
        if not self._done:
            raise asyncio.InvalidStateError()
        if self._outcome == "returned":
            return None
        if self._outcome == "CancelledError":
            raise asyncio.CancelledError()
        return _exception_by_name(self._outcome)

    def add_done_callback(self, cb):
        self.callbacks.append(cb)

    def cancel(self):
        self.cancel_requested = True
        return not self._done

    def get_name(self):
        return "fake-task"


def _exception_by_name(name):
    import asyncio
    import builtins
    if name == "CancelledError":
        return asyncio.CancelledError()
    cls = getattr(builtins, name, None)
    if cls is not None:
        return cls(f"scripted {name}")
    try:
        if name in ("ReceiverStoppedError", "ReceiverError"):
            import frequenz.channels as fc
            return getattr(fc, name)(None) if name == "ReceiverStoppedError" else fc.ReceiverError("scripted", None)
        if name in ("ApiClientError", "OperationOutOfRange"):
            import frequenz.client.base.exception as fe
            cls2 = getattr(fe, name)
            obj = cls2.__new__(cls2)
            Exception.__init__(obj, f"scripted {name}")
            return obj
    except Exception:  # pylint: disable=broad-except
        pass
    return type(name, (Exception,), {})(f"scripted {name}")


def num(j):
    if isinstance(j, dict):
        if "q" in j:
            return j["q"][0] / j["q"][1]
        if "fp" in j:
            s = j["fp"]
            try:
                return float(s)
            except ValueError:
                return float(Fraction(s))
    return j


def qty(unit, v):
    import frequenz.quantities as fq
    cls = getattr(fq, unit)
    return cls._new(float(v))  # pylint: disable=protected-access


def strid(n):
    return f"id{int(n):09d}" if n >= 0 else f"id-{-int(n):09d}"


def to_native(shape, j, opaque=None):
    """Build the real object described by `shape` from its JSON form."""
    opaque = opaque or {}
    k = shape.kind
    if k == "opt":
        return None if j is None else to_native(shape.inner, j, opaque)
    if k == "none":
        return None
    if k in ("real", "fp"):
        return float(num(j))
    if k == "int":
        return int(j)
    if k == "bool":
        return bool(j)
    if k == "strid":
        return strid(j)
    if k == "time":
        us = j["time_us"] if isinstance(j, dict) else j
        return EPOCH + timedelta(microseconds=int(us))
    if k == "delta":
        us = j["delta_us"] if isinstance(j, dict) else j
        return timedelta(microseconds=int(us))
    if k == "qty":
        v = j["v"] if isinstance(j, dict) and "v" in j else j
        return qty(shape.unit, num(v))
    if k == "rec":
        cls = load_class(shape.cls)
        fields = j["fields"] if isinstance(j, dict) and "fields" in j else j
        kwargs = {f: to_native(s, fields.get(f), opaque) for f, s in shape.fields.items()}
        if shape.cls.startswith("ext:"):
            # library record: only the fields the contract names are populated
            obj = object.__new__(cls)
            for f, v in kwargs.items():
                object.__setattr__(obj, f, v)
            return obj
        try:
            return cls(**kwargs)
        except Exception:  # pylint: disable=broad-except
            # constructor validation (e.g. __post_init__) rejected a combination the contract allows:
            # populate the declared fields directly
            obj = object.__new__(cls)
            for f, v in kwargs.items():
                object.__setattr__(obj, f, v)
            return obj
    if k == "extobj":
        fields = j["fields"] if isinstance(j, dict) and "fields" in j else (j or {})
        seed = fields.get("__seed__", 0) if isinstance(fields, dict) else 0
        return Recorder(shape=shape, rng=random.Random(seed), opaque=opaque,
                        **{f: to_native(s, fields.get(f), opaque) for f, s in shape.fields.items()})
    if k == "obj":
        cls = load_class(shape.cls)
        obj = object.__new__(cls)
        fields = j["fields"] if isinstance(j, dict) and "fields" in j else (j or {})
        for f, s in shape.fields.items():
            setattr(obj, f, to_native(s, fields.get(f), opaque))
        return obj
    if k == "tup":
        items = j["tuple"] if isinstance(j, dict) else j
        return tuple(to_native(s, x, opaque) for s, x in zip(shape.items, items))
    if k == "fixedlist":
        items = j.get("list") or j.get("set") or j.get("tuple") if isinstance(j, dict) else j
        vals = [to_native(s, x, opaque) for s, x in zip(shape.items, items)]
        if shape.container == "tuple":
            return tuple(vals)
        if shape.container == "set":
            return set(vals)
        return vals
    if k == "seq":
        items = j["list"] if isinstance(j, dict) else j
        vals = [to_native(shape.elem, x, opaque) for x in items]
        if shape.container == "deque":
            ml = shape.maxlen
            if hasattr(ml, "kind"):
                ml = j.get("maxlen") if isinstance(j, dict) else None
                ml = int(ml) if ml is not None else max(1, len(vals))
            return collections.deque(vals, maxlen=ml)
        if shape.container == "tuple":
            return tuple(vals)
        return vals
    if k == "set":
        items = (j.get("set") or j.get("list") or []) if isinstance(j, dict) else j
        vals = [to_native(shape.elem, x, opaque) for x in items]
        return frozenset(vals) if shape.frozen else set(vals)
    if k in ("setseq", "keyset"):
        items = j["list"] if isinstance(j, dict) else j
        return {to_native(shape.elem, x, opaque) for x in items}
    if k == "map":
        items = j["dict"] if isinstance(j, dict) and "dict" in j else []
        return {to_native(shape.key, kj, opaque): to_native(shape.val, vj, opaque) for kj, vj in items}
    if k == "dictopt":
        items = j["dict"] if isinstance(j, dict) and "dict" in j else []
        out = {}
        for kj, vj in items:
            for key, vshape in shape.entries.items():
                if _key_matches(key, kj):
                    out[native_key(key)] = to_native(vshape, vj, opaque)
        return out
    if k == "enum":
        cls = load_class(shape.cls)
        return cls[j["member"] if isinstance(j, dict) else j]
    if k == "const":
        return _native_const(shape.value)
    if k == "oneof":
        idx = j.get("index", 0) if isinstance(j, dict) else 0
        return _native_const(shape.values[idx % len(shape.values)])
    if k == "task":
        f = j.get("fields", j) if isinstance(j, dict) else {}
        oc = f.get("outcome")
        oc = oc.get("member") if isinstance(oc, dict) else (oc or "returned")
        return FakeTask(bool(f.get("done", True)), oc)
    if k == "subset":
        items = (j.get("set") or j.get("list") or j.get("frozenset") or []) if isinstance(j, dict) else (j or [])
        return frozenset(items) if shape.frozen else set(items)
    if k == "opaque":
        f = opaque.get(shape.tag)
        if f is None:
            return object()    # never inspected by the code under contract
        return f() if callable(f) else f
    raise NotImplementedError(f"native binding for shape {k}")


# ------------------------------------------------------------------------------------
# random generation by shape (for the native search around a counter-model and for the
# bounded stand-ins)
# ------------------------------------------------------------------------------------

LATTICE = [-3.0, -2.0, -1.0, -0.5, 0.0, 0.5, 1.0, 2.0, 3.0]


def gen_json(shape, rng: random.Random, seeds=None, size=3):
    """Random JSON value of `shape`; `seeds` = numeric values from a counter-model to prefer."""
    seeds = seeds or []
    k = shape.kind

    def real():
        pool = LATTICE + [float(s) for s in seeds]
        r = rng.random()
        if r < 0.6:
            return rng.choice(pool)
        if r < 0.8:
            return rng.choice(pool) + rng.choice(pool)
        return round(rng.uniform(-5, 5), 2)

    if k == "opt":
        return None if rng.random() < 0.3 else gen_json(shape.inner, rng, seeds, size)
    if k == "none":
        return None
    if k == "real":
        return real()
    if k == "fp":
        r = rng.random()
        if r < 0.15:
            return {"fp": rng.choice(["nan", "inf", "-inf", "-0.0"])}
        return real()
    if k == "int":
        return rng.randint(-3, 6)
    if k == "strid":
        return rng.randint(0, 4)
    if k == "bool":
        return rng.random() < 0.5
    if k == "time":
        return {"time_us": rng.randint(0, 40) * 250000}
    if k == "delta":
        return {"delta_us": rng.randint(0, 20) * 250000}
    if k == "qty":
        return {"qty": shape.unit, "v": real()}
    if k == "extobj":
        d = {f: gen_json(s, rng, seeds, size) for f, s in shape.fields.items()}
        d["__seed__"] = rng.randint(0, 10**6)
        return {"fields": d}
    if k in ("rec", "obj"):
        return {"fields": {f: gen_json(s, rng, seeds, size) for f, s in shape.fields.items()}}
    if k == "tup":
        return {"tuple": [gen_json(s, rng, seeds, size) for s in shape.items]}
    if k == "fixedlist":
        return {"list": [gen_json(s, rng, seeds, size) for s in shape.items]}
    if k == "set":
        return {"set": sorted({rng.randint(0, 5) for _ in range(rng.randint(0, 4))})}
    if k == "map":
        keys = sorted({rng.randint(0, 5) for _ in range(rng.randint(0, 4))})
        return {"dict": [[kk, gen_json(shape.val, rng, seeds, size)] for kk in keys]}
    if k == "dictopt":
        return {"dict": [[_key_json(key), gen_json(vs, rng, seeds, size)] for key, vs in shape.entries.items()
                         if key in shape.always or rng.random() < 0.6]}
    if k in ("seq", "setseq", "keyset"):
        n = rng.randint(0, size)
        out = {"list": [gen_json(shape.elem, rng, seeds, size) for _ in range(n)]}
        if k == "seq" and hasattr(getattr(shape, "maxlen", None), "kind"):
            out["maxlen"] = n + rng.choice([0, 0, 1, 2])
            if out["maxlen"] == 0:
                out["maxlen"] = 1
        if k == "seq" and getattr(shape, "sorted_by", None):
            key = shape.sorted_by
            out["list"].sort(key=lambda e: _sort_key(e, key))
        return out
    if k == "enum":
        cls = load_class(shape.cls)
        members = shape.members or [m.name for m in cls]
        return {"member": rng.choice(list(members))}
    if k == "subset":
        return {"set": [e for e in shape.elems if rng.random() < 0.7]}
    if k == "oneof":
        return {"index": rng.randrange(len(shape.values))}
    if k == "task":
        return {"fields": {"done": rng.random() < 0.8, "outcome": rng.choice(shape.outcomes)}}
    if k in ("const", "opaque"):
        return None
    raise NotImplementedError(f"generator for shape {k}")


def collect_numbers(j, out):
    if isinstance(j, dict):
        if "q" in j and isinstance(j["q"], list):
            out.append(j["q"][0] / j["q"][1])
            return
        for v in j.values():
            collect_numbers(v, out)
    elif isinstance(j, list):
        for v in j:
            collect_numbers(v, out)
    elif isinstance(j, (int, float)) and not isinstance(j, bool):
        if abs(j) < 1e6:
            out.append(float(j))


def _key_json(key):
    if isinstance(key, frozenset):
        return {"frozenset": sorted(key)}
    if hasattr(key, "member") and hasattr(key, "cls"):
        return {"enum": key.cls, "member": key.member}
    return key


def native_key(key):
    if hasattr(key, "member") and hasattr(key, "cls"):
        return load_class(key.cls)[key.member]
    return key


def _key_matches(key, kj):
    return _key_json(key) == kj


def _sort_key(e, key):
    v = e["fields"][key] if isinstance(e, dict) and "fields" in e else e
    if isinstance(v, dict):
        for kk in ("time_us", "delta_us"):
            if kk in v:
                return v[kk]
        return num(v)
    return v


def _native_const(v):
    if hasattr(v, "member") and hasattr(v, "cls"):
        return native_key(v)
    if isinstance(v, dict):
        return {_native_const(k): _native_const(x) for k, x in v.items()}
    if isinstance(v, list):
        return [_native_const(x) for x in v]
    if isinstance(v, tuple):
        return tuple(_native_const(x) for x in v)
    return v
