"""Native side: run the REAL function on concrete inputs and evaluate the contract in CPython.

Invoked by the checks as   /venv/bin/python -m native.runner   with a JSON request on stdin.
Modes: replay (one counter-model), search (seeded random inputs by shape: used to
concretise counter-models of mid-loop states and as the bounded stand-in), probe.
"""
from __future__ import annotations

import ast
import asyncio
import copy
import importlib
import inspect
import json
import random
import sys
import time
import traceback


def setup_paths(repo):
    src = repo.rstrip("/") + "/src"
    sys.path[:] = [p for p in sys.path if not p.rstrip("/").endswith("/repo/src")]
    sys.path.insert(0, src)
    # frequenz is a namespace package: make sure the sdk portion comes from `repo`
    import frequenz  # noqa
    paths = list(frequenz.__path__)
    want = src + "/frequenz"
    new = [want] + [p for p in paths if p != want and not p.endswith("/src/frequenz")]
    try:
        frequenz.__path__[:] = new
    except TypeError:
        frequenz.__path__ = new


class OldRewriter(ast.NodeTransformer):
    """old(e) -> __old_k (pre-evaluated), or __old_k(i, ..) when e mentions variables bound by
    enclosing lambdas;  implies(a, b) -> ((not a) or b)  (lazy);  ite -> conditional expression."""

    def __init__(self):
        self.olds = []          # (expr, [lambda variable names used])
        self.bound = []

    def visit_Lambda(self, node):
        names = [a.arg for a in node.args.args]
        self.bound.append(names)
        try:
            node.body = self.visit(node.body)
        finally:
            self.bound.pop()
        return node

    def visit_Call(self, node):
        if isinstance(node.func, ast.Name) and node.func.id == "old" and len(node.args) == 1:
            k = len(self.olds)
            inner = node.args[0]
            bound = [n for names in self.bound for n in names]
            used = [n for n in bound if any(isinstance(x, ast.Name) and x.id == n for x in ast.walk(inner))]
            self.olds.append((inner, used))
            ref = ast.Name(id=f"__old_{k}", ctx=ast.Load())
            if used:
                ref = ast.Call(func=ref, args=[ast.Name(id=n, ctx=ast.Load()) for n in used], keywords=[])
            return ast.copy_location(ref, node)
        self.generic_visit(node)
        if isinstance(node.func, ast.Name) and node.func.id == "implies" and len(node.args) == 2:
            new = ast.BoolOp(op=ast.Or(), values=[ast.UnaryOp(op=ast.Not(), operand=node.args[0]), node.args[1]])
            return ast.copy_location(new, node)
        if isinstance(node.func, ast.Name) and node.func.id == "ite" and len(node.args) == 3:
            new = ast.IfExp(test=node.args[0], body=node.args[1], orelse=node.args[2])
            return ast.copy_location(new, node)
        return node


class Clause:
    def __init__(self, name, text):
        self.name = name
        self.text = text
        rw = OldRewriter()
        tree = rw.visit(ast.parse(text.strip(), mode="eval"))
        ast.fix_missing_locations(tree)
        self.code = compile(tree, f"<clause {name}>", "eval")
        self.olds = []
        for i, (o, used) in enumerate(rw.olds):
            body = o
            if used:
                body = ast.Lambda(args=ast.arguments(posonlyargs=[], args=[ast.arg(arg=n) for n in used], kwonlyargs=[],
                                                     kw_defaults=[], defaults=[]), body=o)
            e = ast.Expression(body=body)
            ast.fix_missing_locations(e)
            self.olds.append((compile(e, f"<old {name}#{i}>", "eval"), bool(used)))

    def pre(self, ns):
        vals = {}
        snap = None
        for i, (c, is_fn) in enumerate(self.olds):
            if is_fn:
                # evaluated later, against a deep copy of the pre-state
                if snap is None:
                    snap = dict(ns)
                    for k, v in list(ns.items()):
                        if k.startswith("__") or callable(v) or isinstance(v, type(ast)):
                            continue
                        try:
                            snap[k] = copy.deepcopy(v)
                        except Exception:  # pylint: disable=broad-except
                            pass
                vals[f"__old_{i}"] = eval(c, snap)  # pylint: disable=eval-used
                continue
            v = eval(c, ns)  # pylint: disable=eval-used
            try:
                v = copy.deepcopy(v)
            except Exception:  # pylint: disable=broad-except
                pass
            vals[f"__old_{i}"] = v
        return vals

    def post(self, ns, pre_vals):
        ns2 = dict(ns)
        ns2.update(pre_vals)
        return eval(self.code, ns2)  # pylint: disable=eval-used


def _give_env(objs, ns, depth=0, seen=None):
    """Scripted collaborators evaluate their effect/return expressions in the sidecar's namespace."""
    from native.bindings import Recorder
    seen = seen if seen is not None else set()
    for o in objs:
        if id(o) in seen or depth > 6:
            continue
        seen.add(id(o))
        if isinstance(o, Recorder):
            o._env = ns  # pylint: disable=protected-access
        if isinstance(o, dict):
            _give_env(list(o.values()), ns, depth + 1, seen)
        elif isinstance(o, (list, tuple, set, frozenset)):
            _give_env(list(o), ns, depth + 1, seen)
        elif hasattr(o, "__dict__"):
            _give_env([v for k, v in vars(o).items() if not k.startswith("__")], ns, depth + 1, seen)


def resolve_function(target):
    modname, qual = target.split(":")
    for pre in ("frequenz.sdk.microgrid", "frequenz.sdk.timeseries"):
        # the package has import cycles that only resolve when entered through its public packages
        try:
            importlib.import_module(pre)
        except Exception:  # pylint: disable=broad-except
            pass
    mod = importlib.import_module(modname)
    obj = mod
    for part in qual.split("."):
        obj = getattr(obj, part)
    if isinstance(obj, property):
        obj = obj.fget          # a property under contract: its getter
    return obj


class Harness:
    def __init__(self, req):
        self.req = req
        setup_paths(req.get("repo", "/repo"))
        self.cmod = importlib.import_module(req["contract_module"])
        from pyvc import spec
        self.spec = spec
        self.contract = spec.CONTRACTS[req["target"]]
        self.fn = resolve_function(self.contract.target)
        c = self.contract
        self.requires = [Clause("requires." + n, t) for n, t in c.requires.items()]
        self.ensures = [Clause("ensures." + n, t) for n, t in c.ensures.items()]
        self.raises = {k: (Clause("raises." + k, v) if isinstance(v, str) else v) for k, v in c.raises.items()}
        self.on_raise = [Clause("ensures_on_raise." + n, t) for n, t in getattr(c, "ensures_on_raise", {}).items()]
        self.opaque = getattr(c, "native_opaque", {})
        self.setup = getattr(c, "native_setup", None)
        # known-finding input regimes: (clause suffixes or None, predicate clause)
        self.regimes = [(rg.get("obligations"), Clause("regime." + rg.get("id", "?"), rg["predicate"]))
                        for rg in req.get("regimes", []) if rg.get("kind") == "input"]
        self.params = list(inspect.signature(self.fn).parameters)

    def build(self, inputs, ghost):
        from native import bindings
        c = self.contract
        ns = dict(vars(self.cmod))
        args = {}
        for p in self.params:
            if p == "self":
                shape = c.self_shape
            else:
                shape = c.shapes.get(p)
            if shape is None:
                raise KeyError(f"no shape for {p}")
            if shape.kind == "alias":
                continue
            args[p] = bindings.to_native(shape, inputs.get(p), self.opaque)
        gh = {}
        for g, shape in c.ghost.items():
            if ghost is not None and g in ghost:
                gh[g] = bindings.to_native(shape, ghost[g], self.opaque)
        for g, j in (ghost or {}).items():
            if g.startswith("now_") and j is not None:
                gh[g] = bindings.to_native(self.spec.Time, j, self.opaque)
        for p in self.params:
            shape = c.self_shape if p == "self" else c.shapes.get(p)
            if shape is not None and shape.kind == "alias":
                args[p] = eval(shape.expr, dict(ns, **args))  # pylint: disable=eval-used
        ns.update(args)
        ns.update(gh)
        for an, aexpr in getattr(c, "aliases", {}).items():
            ns[an] = eval(aexpr, ns)  # pylint: disable=eval-used
        _give_env(list(args.values()) + list(gh.values()), ns)
        # ghost sequences: G(0)=init, G(k+1)=step[prev, elem, k] folded over the real sequence
        for gname, gs in getattr(c, "ghost_seqs", {}).items():
            over = list(eval(gs["over"], ns))  # pylint: disable=eval-used
            vals = [eval(gs["init"], ns)]  # pylint: disable=eval-used
            fn = (lambda vals: (lambda i: vals[i]))(vals)
            ns[gname] = fn
            step = compile(gs["step"], f"<ghost {gname}>", "eval")
            for k, elem in enumerate(over):
                ns2 = dict(ns)
                ns2.update(prev=vals[k], elem=elem, k=k)
                vals.append(eval(step, ns2))  # pylint: disable=eval-used
        return args, ns

    def run_case(self, inputs, ghost=None, ghost_required=True):
        """-> dict(status=ok|precondition|failed, clause=..., detail=...)."""
        c = self.contract
        try:
            args, ns = self.build(inputs, ghost)
        except Exception as e:  # pylint: disable=broad-except
            return {"status": "unbuildable", "detail": f"{type(e).__name__}: {e}"}
        missing_ghost = [g for g in c.ghost if g not in ns or g not in (ghost or {})]
        try:
            for cl in self.requires:
                if not cl.post(ns, cl.pre(ns)):
                    return {"status": "precondition", "clause": cl.name}
        except Exception as e:  # pylint: disable=broad-except
            return {"status": "precondition", "detail": f"{type(e).__name__}: {e}"}
        skip_clauses = set()
        for suffixes, rcl in getattr(self, "regimes", []):
            try:
                inside = bool(rcl.post(ns, rcl.pre(ns)))
            except Exception:  # pylint: disable=broad-except
                inside = False
            if inside:
                if not suffixes:
                    return {"status": "precondition", "clause": rcl.name}      # the whole call lies in a listed regime
                skip_clauses.update(suffixes)
        pres = {}
        try:
            for cl in self.ensures:
                pres[cl.name] = cl.pre(ns)
            for cl in list(self.raises.values()) + self.on_raise:
                if isinstance(cl, Clause):
                    pres[cl.name] = cl.pre(ns)
        except Exception as e:  # pylint: disable=broad-except
            return {"status": "spec_error", "clause": "old()", "detail": f"{type(e).__name__}: {e}"}
        if self.setup is not None:
            self.setup(args)
        unpatch_clock = self.patch_clock(ns)
        undo = []
        for tgt, expr in getattr(c, "externals", {}).items():
            modname, fname = tgt.split(":")
            mod = importlib.import_module(modname)
            while "." in fname:                       # Class.method: patch the attribute of the class
                head, fname = fname.split(".", 1)
                mod = getattr(mod, head)
            if expr.startswith("call "):
                # a scripted factory: the ghost object itself is called with the original arguments
                val = eval(expr[5:], ns)  # pylint: disable=eval-used
                undo.append((mod, fname, getattr(mod, fname)))
                setattr(mod, fname, val)
                continue
            val = eval(expr, ns)  # pylint: disable=eval-used
            undo.append((mod, fname, getattr(mod, fname)))
            setattr(mod, fname, (lambda v: (lambda *a, **k: v))(val))

        def unpatch():
            unpatch_clock()
            for mod, fname, orig in undo:
                setattr(mod, fname, orig)
        ghost_init_names = {st.split("=")[0].strip() for st in getattr(c, "ghost_init", [])}

        def judge_ensures(result):
            ns["result"] = result
            for cl in self.ensures:
                names = {n.id for n in ast.walk(ast.parse(cl.text.strip(), mode="eval")) if isinstance(n, ast.Name)}
                if names & set(missing_ghost):
                    continue
                if names & ghost_init_names:
                    continue            # speaks about a log only the verifier's models keep (sleeps, wait_timeouts)
                if any(cl.name.endswith(sfx) for sfx in skip_clauses):
                    continue            # this input lies in a listed known finding's regime for this clause
                try:
                    ok = cl.post(ns, pres[cl.name])
                except (TypeError, AttributeError, NameError, KeyError, IndexError) as e:
                    # the clause no longer fits the shape of what the function returns / keeps (a changed private
                    # signature, a renamed field): the contract is out of date for this code - not a violation
                    return {"status": "spec_error", "clause": cl.name, "detail": f"clause raised {type(e).__name__}: {e}",
                            "result": repr(result)[:400]}
                except Exception as e:  # pylint: disable=broad-except
                    return {"status": "failed", "clause": cl.name, "detail": f"clause raised {type(e).__name__}: {e}",
                            "result": repr(result)[:400]}
                if not ok:
                    return {"status": "failed", "clause": cl.name, "result": repr(result)[:400]}
            return {"status": "ok", "result": repr(result)[:200]}
        exc = None
        result = None
        verdict = {}
        async def _call():
            # inside a running event loop (the code under test may create tasks); tasks left
            # over are cancelled when the loop closes
            r = self.fn(**args)
            if inspect.iscoroutine(r):
                r = await r
            # the postconditions are judged while the event loop is still running: asyncio.run() cancels the tasks
            # the function created when it closes the loop, which must not be mistaken for the function's doing
            verdict["v"] = judge_ensures(r)
            return r
        try:
            result = asyncio.run(_call())
        except BaseException as e:  # pylint: disable=broad-except
            exc = e
        finally:
            unpatch()
        if exc is not None:
            for cname, cl in self.raises.items():
                if any(k.__name__ == cname for k in type(exc).__mro__):
                    ok = True
                    if isinstance(cl, Clause):
                        ns["result"] = None
                        ok = bool(cl.post(ns, pres[cl.name]))
                    if ok:
                        for oc in self.on_raise:
                            ns["result"] = None
                            try:
                                if not oc.post(ns, pres[oc.name]):
                                    return {"status": "failed", "clause": oc.name, "detail": f"after raising {cname}"}
                            except Exception as e2:  # pylint: disable=broad-except
                                return {"status": "failed", "clause": oc.name,
                                        "detail": f"clause raised {type(e2).__name__}: {e2}"}
                        return {"status": "ok", "outcome": f"raised {cname} (allowed)"}
                    return {"status": "failed", "clause": f"raises.{cname}",
                            "detail": f"raised {type(exc).__name__} outside its allowed condition"}
            tb = traceback.extract_tb(exc.__traceback__)
            if isinstance(exc, (TypeError, AttributeError)) and ("Recorder" in str(exc) or "FakeTask" in str(exc) or (
                    tb and "native/bindings.py" in tb[-1].filename)):
                # the stand-in object lacks something the code now uses: a limit of this harness, not of the code
                return {"status": "spec_error", "clause": "harness", "detail": f"{type(exc).__name__}: {exc}"}
            return {"status": "failed", "clause": "no_unexpected_exception",
                    "detail": f"{type(exc).__name__}: {exc}"}
        return verdict["v"]

    def patch_clock(self, ns):
        """datetime.now() inside the function under test returns the ghost instants now_0, now_1, .."""
        import datetime as _dt
        import re
        c = self.contract
        texts = list(c.ensures.values()) + [v for v in c.raises.values() if isinstance(v, str)] + \
            list(getattr(c, "ensures_on_raise", {}).values())
        used = sorted({int(m) for t in texts for m in re.findall(r"\bnow_(\d+)\b", t)})
        if not used:
            return lambda: None
        from native import bindings
        nows = []
        for k in range(max(used) + 1):
            v = ns.get(f"now_{k}")
            if v is None:
                v = (nows[-1] if nows else bindings.EPOCH) + _dt.timedelta(seconds=1)
                ns[f"now_{k}"] = v
            nows.append(v)
        state = {"i": 0}

        class FakeDatetime(_dt.datetime):
            @classmethod
            def now(cls, tz=None):  # pylint: disable=arguments-differ
                i = min(state["i"], len(nows) - 1)
                state["i"] += 1
                return nows[i]
        mod = sys.modules[self.fn.__module__]
        had = getattr(mod, "datetime", None)
        if had is None:
            return lambda: None
        setattr(mod, "datetime", FakeDatetime)
        return lambda: setattr(mod, "datetime", had)

    # ------------------------------------------------------------------
    def search(self, seed, budget_s, max_cases, model=None, size=3):
        from native import bindings
        c = self.contract
        rng = random.Random(seed)
        seeds = []
        if model:
            bindings.collect_numbers(model, seeds)
        seeds = sorted(set(seeds))[:40]
        t0 = time.time()
        n = ok = pre = 0
        distinct = set()
        samples = []
        for p in self.params:
            if (c.self_shape if p == "self" else c.shapes.get(p)) is None:
                # the function has a parameter the contract does not know (its signature changed): nothing can be run
                return {"found": False, "evaluations": 0, "generated": 0, "rejected_by_requires": 0, "distinct": 0,
                        "samples": [], "wall_s": 0.0, "note": f"no shape declared for parameter {p}: contract out of date"}
        while n < max_cases and time.time() - t0 < budget_s:
            n += 1
            inputs = {}
            for p in self.params:
                shape = c.self_shape if p == "self" else c.shapes.get(p)
                if shape.kind == "alias":
                    continue
                inputs[p] = bindings.gen_json(shape, rng, seeds, size)
            ghost = {g: bindings.gen_json(s, rng, seeds, size) for g, s in c.ghost.items()}
            t_us = 0
            for kk in range(4):
                t_us += rng.choice([0, 250000, 500000, 1000000, 3000000])
                ghost[f"now_{kk}"] = {"time_us": t_us}
            r = self.run_case(inputs, ghost)
            if r["status"] == "precondition" or r["status"] == "unbuildable":
                pre += 1
                continue
            ok += 1
            key = json.dumps(inputs, sort_keys=True, default=str)
            distinct.add(hash(key))
            if len(samples) < 3:
                samples.append({"inputs": inputs, "outcome": r.get("result") or r.get("outcome")})
            if r["status"] == "failed":
                return {"found": True, "inputs": inputs, "ghost": ghost, "failure": r, "evaluations": ok,
                        "generated": n, "distinct": len(distinct), "samples": samples}
        return {"found": False, "evaluations": ok, "generated": n, "rejected_by_requires": pre,
                "distinct": len(distinct), "samples": samples, "wall_s": time.time() - t0}


def main():
    req = json.load(sys.stdin)
    mode = req["mode"]
    out = {}
    try:
        if mode == "script":
            setup_paths(req.get("repo", "/repo"))
            mod = importlib.import_module(req["module"])
            out = {"replay": mod.run(req)}
        elif mode == "probe":
            setup_paths(req.get("repo", "/repo"))
            from native import probes
            out = probes.run()
        else:
            h = Harness(req)
            if mode == "replay":
                r = h.run_case(req["inputs"], req.get("ghost"))
                out = {"replay": r}
                if r["status"] != "failed" and req.get("search_budget_s", 0) > 0:
                    out["search"] = h.search(req.get("seed", 0), req["search_budget_s"],
                                             req.get("max_cases", 200000), model=req["inputs"])
            elif mode == "search":
                out = {"search": h.search(req.get("seed", 0), req.get("budget_s", 10), req.get("max_cases", 20000),
                                          model=req.get("model"), size=req.get("size", 3))}
    except Exception:  # pylint: disable=broad-except
        out = {"error": traceback.format_exc()}
    json.dump(out, sys.stdout, default=str)


if __name__ == "__main__":
    main()
