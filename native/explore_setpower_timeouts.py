"""Bounded stand-in for one clause of C15 on the real managers: "failed power equals the sum of the set-points whose
API call was rejected, errored or TIMED OUT" with calls that really take time.  The real PVManager._set_api_power and
BatteryManager._set_distributed_power run on a real event loop against a scripted API client whose set_power answers
after a scripted delay (or raises); the configured timeout is 50 ms.

Checked: a call that has not answered before the timeout counts as failed with exactly its set-point, a call that
answers in time counts as succeeded, however the answers are ordered; the result is reported promptly (within the
timeout plus a margin), not when the slowest call finally answers.

BOUNDED (a handful of latency patterns; wall-clock delays of up to 0.4 s).  Runs under /venv/bin/python via native.runner.
"""
from __future__ import annotations

import asyncio
import itertools
import logging
import time
from datetime import timedelta
from unittest import mock

TIMEOUT_S = 0.05
FAST, SLOW = 0.0, 0.4          # answers at once / long after the timeout


class Api:
    def __init__(self, delays, errors=()):
        self.delays, self.errors = delays, set(errors)

    async def set_power(self, cid, watts):
        d = self.delays.get(cid, 0.0)
        if d:
            await asyncio.sleep(d)
        if cid in self.errors:
            from frequenz.client.microgrid import ApiClientError
            raise ApiClientError("fake://", "set_power", "scripted client error")


class Sink:
    def __init__(self):
        self.sent = []

    async def send(self, msg):
        self.sent.append(msg)


async def pv_case(delays, errors):
    from frequenz.quantities import Power
    from frequenz.sdk.microgrid import connection_manager
    from frequenz.sdk.microgrid._power_distributing._component_managers._pv_inverter_manager._pv_inverter_manager import PVManager
    from frequenz.sdk.microgrid._power_distributing.request import Request
    from frequenz.sdk.microgrid._power_distributing.result import PartialFailure
    mgr = object.__new__(PVManager)
    mgr._results_sender = Sink()  # pylint: disable=protected-access
    mgr._api_power_request_timeout = timedelta(seconds=TIMEOUT_S)  # pylint: disable=protected-access
    alloc = {21: Power.from_watts(-300.0), 22: Power.from_watts(-500.0), 23: Power.from_watts(-700.0)}
    req = Request(power=Power.from_watts(-1600.0), component_ids={21, 22, 23})
    conn = type("Conn", (), {"api_client": Api(delays, errors)})()
    t0 = time.monotonic()
    with mock.patch.object(connection_manager, "get", lambda: conn):
        await mgr._set_api_power(req, dict(alloc), Power.from_watts(-100.0))  # pylint: disable=protected-access
    took = time.monotonic() - t0
    if len(mgr._results_sender.sent) != 1:  # pylint: disable=protected-access
        return f"PV: {len(mgr._results_sender.sent)} results reported for one request"  # pylint: disable=protected-access
    res = mgr._results_sender.sent[0]  # pylint: disable=protected-access
    want_failed = {c for c in alloc if delays.get(c, 0.0) > TIMEOUT_S or c in errors}
    got_failed = set(res.failed_components) if isinstance(res, PartialFailure) else set()
    got_failed_w = res.failed_power.as_watts() if isinstance(res, PartialFailure) else 0.0
    want_failed_w = sum(alloc[c].as_watts() for c in want_failed)
    if got_failed != want_failed or abs(got_failed_w - want_failed_w) > 1e-9 or set(res.succeeded_components) != set(alloc) - want_failed:
        return (f"PV pool, timeout {TIMEOUT_S} s, reply delays {delays}, client errors {sorted(errors)}: reported failed {sorted(got_failed)} "
                f"with {got_failed_w} W and succeeded {sorted(res.succeeded_components)}; demanded failed {sorted(want_failed)} with "
                f"{want_failed_w} W (timed out / errored calls), the others succeeded")
    if took > TIMEOUT_S + 0.25:
        return f"PV pool: the result came {took:.2f} s after the request with a {TIMEOUT_S} s timeout (it waited for a call that had timed out)"
    return None


async def battery_case(delays, errors):
    from frequenz.sdk.microgrid import connection_manager
    from frequenz.sdk.microgrid._power_distributing._component_managers._battery_manager import BatteryManager
    from frequenz.sdk.microgrid._power_distributing._distribution_algorithm import DistributionResult
    mgr = object.__new__(BatteryManager)
    mgr._inv_bats_map = {21: frozenset({1}), 22: frozenset({2}), 23: frozenset({3})}  # pylint: disable=protected-access
    dist = DistributionResult({21: 300.0, 22: 500.0, 23: 700.0}, 100.0)
    conn = type("Conn", (), {"api_client": Api(delays, errors)})()
    t0 = time.monotonic()
    with mock.patch.object(connection_manager, "get", lambda: conn):
        failed_w, failed_bats = await mgr._set_distributed_power(dist, timedelta(seconds=TIMEOUT_S))  # pylint: disable=protected-access
    took = time.monotonic() - t0
    bad = {c for c in (21, 22, 23) if delays.get(c, 0.0) > TIMEOUT_S or c in errors}
    want_bats = {c - 20 for c in bad}
    want_w = sum(dist.distribution[c] for c in bad)
    if set(failed_bats) != want_bats or abs(failed_w - want_w) > 1e-9:
        return (f"battery pool, timeout {TIMEOUT_S} s, reply delays {delays}, client errors {sorted(errors)}: reported failed batteries "
                f"{sorted(failed_bats)} with {failed_w} W; demanded {sorted(want_bats)} with {want_w} W")
    if took > TIMEOUT_S + 0.25:
        return f"battery pool: the answer came {took:.2f} s after the request with a {TIMEOUT_S} s timeout"
    return None


def run(req):
    logging.disable(logging.CRITICAL)
    t0 = time.time()
    evaluations, failure, samples = 0, None, []
    cases = []
    for pattern in itertools.product((FAST, 0.02, SLOW), repeat=3):
        if pattern.count(SLOW) <= 2 and pattern != (FAST, FAST, FAST):
            cases.append((dict(zip((21, 22, 23), pattern)), ()))
    cases = cases[::3] + [({21: FAST, 22: SLOW, 23: 0.02}, (21,)), ({}, (22,)), ({}, ())]
    for delays, errors in cases:
        for which, fn in (("pv", pv_case), ("battery", battery_case)):
            evaluations += 1
            try:
                f = asyncio.run(fn(dict(delays), errors))
            except Exception as e:  # pylint: disable=broad-except
                f = f"{which} case raised {type(e).__name__}: {e}"
            if len(samples) < 2:
                samples.append({"pool": which, "reply_delays_s": {str(k): v for k, v in delays.items()}, "client_errors": list(errors)})
            if f:
                failure = (f, {"pool": which, "reply_delays_s": {str(k): v for k, v in delays.items()}, "client_errors": list(errors),
                               "timeout_s": TIMEOUT_S})
                break
        if failure:
            break
    logging.disable(logging.NOTSET)
    out = {"status": "failed" if failure else "ok", "evaluations": evaluations, "distinct": evaluations, "known": {},
           "samples": samples, "wall_s": round(time.time() - t0, 1), "exhaustive": failure is None,
           "rule": "three set-points, timeout 50 ms, reply latencies from {at once, 20 ms, 400 ms} per call (a third of the 26 patterns) "
                   "plus client errors, on the real PVManager._set_api_power and BatteryManager._set_distributed_power; all distinct"}
    if failure:
        out["failure"] = {"clause": "timed-out / errored calls are the failed ones, with their set-points", "detail": failure[0]}
        out["inputs"] = failure[1]
    return out
