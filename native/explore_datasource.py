"""Bounded stand-in for C20 (the hand-over part): the real MicrogridApiSource on a real event loop and real
channels, with a scripted API client.  Subscriptions (including duplicates and unknown component ids) are placed
at every position among a few data messages; every registry channel must deliver, exactly once and in order,
one sample (metric value, message timestamp) for each message received after the subscription was added.

BOUNDED (never counted as proved).  Runs under /venv/bin/python via native.runner (mode script).
"""
from __future__ import annotations

import asyncio
import itertools
import random
import time
from datetime import datetime, timedelta, timezone
from unittest import mock

T0 = datetime(2024, 1, 1, tzinfo=timezone.utc)
METER = 7


async def _drain(registry, name, rx):
    """Everything buffered in `rx`, without timers: close the channel, then read until the receiver reports the end.
    (Broadcast senders put messages into the receivers' buffers synchronously, so after the loop iterations granted
    above nothing is in flight; a wall-clock timeout here would make the verdict depend on machine load.)"""
    from frequenz.quantities import Quantity
    from frequenz.sdk.timeseries import Sample
    await registry.get_or_create(Sample[Quantity], name).close()
    return await _read_all(rx)


async def _read_all(rx):
    """Everything left in a receiver of a closed channel."""
    from frequenz.channels import ReceiverStoppedError
    got = []
    while True:
        try:
            got.append(await rx.receive())
        except ReceiverStoppedError:
            return got


async def scenario(events, yields):
    """events: list of ('msg', k) | ('sub', namespace, metric_name, component_id).  Returns a failure text or None."""
    from frequenz.channels import Broadcast
    from frequenz.quantities import Quantity
    from frequenz.sdk.timeseries import Sample
    from frequenz.client.microgrid import Component, ComponentCategory, ComponentMetricId, MeterData
    from frequenz.sdk._internal._channels import ChannelRegistry
    from frequenz.sdk.microgrid import connection_manager
    from frequenz.sdk.microgrid._data_sourcing._component_metric_request import ComponentMetricRequest
    from frequenz.sdk.microgrid._data_sourcing.microgrid_api_source import MicrogridApiSource

    data_chan = Broadcast(name="meter-data")
    data_tx = data_chan.new_sender()
    # the API stream of the component: one receiver, created up front, so that "received from the API" does not
    # depend on when the streaming task first runs (the source asks for the stream once per component)
    data_rx = data_chan.new_receiver(limit=100)
    calls = []

    class Api:
        async def components(self):
            return [Component(METER, ComponentCategory.METER)]

        async def meter_data(self, cid, maxsize=50):
            calls.append(cid)
            return data_rx

    class Conn:
        api_client = Api()

    registry = ChannelRegistry(name="explore")
    failures = []
    with mock.patch.object(connection_manager, "get", lambda: Conn()):
        src = MicrogridApiSource(registry)
        receivers = {}      # channel name -> (receiver, metric attr, index of first message it must see)
        late = {}           # channel name -> (a second receiver taken while the stream was flowing, messages sent before)
        n_sent = 0
        metric_attr = {"ACTIVE_POWER": "active_power", "REACTIVE_POWER": "reactive_power"}

        def message(k):
            return MeterData(component_id=METER, timestamp=T0 + timedelta(seconds=k), active_power=100.0 + k,
                             active_power_per_phase=(0.0, 0.0, 0.0), reactive_power=200.0 + k,
                             reactive_power_per_phase=(0.0, 0.0, 0.0), current_per_phase=(0.0, 0.0, 0.0),
                             voltage_per_phase=(0.0, 0.0, 0.0), frequency=50.0)
        for ev in events:
            if ev[0] == "msg":
                await data_tx.send(message(n_sent))
                n_sent += 1
            else:
                _, ns, metric, cid = ev
                req = ComponentMetricRequest(ns, cid, ComponentMetricId[metric], None)
                name = req.get_channel_name()
                if cid == METER and name not in receivers:
                    rx = registry.get_or_create(Sample[Quantity], name).new_receiver(limit=100)
                    receivers[name] = (rx, metric_attr[metric], None)
                elif cid == METER and name not in late and n_sent > 0:
                    # a second consumer of a stream that is already flowing (the identical request repeated): once
                    # everything sent so far has been forwarded, its receiver sees only what is sent from now on
                    for _ in range(30):
                        await asyncio.sleep(0)
                    late[name] = (registry.get_or_create(Sample[Quantity], name).new_receiver(limit=100), n_sent)
                await src.add_metric(req)
                if cid == METER and receivers[name][2] is None:
                    receivers[name] = (receivers[name][0], receivers[name][1], n_sent)
            for _ in range(yields):
                await asyncio.sleep(0)
        for _ in range(50):
            await asyncio.sleep(0)
        # every subscribed stream: exactly the messages sent after its subscription, once each, in order.
        late_got = {}
        for name, (rx, attr, first) in receivers.items():
            got = await _drain(registry, name, rx)
            if name in late:
                late_got[name] = await _read_all(late[name][0])       # (the channel is closed by now)
            stamps = [int((s.timestamp - T0).total_seconds()) for s in got]
            base = 100.0 if attr == "active_power" else 200.0
            vals_ok = all(s.value is not None and abs(s.value.base_value - (base + k)) < 1e-9 for s, k in zip(got, stamps))
            # messages sent before the subscription may or may not be seen (the component stream is subscribed at
            # the first add_metric); from `first` on every message must arrive exactly once, in order
            must = list(range(first, n_sent))
            tail = [k for k in stamps if k >= first]
            if tail != must or stamps != sorted(set(stamps)) or not vals_ok:
                failures.append(f"channel {name}: delivered timestamps {stamps} (values ok: {vals_ok}); messages "
                                f"{must} were sent after the subscription")
        for name, got in late_got.items():
            stamps = [int((s.timestamp - T0).total_seconds()) for s in got]
            if stamps != list(range(late[name][1], n_sent)):
                failures.append(f"channel {name}: a receiver taken after messages 0..{late[name][1] - 1} had been delivered got "
                                f"timestamps {stamps}; it was subscribed for {list(range(late[name][1], n_sent))} only "
                                f"(each message exactly once on the streams subscribed at that time)")
        if len(calls) > 1:
            failures.append(f"the component data stream was requested {len(calls)} times")
        for t in list(src.comp_data_tasks.values()):
            t.cancel()
        await asyncio.sleep(0)
    return failures[0] if failures else None


async def actor_scenario(events, yields):
    """The same oracle one level up: requests go through the real DataSourcingActor (its request channel and its _run
    loop), for TWO components of the same category, two namespaces and two metrics.
    events: ('msg', cid) | ('sub', namespace, metric_name, cid)."""
    from frequenz.channels import Broadcast
    from frequenz.client.microgrid import Component, ComponentCategory, ComponentMetricId, MeterData
    from frequenz.quantities import Quantity
    from frequenz.sdk._internal._channels import ChannelRegistry
    from frequenz.sdk.microgrid import connection_manager
    from frequenz.sdk.microgrid._data_sourcing import DataSourcingActor
    from frequenz.sdk.microgrid._data_sourcing._component_metric_request import ComponentMetricRequest
    from frequenz.sdk.timeseries import Sample
    meters = (7, 8)
    data_chan = {c: Broadcast(name=f"meter-{c}") for c in meters}
    data_tx = {c: data_chan[c].new_sender() for c in meters}
    data_rx = {c: data_chan[c].new_receiver(limit=100) for c in meters}

    class Api:
        async def components(self):
            return [Component(c, ComponentCategory.METER) for c in meters]

        async def meter_data(self, cid, maxsize=50):
            return data_rx[cid]

    class Conn:
        api_client = Api()

    registry = ChannelRegistry(name="explore-actor")
    req_chan = Broadcast(name="requests")
    req_tx = req_chan.new_sender()
    metric_attr = {"ACTIVE_POWER": ("active_power", 100.0), "REACTIVE_POWER": ("reactive_power", 200.0)}
    failures = []
    with mock.patch.object(connection_manager, "get", lambda: Conn()):
        actor = DataSourcingActor(req_chan.new_receiver(limit=500), registry)
        actor.start()
        await asyncio.sleep(0)
        receivers = {}
        n_sent = {c: 0 for c in meters}

        def message(cid, k):
            return MeterData(component_id=cid, timestamp=T0 + timedelta(seconds=k), active_power=100.0 * cid + k,
                             active_power_per_phase=(0.0, 0.0, 0.0), reactive_power=200.0 * cid + k,
                             reactive_power_per_phase=(0.0, 0.0, 0.0), current_per_phase=(0.0, 0.0, 0.0),
                             voltage_per_phase=(0.0, 0.0, 0.0), frequency=50.0)
        for ev in events:
            if ev[0] == "msg":
                cid = ev[1]
                await data_tx[cid].send(message(cid, n_sent[cid]))
                n_sent[cid] += 1
                for _ in range(yields):
                    await asyncio.sleep(0)
            else:
                _, ns, metric, cid = ev
                req = ComponentMetricRequest(ns, cid, ComponentMetricId[metric], None)
                name = req.get_channel_name()
                if cid in meters and name not in receivers:
                    rx = registry.get_or_create(Sample[Quantity], name).new_receiver(limit=100)
                    receivers[name] = [rx, metric, cid, None]
                await req_tx.send(req)
                for _ in range(8):          # let the actor take the request off its channel and register it
                    await asyncio.sleep(0)
                if cid in meters and receivers[name][3] is None:
                    receivers[name][3] = n_sent[cid]
        for _ in range(60):
            await asyncio.sleep(0)
        for name, (rx, metric, cid, first) in receivers.items():
            got = await _drain(registry, name, rx)
            stamps = [int((s.timestamp - T0).total_seconds()) for s in got]
            base = metric_attr[metric][1] * cid
            vals_ok = all(s.value is not None and abs(s.value.base_value - (base + k)) < 1e-9 for s, k in zip(got, stamps))
            must = list(range(first, n_sent[cid]))
            tail = [k for k in stamps if k >= first]
            if tail != must or stamps != sorted(set(stamps)) or not vals_ok:
                failures.append(f"channel {name}: delivered timestamps {stamps} with values "
                                f"{[None if s.value is None else s.value.base_value for s in got]}; messages {must} of component {cid} "
                                f"({metric}, expected value {base} + k) were sent after the subscription")
        await actor.stop()
    return failures[0] if failures else None


def expected_reading(metric_name, data):
    """What a metric's stream must carry, read off the metric's NAME (independent of the extraction tables):
    X_PHASE_n -> x_per_phase[n - 1]; POWER_*_BOUND -> power_*_bound; everything else -> the attribute of that name."""
    import re
    m = re.fullmatch(r"(.+)_PHASE_([123])", metric_name)
    if m:
        return getattr(data, m.group(1).lower() + "_per_phase")[int(m.group(2)) - 1]
    return getattr(data, metric_name.lower())


async def category_tables():
    """Every metric of every component category (meter, battery, inverter, EV charger), requested one after the other
    through the real MicrogridApiSource with messages flowing in between: each stream carries the reading its metric
    NAMES, for messages whose fields are all different; nothing raises, no stream stops."""
    from frequenz.channels import Broadcast
    from frequenz.client.microgrid import (BatteryComponentState, BatteryData, BatteryRelayState, Component, ComponentCategory,
                                           ComponentMetricId, EVChargerCableState, EVChargerComponentState, EVChargerData,
                                           InverterComponentState, InverterData, MeterData)
    from frequenz.quantities import Quantity
    from frequenz.sdk._internal._channels import ChannelRegistry
    from frequenz.sdk.microgrid import connection_manager
    from frequenz.sdk.microgrid._data_sourcing._component_metric_request import ComponentMetricRequest
    from frequenz.sdk.microgrid._data_sourcing.microgrid_api_source import MicrogridApiSource
    from frequenz.sdk.timeseries import Sample

    def three(base):
        return (base + 1.0, base + 2.0, base + 3.0)

    def make(cat, cid, k):
        ts = T0 + timedelta(seconds=k)
        common = dict(component_id=cid, timestamp=ts)
        if cat == "meter":
            return MeterData(active_power=10.0 + k, active_power_per_phase=three(20.0 + k), reactive_power=30.0 + k,
                             reactive_power_per_phase=three(40.0 + k), current_per_phase=three(50.0 + k),
                             voltage_per_phase=three(60.0 + k), frequency=70.0 + k, **common)
        if cat == "battery":
            return BatteryData(soc=11.0 + k, soc_lower_bound=12.0 + k, soc_upper_bound=13.0 + k, capacity=14.0 + k,
                               power_inclusion_lower_bound=-15.0 - k, power_exclusion_lower_bound=-16.0 - k,
                               power_exclusion_upper_bound=17.0 + k, power_inclusion_upper_bound=18.0 + k, temperature=19.0 + k,
                               relay_state=BatteryRelayState.CLOSED, component_state=BatteryComponentState.IDLE, errors=[], **common)
        if cat == "inverter":
            return InverterData(active_power=10.0 + k, active_power_per_phase=three(20.0 + k), reactive_power=30.0 + k,
                                reactive_power_per_phase=three(40.0 + k), current_per_phase=three(50.0 + k),
                                voltage_per_phase=three(60.0 + k), frequency=70.0 + k,
                                active_power_inclusion_lower_bound=-81.0 - k, active_power_exclusion_lower_bound=-82.0 - k,
                                active_power_exclusion_upper_bound=83.0 + k, active_power_inclusion_upper_bound=84.0 + k,
                                component_state=InverterComponentState.IDLE, errors=[], **common)
        return EVChargerData(active_power=10.0 + k, active_power_per_phase=three(20.0 + k), reactive_power=30.0 + k,
                             reactive_power_per_phase=three(40.0 + k), current_per_phase=three(50.0 + k),
                             voltage_per_phase=three(60.0 + k), frequency=70.0 + k, active_power_inclusion_lower_bound=0.0,
                             active_power_exclusion_lower_bound=0.0, active_power_exclusion_upper_bound=0.0,
                             active_power_inclusion_upper_bound=0.0, cable_state=EVChargerCableState.EV_PLUGGED,
                             component_state=EVChargerComponentState.READY, **common)

    metrics = {
        "meter": ["ACTIVE_POWER", "ACTIVE_POWER_PHASE_1", "ACTIVE_POWER_PHASE_2", "ACTIVE_POWER_PHASE_3", "CURRENT_PHASE_1",
                  "CURRENT_PHASE_2", "CURRENT_PHASE_3", "VOLTAGE_PHASE_1", "VOLTAGE_PHASE_2", "VOLTAGE_PHASE_3", "FREQUENCY",
                  "REACTIVE_POWER", "REACTIVE_POWER_PHASE_1", "REACTIVE_POWER_PHASE_2", "REACTIVE_POWER_PHASE_3"],
        "battery": ["SOC", "SOC_LOWER_BOUND", "SOC_UPPER_BOUND", "CAPACITY", "POWER_INCLUSION_LOWER_BOUND",
                    "POWER_EXCLUSION_LOWER_BOUND", "POWER_EXCLUSION_UPPER_BOUND", "POWER_INCLUSION_UPPER_BOUND", "TEMPERATURE"],
    }
    metrics["ev_charger"] = list(metrics["meter"])
    metrics["inverter"] = metrics["meter"] + ["ACTIVE_POWER_INCLUSION_LOWER_BOUND", "ACTIVE_POWER_EXCLUSION_LOWER_BOUND",
                                              "ACTIVE_POWER_EXCLUSION_UPPER_BOUND", "ACTIVE_POWER_INCLUSION_UPPER_BOUND"]
    cats = {"meter": (4, ComponentCategory.METER), "battery": (9, ComponentCategory.BATTERY),
            "inverter": (8, ComponentCategory.INVERTER), "ev_charger": (12, ComponentCategory.EV_CHARGER)}
    for cat, (cid, category) in cats.items():
        chan = Broadcast(name=f"api-{cat}")
        rx_api = chan.new_receiver(limit=200)
        tx = chan.new_sender()

        class Api:
            async def components(self):
                return [Component(cid, category)]

            async def meter_data(self, c, maxsize=50):
                return rx_api
            battery_data = inverter_data = ev_charger_data = meter_data

        class Conn:
            api_client = Api()

        registry = ChannelRegistry(name=f"tables-{cat}")
        with mock.patch.object(connection_manager, "get", lambda: Conn()):   # pylint: disable=cell-var-from-loop
            src = MicrogridApiSource(registry)
            receivers, sent = {}, []
            order = metrics[cat]
            if cat == "inverter":       # a bound metric among the very first subscriptions, and one added later
                order = [order[-1]] + order[:-1]
            for k, name in enumerate(order):
                req = ComponentMetricRequest("tables", cid, ComponentMetricId[name], None)
                receivers[name] = (registry.get_or_create(Sample[Quantity], req.get_channel_name()).new_receiver(limit=100), k)
                try:
                    await src.add_metric(req)
                except Exception as e:  # pylint: disable=broad-except
                    return f"{cat}: subscribing {name} raised {type(e).__name__}: {e}"
                for _ in range(15):
                    await asyncio.sleep(0)
                datum = make(cat, cid, k)
                sent.append(datum)
                await tx.send(datum)
                for _ in range(25):
                    await asyncio.sleep(0)
            for _ in range(40):
                await asyncio.sleep(0)
            for name, (rx, first) in receivers.items():
                req = ComponentMetricRequest("tables", cid, ComponentMetricId[name], None)
                got = await _drain(registry, req.get_channel_name(), rx)
                have = [(int((smp.timestamp - T0).total_seconds()), None if smp.value is None else smp.value.base_value) for smp in got]
                want = [(k, expected_reading(name, sent[k])) for k in range(first, len(sent))]
                if have != want:
                    return (f"{cat} {cid}, metric {name}: the stream carried {have}; the messages sent after its subscription "
                            f"read {want} for that metric (timestamp step, value)")
            for t in list(src.comp_data_tasks.values()):
                t.cancel()
            await asyncio.sleep(0)
    return None


def run(req):
    tier = req.get("tier", "quick")
    seed = int(req.get("seed", 0))
    budget = 20 if tier == "quick" else 180
    rng = random.Random(seed)
    t0 = time.time()
    evaluations = 0
    distinct = set()
    samples = []
    subs = [("sub", "ns1", "ACTIVE_POWER", METER), ("sub", "ns1", "ACTIVE_POWER", METER),   # duplicate request
            ("sub", "ns2", "ACTIVE_POWER", METER), ("sub", "ns1", "REACTIVE_POWER", METER),
            ("sub", "ns1", "ACTIVE_POWER", 999)]                                              # unknown component
    failure = None
    # every metric of every component category carries the reading its name says
    evaluations += 1
    distinct.add(("category tables",))
    try:
        f = asyncio.run(category_tables())
    except Exception as e:  # pylint: disable=broad-except
        f = f"category-table scenario raised {type(e).__name__}: {e}"
    if f:
        failure = (f, [("every metric of every category, subscribed one after the other with a message after each",)], 15)
    # all placements of up to 3 subscriptions among up to 3 messages, with 0 / 1 / 3 / 20 loop iterations in between
    plans = []
    for n_subs in (1, 2, 3):
        for chosen in itertools.combinations(range(len(subs)), n_subs):
            for n_msgs in (1, 2, 3):
                slots = n_msgs + n_subs
                for pos in itertools.combinations(range(slots), n_subs):
                    evs, si, mi = [], 0, 0
                    for k in range(slots):
                        if k in pos:
                            evs.append(subs[chosen[si]])
                            si += 1
                        else:
                            evs.append(("msg", mi))
                            mi += 1
                    plans.append(evs)
    rng.shuffle(plans)
    for evs in ([] if failure else plans):
        for yields in (0, 1, 3, 20):
            if time.time() - t0 > budget:
                break
            evaluations += 1
            distinct.add((tuple(evs), yields))
            try:
                f = asyncio.run(scenario(evs, yields))
            except Exception as e:  # pylint: disable=broad-except
                f = f"scenario raised {type(e).__name__}: {e}"
            if len(samples) < 2:
                samples.append({"events": evs, "loop_iterations_between_events": yields})
            if f:
                failure = (f, evs, yields)
                break
        if failure or time.time() - t0 > budget:
            break
    # through the real DataSourcingActor: two components of one category, two namespaces, two metrics
    if not failure:
        actor_subs = [("sub", "ns1", "ACTIVE_POWER", 7), ("sub", "ns1", "ACTIVE_POWER", 8), ("sub", "ns2", "ACTIVE_POWER", 7),
                      ("sub", "ns1", "REACTIVE_POWER", 8), ("sub", "ns1", "ACTIVE_POWER", 7), ("sub", "ns1", "ACTIVE_POWER", 999)]
        t1 = time.time()
        arng = random.Random(seed + 1)
        while time.time() - t1 < (6 if tier == "quick" else 60):
            k = arng.randint(2, 5)
            evs = list(arng.sample(actor_subs, k)) + [("msg", arng.choice([7, 8])) for _ in range(arng.randint(2, 5))]
            arng.shuffle(evs)
            yl = arng.choice([0, 1, 3, 20])
            evaluations += 1
            distinct.add((tuple(evs), yl, "actor"))
            try:
                f = asyncio.run(actor_scenario(evs, yl))
            except Exception as e:  # pylint: disable=broad-except
                f = f"actor scenario raised {type(e).__name__}: {e}"
            if f:
                failure = (f, evs, yl)
                break
    out = {"status": "failed" if failure else "ok", "evaluations": evaluations, "distinct": len(distinct), "known": {},
           "samples": samples, "wall_s": round(time.time() - t0, 1),
           "rule": "every metric of the four component categories subscribed one after the other (each stream carries the reading its name says); all placements of 1-3 subscriptions (incl. a duplicate request, a second namespace, a second metric, an "
                   "unknown component id) among 1-3 data messages, with 0/1/3/20 event-loop iterations between consecutive "
                   "events (shuffled, as many as fit the time budget); then seeded random sequences through the real DataSourcingActor with "
                   "two meters, two namespaces, two metrics; distinct = distinct (event sequence, yields) pairs"}
    if failure:
        out["failure"] = {"clause": "exactly once, in order, after subscription", "detail": failure[0]}
        out["inputs"] = {"events": failure[1], "yields": failure[2]}
    return out
