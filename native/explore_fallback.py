"""Bounded stand-in for C19 on the real objects: FormulaBuilder -> FormulaEngine -> MetricFetcher with a real
FallbackFormulaMetricFetcher (its formula generator is a stand-in that builds `inv0 + inv1` over two real channels).

One formula term P with fallback (I0 + I1).  Scripts: which primary samples are valid / None / NaN, whether and when the
primary stream closes, how many steps the fallback's inputs are delivered ahead of / behind the primary, how late the
fallback inputs start delivering after they were subscribed.

Checked on every emitted sample stamped T (each value encodes its stream and step, primary and fallback deliberately
differ): timestamps strictly increase; a non-None value is the primary's value of T when that is valid, otherwise the
fallback's sum of T - never a value of another timestamp; once the fallback has had its start-up time, a sample whose
primary is invalid carries the fallback value (no unbounded outage); when the primary recovers its value is used.

BOUNDED (never counted as proved).  Runs under /venv/bin/python via native.runner (mode script).
"""
from __future__ import annotations

import asyncio
import itertools
import logging
import math
import time
from datetime import datetime, timedelta, timezone

T0 = datetime(2024, 1, 1, tzinfo=timezone.utc)
N = 10
STARTUP = 3      # steps after the first failure within which a missing output is tolerated ("bounded start-up delay")


def pval(t):
    return 1000.0 + t


def fval(t):
    return (100.0 + t) + (200.0 + t)


async def scenario(pattern, close_at, skew, late, with_q=False, known=None):
    """pattern[t] in 'V' (valid) / 'N' (None) / 'A' (NaN); close_at: step after which the primary stream is closed (or None);
    skew: the fallback inputs of step t are sent `skew` steps before (+) / after (-) the primary sample of step t;
    late: the fallback inputs deliver nothing for steps earlier than (their subscription step + late)."""
    import frequenz.sdk.microgrid  # noqa: F401  pylint: disable=unused-import   (resolves a circular import)
    from frequenz.channels import Broadcast
    from frequenz.quantities import Quantity
    from frequenz.sdk.timeseries import Sample
    from frequenz.sdk.timeseries.formula_engine._formula_engine import FormulaBuilder
    from frequenz.sdk.timeseries.formula_engine._formula_generators._fallback_formula_metric_fetcher import (
        FallbackFormulaMetricFetcher)
    pchan = Broadcast(name="primary")
    ichans = [Broadcast(name="inv0"), Broadcast(name="inv1")]
    subscribed_at = []
    fb_sent = []        # the steps for which the fallback inputs were actually delivered
    now = [0]

    class Gen:
        """Stands in for a FormulaGenerator: only `namespace` and `generate()` are used by the fallback fetcher."""
        namespace = "fallback"

        def generate(self):
            subscribed_at.append(now[0])
            b = FormulaBuilder("fallback", Quantity)
            b.push_metric("inv0", ichans[0].new_receiver(limit=50), nones_are_zeros=False)
            b.push_oper("+")
            b.push_metric("inv1", ichans[1].new_receiver(limit=50), nones_are_zeros=False)
            return b.build()

    fallback = FallbackFormulaMetricFetcher(Gen())
    b = FormulaBuilder("term", Quantity)
    b.push_metric("P", pchan.new_receiver(limit=50), nones_are_zeros=False, fallback=fallback)
    qchan = Broadcast(name="plain")
    if with_q:          # a second, plain term Q = 5000 + t, delivered with the primary's steps and never failing
        b.push_oper("+")
        b.push_metric("Q", qchan.new_receiver(limit=50), nones_are_zeros=False)
    qtx = qchan.new_sender()
    eng = b.build()
    out = eng.new_receiver()
    got = []

    async def consume():
        async for s in out:
            got.append(s)

    consumer = asyncio.create_task(consume())
    for _ in range(5):
        await asyncio.sleep(0)
    ptx = pchan.new_sender()
    itx = [c.new_sender() for c in ichans]
    closed = False

    async def settle():
        for _ in range(25):
            await asyncio.sleep(0)

    for tick in range(N + abs(skew) + 1):
        now[0] = tick
        t_f = tick + skew if skew > 0 else tick        # fallback step sent in this tick
        t_p = tick if skew > 0 else tick + skew        # (negative skew: the primary runs ahead... see below)
        if skew >= 0:
            t_f, t_p = tick, tick - skew
        else:
            t_f, t_p = tick + skew, tick
        # fallback inputs (only exist once subscribed; a real resampler starts delivering `late` steps later)
        if 0 <= t_f < N and subscribed_at and t_f >= subscribed_at[0] + late:
            fb_sent.append(t_f)
            for k, tx in enumerate(itx):
                await tx.send(Sample(T0 + timedelta(seconds=t_f), Quantity((100.0 if k == 0 else 200.0) + t_f)))
            await settle()
        if with_q and 0 <= t_p < N:
            await qtx.send(Sample(T0 + timedelta(seconds=t_p), Quantity(5000.0 + t_p)))
        if 0 <= t_p < N and not closed:
            kind = pattern[t_p]
            v = Quantity(pval(t_p)) if kind == "V" else (None if kind == "N" else Quantity(math.nan))
            await ptx.send(Sample(T0 + timedelta(seconds=t_p), v))
            await settle()
            if close_at is not None and t_p == close_at:
                await pchan.close()
                closed = True
                await settle()
    for _ in range(60):
        await asyncio.sleep(0)
    consumer.cancel()
    await eng._stop()  # pylint: disable=protected-access
    stamps = [int((s.timestamp - T0).total_seconds()) for s in got]
    # (when the primary stream is CLOSED the term is driven by the fallback alone from then on and may re-emit the step
    # at which it took over; that hand-over is not what C19 speaks about and is not judged here)
    if close_at is None and any(b2 <= a for a, b2 in zip(stamps, stamps[1:])):
        return f"emitted timestamps {stamps} do not strictly increase (a timestamp repeated or out of order)"
    first_bad = next((t for t in range(N) if pattern[t] != "V" or (close_at is not None and t > close_at)), None)
    fb_first = fb_sent[0] if fb_sent else None
    for s, t in zip(got, stamps):
        have = None if s.value is None else s.value.base_value
        if have is not None and with_q:
            have -= 5000.0 + t          # what is left must be the term's value of step t
        p_ok = pattern[t] == "V" and (close_at is None or t <= close_at)
        if have is not None:
            want = pval(t) if p_ok else fval(t)
            if close_at is not None and t == close_at and abs(have - fval(t)) <= 1e-6:
                continue        # the hand-over step re-emitted from the fallback (see above): a value of ITS timestamp
            if abs(have - want) > 1e-6:
                # known finding C19-closed-primary-misaligns-other-terms: once the primary stream is CLOSED, the term is fed
                # from the fallback without being aligned with the other terms of the formula (the failing round has
                # consumed one of their samples, and later rounds take the fallback's latest sample whatever its step):
                # the sample pairs the plain term of step t with the fallback's sum of another step.  Only that shape.
                raw = have + 5000.0 + t if with_q else have
                pairs = [(a, u) for a in range(N) for u in range(N) if a != u and (a == t or u == t)
                         and abs(raw - (5000.0 + a + fval(u))) <= 1e-6] if with_q else []
                if with_q and close_at is not None and t >= close_at and known is not None and pairs:
                    a, u = min(pairs, key=lambda au: abs(au[0] - au[1]))
                    known.setdefault("C19-closed-primary-misaligns-other-terms",
                                     f"primary stream closed after step {close_at}: the sample stamped step {t} pairs the plain term "
                                     f"of step {a} with the fallback's sum of step {u} (primary {pattern}, fallback ahead by {skew}, "
                                     f"fallback start delay {late})")
                    continue
                src = "the primary's value of that step" if p_ok else "the fallback's sum of that step"
                return (f"sample stamped step {t} carries {have}{' (after subtracting the plain term 5000+t of that step)' if with_q else ''}; "
                        f"{src} is {want} (primary 1000+t, fallback 300+2t): a value of another source or another timestamp")
        elif p_ok:
            return f"sample stamped step {t} is None although the primary delivered a valid value for that step"
        elif fb_first is not None and t >= max(fb_first, first_bad + STARTUP) and skew >= 0 and close_at is None:
            return (f"sample stamped step {t} is None: the primary is invalid there, the fallback has been delivering since step "
                    f"{fb_first} (first failure at step {first_bad}) - the term should carry the fallback value {fval(t)}")
    # no unbounded outage: if the primary fails for good and the fallback delivers, samples keep coming
    if first_bad is not None and skew >= 0 and not (with_q and close_at is not None):
        tail = [t for t in range(N) if t >= first_bad + STARTUP + late]
        missing = [t for t in tail if t not in stamps]
        if tail and len(missing) == len(tail):
            return (f"no sample at all for steps {tail} although the fallback delivered them (primary failed from step "
                    f"{first_bad} on; emitted {stamps})")
    return None


def run(req):
    logging.disable(logging.CRITICAL)
    t0 = time.time()
    evaluations, failure, samples = 0, None, []
    known = {}
    patterns = ["VVVVVVVVVV", "VVNNNNNNNN", "NNNNNNNNNN", "VVNNVVNNVV", "VAAAVVVVVV", "VVVNVNVNVV", "VVVVVNNNNN"]
    closes = [None, 1, 4]
    cases = [(p, c, sk, la, q) for q in (False, True) for p in patterns for c in closes for sk in (0, 1, 3, -1) for la in (0, 1, 2)]
    for pattern, close_at, skew, late, with_q in cases:
        evaluations += 1
        try:
            f = asyncio.run(scenario(pattern, close_at, skew, late, with_q, known))
        except Exception as e:  # pylint: disable=broad-except
            f = f"scenario raised {type(e).__name__}: {e}"
        if len(samples) < 2:
            samples.append({"primary": pattern, "primary_closes_after_step": close_at, "fallback_ahead_by": skew,
                            "fallback_start_delay": late, "second_plain_term": with_q})
        if f:
            failure = (f, {"primary": pattern, "primary_closes_after_step": close_at, "fallback_ahead_by": skew,
                           "fallback_start_delay": late, "second_plain_term": with_q})
            break
    logging.disable(logging.NOTSET)
    out = {"status": "failed" if failure else "ok", "evaluations": evaluations, "distinct": evaluations, "known": known,
           "samples": samples, "wall_s": round(time.time() - t0, 1), "exhaustive": failure is None,
           "rule": "one term with fallback inv0 + inv1 on the real engine: 7 validity patterns of the primary (valid / None / NaN, "
                   "failing for good, flapping, recovering) x primary stream closing never / after step 1 / 4 x fallback inputs "
                   "0 / 1 / 3 steps ahead or 1 behind x fallback inputs starting 0-2 steps after subscription x the term alone / plus a "
                   "second plain term; 10 steps; all distinct"}
    if failure:
        out["failure"] = {"clause": "fallback value of the same timestamp when the primary is invalid, primary when valid", "detail": failure[0]}
        out["inputs"] = failure[1]
    return out
