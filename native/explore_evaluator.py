"""Bounded stand-in for C06 (and for the "values of the same timestamp" clause of C05): the real FormulaEngine
(FormulaBuilder -> FormulaEvaluator -> MetricFetcher) over real Broadcast channels.  Three input streams start at
different steps of a common grid (every combination of start steps 0..3, so that lagging streams may or may not share
their first timestamp), are delivered pre-buffered or interleaved, and the consumer starts reading before or after
the data is there.  Every emitted sample stamped T must equal the formula on the three inputs stamped T (each value
encodes its stream and step), and the emitted timestamps must be consecutive from the latest first timestamp on.

BOUNDED (never counted as proved).  Runs under /venv/bin/python via native.runner (mode script).
"""
from __future__ import annotations

import asyncio
import itertools
import logging
import time
from datetime import datetime, timedelta, timezone

T0 = datetime(2024, 1, 1, tzinfo=timezone.utc)
N_STEPS = 8


def val(stream, step):
    return 1000.0 * (stream + 1) + step


async def scenario(starts, mode, missing=frozenset(), zeros=False):
    """starts: first step of each of the three streams; mode: how the samples are delivered; missing: (stream, step)
    pairs whose sample carries None; zeros: the streams are configured nones_are_zeros."""
    from frequenz.channels import Broadcast
    from frequenz.quantities import Quantity
    from frequenz.sdk.timeseries import Sample
    from frequenz.sdk.timeseries.formula_engine._formula_engine import FormulaBuilder
    chans = [Broadcast(name=f"in{i}") for i in range(3)]
    b = FormulaBuilder("explore", Quantity)
    for i, ch in enumerate(chans):
        b.push_metric(f"m{i}", ch.new_receiver(limit=50), nones_are_zeros=zeros)
        if i:
            b.push_oper("+")
    eng = b.build()
    senders = [ch.new_sender() for ch in chans]
    out = None
    if mode != "late_consumer":
        out = eng.new_receiver()
        await asyncio.sleep(0)

    async def feed(i, step):
        await senders[i].send(Sample(T0 + timedelta(seconds=step), None if (i, step) in missing else Quantity(val(i, step))))

    if mode in ("prebuffered", "late_consumer"):
        for i in range(3):
            for step in range(starts[i], N_STEPS):
                await feed(i, step)
    else:   # interleaved by step, with the event loop running in between
        for step in range(N_STEPS):
            for i in range(3):
                if step >= starts[i]:
                    await feed(i, step)
            for _ in range(3 if mode == "interleaved" else 0):
                await asyncio.sleep(0)
    if out is None:
        out = eng.new_receiver()
    got = []
    first = max(starts)
    want_n = N_STEPS - first
    try:
        for _ in range(want_n):
            got.append(await asyncio.wait_for(out.receive(), timeout=10.0))
    except (asyncio.TimeoutError, Exception):  # pylint: disable=broad-except
        pass
    await eng._stop()  # pylint: disable=protected-access
    if len(got) != want_n:
        return f"{len(got)} samples emitted, {want_n} demanded (steps {first}..{N_STEPS - 1})"
    for k, s in enumerate(got):
        step = int((s.timestamp - T0).total_seconds())
        if step != first + k:
            return f"emitted timestamps are steps {[int((x.timestamp - T0).total_seconds()) for x in got]}, demanded {list(range(first, N_STEPS))}"
        gone = [i for i in range(3) if (i, step) in missing]
        want = None if (gone and not zeros) else sum(val(i, step) for i in range(3) if i not in gone)
        have = None if s.value is None else s.value.base_value
        if (want is None) != (have is None) or (want is not None and abs(have - want) > 1e-6):
            return (f"sample stamped step {step} has value {have}; the inputs stamped step {step} give {want} "
                    f"(each input = 1000*(stream+1) + step; missing at this step: streams {gone}; nones_are_zeros={zeros})")
    return None


async def scenario_3phase(lags, max_size, starts=(0, 0, 0)):
    """The real FormulaEngine3Phase over three real single-metric FormulaEngines.  Phase i STARTS at step starts[i]
    and is DELIVERED lags[i] steps behind; the consumer subscribes with buffer size max_size and reads concurrently.
    From the latest first timestamp on, every 3-phase sample stamped T must carry the three phase values stamped T,
    none skipped."""
    from frequenz.channels import Broadcast
    from frequenz.quantities import Quantity
    from frequenz.sdk.timeseries import Sample
    from frequenz.sdk.timeseries.formula_engine._formula_engine import FormulaBuilder, FormulaEngine3Phase
    chans = [Broadcast(name=f"ph{i}") for i in range(3)]
    engines = []
    for i, ch in enumerate(chans):
        b = FormulaBuilder(f"phase{i}", Quantity)
        b.push_metric(f"m{i}", ch.new_receiver(limit=50), nones_are_zeros=False)
        engines.append(b.build())
    eng = FormulaEngine3Phase("explore3", Quantity, tuple(engines))
    out = eng.new_receiver(max_size=max_size)
    senders = [ch.new_sender() for ch in chans]
    got = []

    async def consume():
        async for s in out:
            got.append(s)

    consumer = asyncio.create_task(consume())
    for _ in range(5):
        await asyncio.sleep(0)
    n = 6
    for tick in range(n + max(lags)):
        for i in range(3):
            step = tick - lags[i]
            if starts[i] <= step < n:
                await senders[i].send(Sample(T0 + timedelta(seconds=step), Quantity(val(i, step))))
                for _ in range(12):     # one sample at a time: engine, 3-phase task and consumer all get to run
                    await asyncio.sleep(0)
    for _ in range(40):
        await asyncio.sleep(0)
    consumer.cancel()
    await eng._stop()  # pylint: disable=protected-access
    for e in engines:
        await e._stop()  # pylint: disable=protected-access
    stamps = [int((s.timestamp - T0).total_seconds()) for s in got]
    if stamps != list(range(max(starts), n)):
        return (f"3-phase samples stamped steps {stamps} were emitted, demanded {list(range(max(starts), n))} (from the "
                f"latest first timestamp on, none skipped, in order)")
    for s, step in zip(got, stamps):
        vals = [None if v is None else v.base_value for v in (s.value_p1, s.value_p2, s.value_p3)]
        want = [val(i, step) for i in range(3)]
        if vals != want:
            return (f"3-phase sample stamped step {step} carries {vals}; the phase samples stamped step {step} are {want} "
                    f"(each value = 1000*(phase+1) + step)")
    return None


async def scenario_composed(lags):
    """A higher-order formula (a + b) + c over three real single-metric engines built through the operator API; all
    start on the same timestamp, engine i's input is DELIVERED lags[i] steps behind the others (far inside every
    buffer's nominal capacity of 50).  Every output stamped T must be the sum of the three inputs stamped T, none skipped."""
    from frequenz.channels import Broadcast
    from frequenz.quantities import Quantity
    from frequenz.sdk.timeseries import Sample
    from frequenz.sdk.timeseries.formula_engine._formula_engine import FormulaBuilder
    chans = [Broadcast(name=f"ho{i}") for i in range(3)]
    engines = []
    for i, ch in enumerate(chans):
        b = FormulaBuilder(f"leaf{i}", Quantity)
        b.push_metric(f"m{i}", ch.new_receiver(limit=50), nones_are_zeros=False)
        engines.append(b.build())
    eng = ((engines[0] + engines[1]) + engines[2]).build("composed")
    out = eng.new_receiver()
    senders = [ch.new_sender() for ch in chans]
    got = []

    async def consume():
        async for s in out:
            got.append(s)

    consumer = asyncio.create_task(consume())
    for _ in range(5):
        await asyncio.sleep(0)
    n = 6
    for tick in range(n + max(lags)):
        for i in range(3):
            step = tick - lags[i]
            if 0 <= step < n:
                await senders[i].send(Sample(T0 + timedelta(seconds=step), Quantity(val(i, step))))
                for _ in range(12):
                    await asyncio.sleep(0)
    for _ in range(40):
        await asyncio.sleep(0)
    consumer.cancel()
    await eng._stop()  # pylint: disable=protected-access
    for e in engines:
        await e._stop()  # pylint: disable=protected-access
    stamps = [int((s.timestamp - T0).total_seconds()) for s in got]
    if stamps != list(range(n)):
        return f"composed formula emitted samples stamped steps {stamps}, demanded {list(range(n))} (none skipped, in order)"
    for s, step in zip(got, stamps):
        want = sum(val(i, step) for i in range(3))
        have = None if s.value is None else s.value.base_value
        if have is None or abs(have - want) > 1e-6:
            return (f"composed sample stamped step {step} has value {have}; the inputs stamped step {step} give {want} "
                    f"(each input = 1000*(engine+1) + step)")
    return None


async def scenario_gaps(step_lists):
    """Streams whose first samples do not line up AND have a gap, so that the first synchronisation attempt fails
    ("unable to synchronise"): the engine drops that round and must synchronise again - afterwards every emitted sample
    stamped T is again the sum of the inputs stamped T, timestamps strictly increase, and the common tail is emitted."""
    from frequenz.channels import Broadcast
    from frequenz.quantities import Quantity
    from frequenz.sdk.timeseries import Sample
    from frequenz.sdk.timeseries.formula_engine._formula_engine import FormulaBuilder
    n = len(step_lists)
    chans = [Broadcast(name=f"gap{i}") for i in range(n)]
    b = FormulaBuilder("gaps", Quantity)
    for i, ch in enumerate(chans):
        b.push_metric(f"m{i}", ch.new_receiver(limit=50), nones_are_zeros=False)
        if i:
            b.push_oper("+")
    eng = b.build()
    out = eng.new_receiver()
    got = []

    async def consume():
        async for smp in out:
            got.append(smp)

    consumer = asyncio.create_task(consume())
    senders = [ch.new_sender() for ch in chans]
    for i, steps in enumerate(step_lists):
        for step in steps:
            await senders[i].send(Sample(T0 + timedelta(seconds=step), Quantity(val(i, step))))
    for _ in range(300):
        await asyncio.sleep(0)
    consumer.cancel()
    await eng._stop()  # pylint: disable=protected-access
    stamps = [int((smp.timestamp - T0).total_seconds()) for smp in got]
    if any(b2 <= a for a, b2 in zip(stamps, stamps[1:])):
        return f"emitted timestamps {stamps} do not strictly increase"
    for smp, step in zip(got, stamps):
        if any(step not in steps for steps in step_lists):
            return f"a sample stamped step {step} was emitted although not every input has a sample of that step ({step_lists})"
        want = sum(val(i, step) for i in range(n))
        have = None if smp.value is None else smp.value.base_value
        if have is None or abs(have - want) > 1e-6:
            return (f"sample stamped step {step} has value {have}; the inputs stamped step {step} give {want} "
                    f"(each input = 1000*(stream+1) + step; streams delivered steps {step_lists})")
    common_tail = [t for t in step_lists[0][-2:] if all(t in steps for steps in step_lists)]
    if any(t not in stamps for t in common_tail):
        return f"steps {common_tail} are delivered by every stream at the end but were not emitted (emitted: {stamps})"
    return None


def run(req):
    logging.disable(logging.CRITICAL)
    t0 = time.time()
    evaluations, failure, samples = 0, None, []
    cases = [(s, m) for s in itertools.product(range(4), repeat=3) for m in ("prebuffered", "interleaved", "burst", "late_consumer")]
    for starts, mode in cases:
        evaluations += 1
        try:
            f = asyncio.run(scenario(starts, mode))
        except Exception as e:  # pylint: disable=broad-except
            f = f"scenario raised {type(e).__name__}: {e}"
        if len(samples) < 2:
            samples.append({"first_steps": starts, "delivery": mode})
        if f:
            failure = (f, {"first_steps": list(starts), "delivery": mode})
            break
    # missing values in time: the first or the second sample of one stream carries None, streams start at different steps
    for starts in itertools.product(range(3), repeat=3):
        for mode, zeros, (which, k) in itertools.product(("prebuffered", "interleaved"), (False, True),
                                                         itertools.product(range(3), (0, 1))):
            if failure:
                break
            missing = frozenset({(which, starts[which] + k)})
            evaluations += 1
            try:
                f = asyncio.run(scenario(starts, mode, missing, zeros))
            except Exception as e:  # pylint: disable=broad-except
                f = f"scenario raised {type(e).__name__}: {e}"
            if f:
                failure = (f, {"first_steps": list(starts), "delivery": mode, "missing (stream, step)": sorted(missing),
                               "nones_are_zeros": zeros})
    gap_cases = [
        [[10, 11, 12, 13, 14, 15, 16, 17, 18], [5, 15, 16, 17, 18]],
        [[0, 2, 3, 4, 5, 6], [1, 2, 3, 4, 5, 6]],
        [[5, 15, 16, 17, 18], [10, 11, 12, 13, 14, 15, 16, 17, 18]],
        [[3, 4, 5, 6, 7, 8], [0, 6, 7, 8], [3, 4, 5, 6, 7, 8]],
        [[0, 1, 2, 3, 4, 5, 6, 7], [2, 3, 4, 5, 6, 7], [1, 5, 6, 7]],
    ]
    for step_lists in gap_cases:
        if failure:
            break
        evaluations += 1
        try:
            f = asyncio.run(scenario_gaps(step_lists))
        except Exception as e:  # pylint: disable=broad-except
            f = f"gap scenario raised {type(e).__name__}: {e}"
        if f:
            failure = (f, {"steps_delivered_per_stream": step_lists})
    three_phase = [(l, m, (0, 0, 0)) for l in itertools.product((0, 1, 4), repeat=3) for m in (1, 2, 50)]
    three_phase += [(l, 50, st) for st in itertools.product(range(3), repeat=3) if st != (0, 0, 0)
                    for l in ((0, 0, 0), (0, 1, 4), (4, 0, 1))]
    for lags, max_size, starts in three_phase:
        if failure:
            break
        evaluations += 1
        try:
            f = asyncio.run(scenario_3phase(lags, max_size, starts))
        except Exception as e:  # pylint: disable=broad-except
            f = f"3-phase scenario raised {type(e).__name__}: {e}"
        if f:
            failure = (f, {"three_phase_first_steps": list(starts), "three_phase_delivery_lags": list(lags),
                           "consumer_max_size": max_size})
    for lags in itertools.product((0, 1, 4), repeat=3):
        if failure:
            break
        evaluations += 1
        try:
            f = asyncio.run(scenario_composed(lags))
        except Exception as e:  # pylint: disable=broad-except
            f = f"composed scenario raised {type(e).__name__}: {e}"
        if f:
            failure = (f, {"composed_formula": "(a + b) + c", "delivery_lags": list(lags)})
    logging.disable(logging.NOTSET)
    out = {"status": "failed" if failure else "ok", "evaluations": evaluations, "distinct": evaluations, "known": {},
           "samples": samples, "wall_s": round(time.time() - t0, 1), "exhaustive": failure is None,
           "rule": "formula m0 + m1 + m2 on three streams; all 64 combinations of first steps 0..3 x 4 delivery modes "
                   "(pre-buffered, interleaved with loop iterations, burst per step, consumer subscribing after the data); "
                   "8 steps per stream; 27 first-step combinations x 2 delivery modes x nones_are_zeros on/off x one None sample "
                   "(first or second sample of one stream): the output is None exactly when an input of ITS timestamp is "
                   "missing (else the missing input counts 0); 5 start-ups whose first synchronisation attempt fails (a gap in a lagging stream) and must be "
                   "repeated; plus the 3-phase engine over three single-metric engines: 27 delivery lags (0/1/4 steps per "
                   "phase) x consumer buffer sizes 1/2/50 with a common first timestamp, and the 26 unaligned first-step "
                   "combinations 0..2 x 3 lag patterns, 6 steps; plus the composed formula (a + b) + c built with the operator "
                   "API over three single-metric engines, 27 delivery lags; all cases distinct"}
    if failure:
        out["failure"] = {"clause": "every sample is computed from inputs of its own timestamp; timestamps consecutive", "detail": failure[0]}
        out["inputs"] = failure[1]
    return out
