"""Bounded stand-in for one clause of C07: a MovingWindow that is asked to resample runs its internal Resampler with
exactly the ResamplerConfig it was given (period and align_to), whatever alignment the window's own ring buffer uses.
BOUNDED (a finite list of configurations).  Runs under /venv/bin/python via native.runner (mode script)."""
import asyncio
import itertools
import time
from datetime import timedelta

from native.explore_movingwindow import T0, config_passthrough


async def first_window(period_s, align_offset_s):
    """C07: the first window end of a new Resampler lies on the align_to grid, after the creation instant and at most
    two periods later - also for an align_to in the (far) future.  (Reads the resampler's `_window_end`.)"""
    from datetime import datetime, timezone
    from frequenz.sdk.timeseries import ResamplerConfig
    from frequenz.sdk.timeseries._resampling import Resampler
    period = timedelta(seconds=period_s)
    before = datetime.now(timezone.utc)
    align = None if align_offset_s is None else before.replace(microsecond=0) + timedelta(seconds=align_offset_s)
    res = Resampler(ResamplerConfig(resampling_period=period, align_to=align))
    after = datetime.now(timezone.utc)
    try:
        we = res._window_end  # pylint: disable=protected-access
    except AttributeError as e:
        return f"SPEC: {e}"
    finally:
        await res.stop()
    if not (before < we <= after + 2 * period):
        return (f"first window end {we.isoformat()} for a resampler created at {before.isoformat()} with period {period_s} s and "
                f"align_to {None if align is None else align.isoformat()}: not within (creation, creation + 2 periods]")
    if align is not None:
        k = (we - align) / period
        if abs(k - round(k)) > 1e-9:
            return f"first window end {we.isoformat()} is not on the grid align_to {align.isoformat()} + k * {period_s} s"
    return None


def run(req):
    t0 = time.time()
    cases = list(itertools.product([None, T0 + timedelta(seconds=0.63), T0, T0 - timedelta(hours=3, seconds=0.7)],
                                   [T0, T0 + timedelta(seconds=0.4)]))
    failure = None
    for ac, aw in cases:
        f = asyncio.run(config_passthrough(ac, aw))
        if f:
            failure = (f, {"resampler_config.align_to": str(ac), "window align_to": str(aw)})
            break
    n_first = 0
    for period_s, off in itertools.product([1.0, 2.0, 10.0], [None, -3.7, -86400.3, 0.0, 12.7, 2.3 * 10, 3600.0, 86400.0]):
        if failure:
            break
        n_first += 1
        f = asyncio.run(first_window(period_s, off))
        if f and f.startswith("SPEC:"):
            continue
        if f:
            failure = (f, {"period_s": period_s, "align_to_offset_from_creation_s": off})
    out = {"status": "failed" if failure else "ok", "evaluations": len(cases) + n_first, "distinct": len(cases) + n_first, "known": {},
           "samples": [{"resampler_config.align_to": str(a), "window align_to": str(b)} for a, b in cases[:2]],
           "wall_s": round(time.time() - t0, 2), "exhaustive": True,
           "rule": "8 combinations of resampler_config.align_to (None, off-grid past, on-grid, far past off-grid) and the "
                   "window's own align_to (epoch grid, +0.4 s); 24 (period, align_to) pairs for the first window end of a new Resampler "
                   "(align_to None, past, now, near and far future); all distinct"}
    if failure:
        out["failure"] = {"clause": "MovingWindow resamples with the given configuration", "detail": failure[0]}
        out["inputs"] = failure[1]
    return out
