"""Bounded stand-in for one clause of C07: a MovingWindow that is asked to resample runs its internal Resampler with
exactly the ResamplerConfig it was given (period and align_to), whatever alignment the window's own ring buffer uses.
BOUNDED (a finite list of configurations).  Runs under /venv/bin/python via native.runner (mode script)."""
import asyncio
import itertools
import time
from datetime import timedelta

from native.explore_movingwindow import T0, config_passthrough


def run(req):
    t0 = time.time()
    cases = list(itertools.product([None, T0 + timedelta(seconds=0.63), T0, T0 - timedelta(hours=3, seconds=0.7)],
                                   [T0, T0 + timedelta(seconds=0.4)]))
    failure = None
    for ac, aw in cases:
        f = asyncio.run(config_passthrough(ac, aw))
        if f:
            failure = (f, {"resampler_config.align_to": str(ac), "window align_to": str(aw)})
            break
    out = {"status": "failed" if failure else "ok", "evaluations": len(cases), "distinct": len(cases), "known": {},
           "samples": [{"resampler_config.align_to": str(a), "window align_to": str(b)} for a, b in cases[:2]],
           "wall_s": round(time.time() - t0, 2), "exhaustive": True,
           "rule": "8 combinations of resampler_config.align_to (None, off-grid past, on-grid, far past off-grid) and the "
                   "window's own align_to (epoch grid, +0.4 s); all distinct"}
    if failure:
        out["failure"] = {"clause": "MovingWindow resamples with the given configuration", "detail": failure[0]}
        out["inputs"] = failure[1]
    return out
