"""Bounded stand-in for C09 (MovingWindow part) and for the configuration pass-through clause of C07: the real
MovingWindow on a real event loop, fed through a real Broadcast channel, against the abstract sliding
time-indexed map of native/explore_ringbuffer.py - for alignment points ON and OFF the epoch grid.

Checked after every history: number of valid slots, oldest / newest timestamps (on the configured grid), `at` by
index and by datetime (aligned, unaligned, just outside the covered range on both sides: must raise IndexError or
return the value of the slot the key rounds to - never another slot's or an evicted value), datetime windows.
With a resampler configuration: the window's resampler runs with exactly the configuration it was given.

BOUNDED (never counted as proved).  Runs under /venv/bin/python via native.runner (mode script).
"""
from __future__ import annotations

import asyncio
import itertools
import math
import random
import time
from datetime import datetime, timedelta, timezone

T0 = datetime(2024, 1, 1, tzinfo=timezone.utc)
PERIOD = timedelta(seconds=1)


class Model:
    """slot -> value for the slots [newest - cap + 1, newest] of the grid align + k * PERIOD."""

    def __init__(self, cap, align):
        self.cap, self.align = cap, align
        self.newest = None
        self.slots = {}

    def slot_of(self, ts):
        q = (ts - self.align) / PERIOD
        fl = math.floor(q)
        frac = q - fl
        if frac > 0.5 or (frac == 0.5 and fl % 2 != 0):
            fl += 1
        return fl

    def ts_of(self, slot):
        return self.align + slot * PERIOD

    def update(self, ts, value):
        s = self.slot_of(ts)
        if self.newest is not None and s < self.newest - self.cap + 1:
            return
        if self.newest is None or s > self.newest:
            self.newest = s
        lo = self.newest - self.cap + 1
        self.slots = {k: v for k, v in self.slots.items() if k >= lo}
        self.slots[s] = value

    def valid(self):
        return sorted(k for k, v in self.slots.items() if v is not None)


async def run_history(cap, align, hist, extra=0.0):
    from frequenz.channels import Broadcast
    from frequenz.quantities import Quantity
    from frequenz.sdk.timeseries import MovingWindow, Sample
    chan = Broadcast(name="mw")
    tx = chan.new_sender()
    m = Model(cap, align)
    # (a window size that is not a whole number of periods is rounded up to the next slot by the window itself)
    async with MovingWindow(size=cap * PERIOD - timedelta(seconds=extra), resampled_data_recv=chan.new_receiver(),
                            input_sampling_period=PERIOD, align_to=align) as mw:
        for off_slots, off, val in hist:
            ts = align + off_slots * PERIOD + timedelta(seconds=off)
            m.update(ts, val)
            await tx.send(Sample(ts, None if val is None else Quantity(val)))
        for _ in range(20):
            await asyncio.sleep(0)
        valid = m.valid()
        if mw.count_valid() != len(valid):
            return f"count_valid()={mw.count_valid()} but {len(valid)} valid slots {valid}"
        if not valid:
            return None
        # (the buffer reports the oldest VALID slot and the newest slot written, valid or not)
        if mw.oldest_timestamp != m.ts_of(valid[0]) or mw.newest_timestamp != m.ts_of(m.newest):
            return (f"oldest/newest = {mw.oldest_timestamp} / {mw.newest_timestamp}, expected "
                    f"{m.ts_of(valid[0])} / {m.ts_of(m.newest)} (align {align.isoformat()})")
        lo, hi = valid[0], m.newest
        # at(datetime): aligned and unaligned keys inside and just outside [oldest, newest]
        for s in range(lo - 1, hi + 2):
            for off in (0.0, 0.3, -0.3, 0.7, -0.7, 0.49):
                key = m.ts_of(s) + timedelta(seconds=off)
                tgt = m.slot_of(key)
                try:
                    got = mw.at(key)
                except IndexError:
                    got = IndexError
                except Exception as e:  # pylint: disable=broad-except
                    return f"at({key.isoformat()}) raised {type(e).__name__}: {e}"
                if got is IndexError:
                    if lo <= tgt <= hi and m.ts_of(lo) <= key <= m.ts_of(hi):
                        return f"at({key.isoformat()}) raised IndexError but the key lies in the covered range (slot {tgt})"
                    continue
                want = m.slots.get(tgt) if lo <= tgt <= hi else None
                if not lo <= tgt <= hi:
                    return (f"at({key.isoformat()}) returned {got}: the key rounds to slot {tgt} outside the covered slots "
                            f"[{lo}, {hi}] (a value of another / an evicted slot)")
                if want is None:
                    if not (isinstance(got, float) and math.isnan(got)):
                        return f"at({key.isoformat()}) = {got} but slot {tgt} holds no valid value"
                elif got != want:
                    return f"at({key.isoformat()}) = {got}, slot {tgt} holds {want}"
        # at(index)
        n = hi - lo + 1
        for i in range(-n, n):
            want = m.slots.get(lo + (i % n))
            got = mw.at(i)
            if (want is None) != (isinstance(got, float) and math.isnan(got)) or (want is not None and got != want):
                return f"at({i}) = {got}, expected {want}"
        # datetime windows on the configured grid
        for a, b in itertools.product(range(lo, hi + 2), repeat=2):
            got = list(mw.window(m.ts_of(a), m.ts_of(b), force_copy=True, fill_value=-777.0))
            want = [m.slots.get(s) if m.slots.get(s) is not None else -777.0 for s in range(a, min(b, hi + 1))] if a < b else []
            if got != want:
                return f"window(slot {a}, slot {b}) = {got}, expected {want}"
    return None


async def config_passthrough(align_cfg, align_win):
    """C07: a window asked to resample does so with the configuration it was given."""
    from frequenz.channels import Broadcast
    from frequenz.sdk.timeseries import MovingWindow, ResamplerConfig
    cfg = ResamplerConfig(resampling_period=timedelta(seconds=2), align_to=align_cfg)
    chan = Broadcast(name="mwr")
    mw = MovingWindow(size=timedelta(seconds=10), resampled_data_recv=chan.new_receiver(),
                      input_sampling_period=PERIOD, resampler_config=cfg, align_to=align_win)
    try:
        res = mw._resampler  # pylint: disable=protected-access
        if res is None:
            return "no resampler was created although a resampler configuration was given"
        if res.config != cfg:
            return (f"the window's resampler runs with {res.config} instead of the configuration it was given ({cfg}): "
                    f"the resampled timeline is not aligned to the configured align_to")
        if mw.sampling_period != cfg.resampling_period:
            return f"sampling_period {mw.sampling_period} != resampling period {cfg.resampling_period}"
    finally:
        await mw.stop()
    return None


def run(req):
    tier = req.get("tier", "quick")
    seed = int(req.get("seed", 0))
    budget = 15 if tier == "quick" else 120
    rng = random.Random(seed)
    t0 = time.time()
    evaluations, distinct, samples = 0, set(), []
    failure = None
    aligns = [T0, T0 + timedelta(seconds=0.4), T0 - timedelta(seconds=0.25)]
    for ac, aw in itertools.product([None, T0 + timedelta(seconds=0.63), T0], [T0, T0 + timedelta(seconds=0.4)]):
        evaluations += 1
        distinct.add(("cfg", str(ac), str(aw)))
        f = asyncio.run(config_passthrough(ac, aw))
        if f:
            failure = (f, {"resampler_config.align_to": str(ac), "window align_to": str(aw)})
            break
    events = [(s, o, v) for s in range(0, 5) for o in (0.0, 0.4, -0.3) for v in (1.0, None)]
    while failure is None and time.time() - t0 < budget:
        cap = rng.choice([1, 2, 3, 4])
        align = rng.choice(aligns)
        n = rng.randint(1, 8)
        base, hist = 0, []
        for _ in range(n):
            base += rng.choice([0, 1, 1, 1, 2, cap, cap + 2])
            s, o, v = rng.choice(events)
            hist.append((base, o, None if v is None else float(10 + base)))
        evaluations += 1
        extra = rng.choice([0.0, 0.0, 0.5, 0.7]) if cap > 1 else 0.0       # sizes like 2.5 s / 3.3 s with a 1 s period
        distinct.add((cap, str(align), tuple(hist), extra))
        try:
            f = asyncio.run(run_history(cap, align, hist, extra))
        except Exception as e:  # pylint: disable=broad-except
            f = f"scenario raised {type(e).__name__}: {e}"
        if len(samples) < 2:
            samples.append({"capacity": cap, "align_to": align.isoformat(), "history": hist})
        if f:
            failure = (f, {"capacity": cap, "window_size_s": cap - extra, "align_to": align.isoformat(), "history": hist})
    out = {"status": "failed" if failure else "ok", "evaluations": evaluations, "distinct": len(distinct), "known": {},
           "samples": samples, "wall_s": round(time.time() - t0, 1),
           "rule": "MovingWindow with capacities 1-4 and align_to on / +0.4 s / -0.25 s off the epoch grid, seeded random update "
                   "histories of 1-8 samples (slot jumps up to capacity+2, offsets 0/+0.4/-0.3 period, valid and None values); "
                   "6 resampler-configuration pass-through cases; distinct = distinct (capacity, alignment, history) triples"}
    if failure:
        out["failure"] = {"clause": "MovingWindow vs abstract sliding map", "detail": failure[0]}
        out["inputs"] = failure[1]
    return out
