"""Contracts for PowerDistributingActor's request scheduling (C14)."""
from pyvc.spec import (contract, Obj, Rec, Opt, ExtObj, DictOpt, OneOf, TaskT, AliasOf, Const, Int, Bool, PowerT, OpaqueT,
                       implies, forall)

A = "frequenz.sdk.microgrid._power_distributing.power_distributing:PowerDistributingActor"
REQ = "frequenz.sdk.microgrid._power_distributing.request:Request"
G1 = frozenset({1})
G2 = frozenset({2, 3})

RequestT = Obj(REQ, power=PowerT, component_ids=OneOf(G1, G2), adjust_power=Bool)
# the component manager is a scripted collaborator: it records every distribute_power() call
ManagerT = ExtObj("ComponentManager",
                  methods=dict(distribute_power=dict(is_async=True, effects={"n_started": "self.n_started + 1",
                                                                             "last_started": "args[0]"}),
                               start=dict(is_async=True), stop=dict(is_async=True)),
                  n_started=Int, last_started=Opt(RequestT))
ActorT = Obj(A, _component_manager=ManagerT,
             _processing_tasks=DictOpt({G1: TaskT(), G2: TaskT()}),
             _pending_requests=DictOpt({G1: RequestT, G2: RequestT}))


def n_started(self):
    """Number of distributions handed to the component manager so far."""
    return self._component_manager.n_started


def last_started(self):
    return self._component_manager.last_started


def same_request(a, b):
    """Requests are compared by content (objects handed around are not copied, but havocked state has no identity)."""
    return (a is not None and b is not None and a.power == b.power and a.adjust_power == b.adjust_power
            and a.component_ids == b.component_ids)


def invariant(self):
    """A request is parked only for a group that has a task registered."""
    return ((not (G1 in self._pending_requests) or G1 in self._processing_tasks)
            and (not (G2 in self._pending_requests) or G2 in self._processing_tasks))


def other(g):
    return G2 if g == G1 else G1


def group_untouched(self, g, old_tasks_has, old_task, old_pending_has, old_pending):
    return ((g in self._processing_tasks) == old_tasks_has
            and (not old_tasks_has or self._processing_tasks[g] is old_task)
            and (g in self._pending_requests) == old_pending_has
            and (not old_pending_has or self._pending_requests[g] is old_pending))


@contract(f"{A}._process_request")
class ProcessRequest:
    """Starts exactly one distribution for the group - only legal when none is in flight for it."""
    self_shape = ActorT
    shapes = dict(req_id=OneOf(G1, G2), request=RequestT)
    modifies = ["self._processing_tasks", "self._component_manager"]
    requires = dict(
        nothing_in_flight_for_group="not (req_id in self._processing_tasks) or self._processing_tasks[req_id].done()",
    )
    ensures = dict(
        exactly_one_started="n_started(self) == old(n_started(self)) + 1 and same_request(last_started(self), request)",
        registered_not_done="req_id in self._processing_tasks and not self._processing_tasks[req_id].done()",
        completion_callback_registered="len(self._processing_tasks[req_id].callbacks) == 1",
        other_group_untouched="(other(req_id) in self._processing_tasks) == old(other(req_id) in self._processing_tasks)"
                              " and implies(other(req_id) in self._processing_tasks,"
                              " self._processing_tasks[other(req_id)] is old(self._processing_tasks.get(other(req_id))))",
        pending_untouched="(G1 in self._pending_requests) == old(G1 in self._pending_requests)"
                          " and (G2 in self._pending_requests) == old(G2 in self._pending_requests)",
    )


@contract(f"{A}._process_request", case="from_run")
class ProcessRequestFromRun(ProcessRequest):
    """At the arrival of a request (_run) a distribution may only be started for a group with NO registered task:
    a registered task that has already finished still has its completion callback pending, and that callback would
    unregister (or overwrite) whatever is registered for the group - a second distribution could then start while
    this one runs."""
    requires = dict(nothing_registered_for_group="not (req_id in self._processing_tasks)")


@contract(f"{A}._handle_task_completion")
class HandleTaskCompletion:
    """When a distribution ends (normally or with an exception) the parked request - the latest one - starts at
    once; without one the group becomes idle.  Other groups are not touched."""
    self_shape = ActorT
    shapes = dict(req_id=OneOf(G1, G2), request=RequestT, task=AliasOf("self._processing_tasks.get(req_id)"))
    modifies = ["self._processing_tasks", "self._pending_requests", "self._component_manager"]
    requires = dict(
        invariant="invariant(self)",
        task_is_the_registered_one="req_id in self._processing_tasks",
        task_finished="task.done() and not task.cancelled()",
    )
    ensures = dict(
        invariant="invariant(self)",
        pending_started_at_once="implies(old(req_id in self._pending_requests),"
                                " n_started(self) == old(n_started(self)) + 1"
                                " and same_request(last_started(self), old(self._pending_requests.get(req_id)))"
                                " and not (req_id in self._pending_requests)"
                                " and req_id in self._processing_tasks and not self._processing_tasks[req_id].done())",
        idle_without_pending="implies(not old(req_id in self._pending_requests),"
                             " n_started(self) == old(n_started(self)) and not (req_id in self._processing_tasks))",
        other_group_untouched="(other(req_id) in self._processing_tasks) == old(other(req_id) in self._processing_tasks)"
                              " and (other(req_id) in self._pending_requests) == old(other(req_id) in self._pending_requests)"
                              " and implies(other(req_id) in self._pending_requests, self._pending_requests[other(req_id)]"
                              " is old(self._pending_requests.get(other(req_id))))",
    )


ReceiverT = ExtObj("frequenz.channels.Receiver", stream=RequestT)
RunActorT = Obj(A, _component_manager=ManagerT, _requests_receiver=ReceiverT,
                _processing_tasks=DictOpt({G1: TaskT(), G2: TaskT()}),
                _pending_requests=DictOpt({G1: RequestT, G2: RequestT}))


def in_flight(self, g):
    return g in self._processing_tasks and not self._processing_tasks[g].done()


@contract(f"{A}._run")
class Run:
    """Arrivals: a request for a group with a distribution in flight is parked (the latest one wins), any other
    starts at once - checked as the precondition of _process_request at its call site."""
    self_shape = RunActorT
    modifies = ["self._processing_tasks", "self._pending_requests", "self._component_manager", "self._requests_receiver"]
    # a registered task may be in flight or already finished with its completion callback still pending - both occur
    use = {f"{A}._process_request": f"{A}._process_request#from_run"}
    requires = dict(
        invariant="invariant(self)",
        nothing_parked_yet="not (G1 in self._pending_requests) and not (G2 in self._pending_requests)",
    )
    loops = {
        "async for request in self._requests_receiver": dict(
            idx="_n",
            ghost_init=["last = {}"],
            ghost_stmts=["last[frozenset(request.component_ids)] = request"],
            havoc={"last": DictOpt({G1: RequestT, G2: RequestT})},
            havoc_fields={"self._processing_tasks": DictOpt({G1: TaskT(), G2: TaskT()}),
                          "self._pending_requests": DictOpt({G1: RequestT, G2: RequestT}),
                          "self._component_manager.calls": OpaqueT("log"), "self._component_manager.results": OpaqueT("log"),
                          "self._component_manager.n_started": Int, "self._component_manager.last_started": Opt(RequestT)},
            invariant=dict(
                invariant="invariant(self)",
                parked_is_latest="implies(G1 in self._pending_requests, G1 in last and same_request(self._pending_requests[G1], last[G1]))"
                                 " and implies(G2 in self._pending_requests, G2 in last and same_request(self._pending_requests[G2], last[G2]))",
            ),
        ),
    }
    ensures = dict(invariant="invariant(self)")


# ------------------------------------------------------------------ how the actor is wired to its request channel
from pyvc.spec import Delta, SetOf   # noqa: E402  pylint: disable=wrong-import-position

PW = "frequenz.sdk.microgrid._power_wrapper"
DEFAULT_BUFFER = 50       # frequenz.channels' default receiver buffer: bursts of requests up to this size are not dropped

ReqChannelT = ExtObj("frequenz.channels.Broadcast", methods=dict(
    new_receiver=dict(returns="rx", effects={"n_receivers": "self.n_receivers + 1",
                                             "limit": "kwargs['limit'] if 'limit' in kwargs else DEFAULT_BUFFER"}),
    new_sender=dict(returns="tx")), n_receivers=Int, limit=Int)
OtherChannelT = ExtObj("frequenz.channels.Broadcast (results / status)", methods=dict(
    new_receiver=dict(returns="other_rx"), new_sender=dict(returns="other_tx")))
DistActorT = ExtObj("PowerDistributingActor", methods=dict(start=dict(effects={"n_started": "self.n_started + 1"})), n_started=Int)
DistFactoryT = ExtObj("PowerDistributingActor factory", methods={"__call__": dict(returns="actor", effects={
    "n_made": "self.n_made + 1", "given_receiver": "kwargs['requests_receiver']"})}, n_made=Int,
    given_receiver=ExtObj("frequenz.channels.Receiver"))
WrapGraphT = ExtObj("ComponentGraph", methods=dict(components=dict(returns="found")))
from pyvc.spec import Enum as EnumT   # noqa: E402  pylint: disable=wrong-import-position
WrapCategoryT = EnumT("ext:frequenz.client.microgrid.ComponentCategory",
                      ["NONE", "GRID", "METER", "INVERTER", "BATTERY", "EV_CHARGER", "CHP"])
WrapperT = Obj(f"{PW}:PowerWrapper", _power_distributing_actor=Opt(DistActorT), _component_category=WrapCategoryT,
               _component_type=OpaqueT("type"), _api_power_request_timeout=Delta,
               _power_distribution_requests_channel=ReqChannelT, _power_distribution_results_channel=OtherChannelT,
               status_channel=OtherChannelT)


@contract(f"{PW}:PowerWrapper._start_power_distributing_actor")
class StartDistributingActor:
    """C14 (wiring): the distributor is created once, started once, and reads requests through a receiver with at least
    the channel library's default buffer - with a one-slot receiver, requests for DIFFERENT groups issued back to back
    overwrite each other before the actor sees them, and the last request of a group is never applied."""
    self_shape = WrapperT
    ghost = dict(conn=ExtObj("ConnectionManager", component_graph=WrapGraphT), found=SetOf(Int),
                 rx=ExtObj("frequenz.channels.Receiver"), tx=ExtObj("frequenz.channels.Sender"),
                 other_rx=ExtObj("frequenz.channels.Receiver"), other_tx=ExtObj("frequenz.channels.Sender"),
                 actor=DistActorT, make_actor=DistFactoryT)
    externals = {"frequenz.sdk.microgrid.connection_manager:get": "conn",
                 "frequenz.sdk.microgrid._power_distributing:PowerDistributingActor": "call make_actor",
                 "frequenz.sdk.microgrid._power_distributing.power_distributing:PowerDistributingActor": "call make_actor"}
    modifies = ["self._power_distributing_actor", "self._power_distribution_requests_channel", "actor", "make_actor", "conn",
                "self._power_distribution_results_channel", "self.status_channel"]
    requires = dict(fresh="self._power_distribution_requests_channel.n_receivers == 0 and actor.n_started == 0"
                          " and make_actor.n_made == 0")
    ensures = dict(
        created_and_started_once_when_missing="implies(old(self._power_distributing_actor is None) and len(found) > 0,"
                                              " make_actor.n_made == 1 and actor.n_started == 1"
                                              " and self._power_distribution_requests_channel.n_receivers == 1"
                                              " and make_actor.given_receiver is rx)",
        request_buffer_not_reduced="implies(make_actor.n_made == 1,"
                                   " self._power_distribution_requests_channel.limit >= DEFAULT_BUFFER)",
        nothing_without_components="implies(len(found) == 0 or old(self._power_distributing_actor is not None), make_actor.n_made == 0)",
    )
