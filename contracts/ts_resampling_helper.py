"""Contracts for _ResamplingHelper / _StreamingHelper (C08)."""
import math

from pyvc.spec import (contract, Obj, Rec, Opt, ExtObj, Seq, Time, Delta, Int, Real, Bool, Qty, OpaqueT,
                       implies, forall, exists)

R = "frequenz.sdk.timeseries._resampling"
SAMPLE = "frequenz.sdk.timeseries._base_types:Sample"

SampleT = Rec(SAMPLE, timestamp=Time, value=Opt(Qty("Quantity")))
# the user's resampling function: a scripted callable that records what it is handed
FunctionT = ExtObj("resampling_function", methods={"__call__": dict(returns=Opt(Real))})
ConfigT = Rec(f"{R}:ResamplerConfig", resampling_period=Delta, max_data_age_in_periods=Real,
              resampling_function=FunctionT, warn_buffer_len=Int, max_buffer_len=Int)
PropsT = Obj(f"{R}:SourceProperties", sampling_start=Opt(Time), received_samples=Int, sampling_period=Opt(Delta))
HelperT = Obj(f"{R}:_ResamplingHelper", _name=OpaqueT("name"), _config=ConfigT,
              _buffer=Seq(SampleT, container="deque", maxlen=Int, sorted_by="timestamp"), _source_properties=PropsT)


def sorted_by_time(buf):
    return forall(0, len(buf), lambda i: forall(i + 1, len(buf), lambda j: buf[i].timestamp <= buf[j].timestamp))


def config_ok(cfg):
    return (cfg.resampling_period.total_seconds() > 0 and cfg.max_data_age_in_periods >= 1
            and 1 <= cfg.warn_buffer_len and cfg.warn_buffer_len <= cfg.max_buffer_len)


def helper_ok(self):
    return (config_ok(self._config) and self._buffer.maxlen >= 1 and len(self._buffer) <= self._buffer.maxlen
            and self._buffer.maxlen <= self._config.max_buffer_len
            and sorted_by_time(self._buffer) and self._source_properties.received_samples >= 0
            and (self._source_properties.sampling_period is None
                 or self._source_properties.sampling_period.total_seconds() > 0))


def window_period(self):
    """max(period, input period): the unit of the relevance window."""
    return (max(self._config.resampling_period, self._source_properties.sampling_period)
            if self._source_properties.sampling_period is not None else self._config.resampling_period)


def relevant(s, t, self):
    """s's timestamp lies in (t - max_age * max(period, input period), t]."""
    return t - window_period(self) * self._config.max_data_age_in_periods < s.timestamp and s.timestamp <= t


def is_suffix(buf, old_buf):
    """buf is the most recent len(buf) samples of old_buf, same order."""
    return len(buf) <= len(old_buf) and forall(
        0, len(buf), lambda i: buf[i] == old_buf[i + (len(old_buf) - len(buf))])


@contract(f"{R}:_ResamplingHelper.add_sample")
class AddSample:
    self_shape = HelperT
    native_opaque = {"name": "series"}
    shapes = dict(sample=SampleT)
    modifies = ["self._buffer", "self._source_properties.sampling_start", "self._source_properties.received_samples"]
    requires = dict(maxlen="self._buffer.maxlen >= 1 and len(self._buffer) <= self._buffer.maxlen")
    ensures = dict(
        newest_last="self._buffer[-1] == sample",
        length="len(self._buffer) == min(old(len(self._buffer)) + 1, self._buffer.maxlen)",
        # (inside old(), len/maxlen are the entry values: shift by one exactly if the deque was full)
        keeps_most_recent="forall(0, len(self._buffer) - 1, lambda i: self._buffer[i]"
                          " == old(self._buffer[i + (1 if len(self._buffer) == self._buffer.maxlen else 0)]))",
        counted="self._source_properties.received_samples == old(self._source_properties.received_samples) + 1",
        start_set_once="self._source_properties.sampling_start == (old(self._source_properties.sampling_start)"
                       " if old(self._source_properties.sampling_start) is not None else sample.timestamp)",
        maxlen_kept="self._buffer.maxlen == old(self._buffer.maxlen)",
    )


@contract(f"{R}:_ResamplingHelper._update_source_sample_period")
class UpdateSourceSamplePeriod:
    self_shape = HelperT
    native_opaque = {"name": "series"}
    shapes = dict(now=Time)
    result = Bool
    modifies = ["self._source_properties.sampling_period"]
    requires = dict(ok="helper_ok(self)")
    ensures = dict(
        computed_once="result == (old(self._source_properties.sampling_period) is None"
                      " and self._source_properties.sampling_period is not None)",
        kept_if_not_updated="implies(not result, self._source_properties.sampling_period"
                            " == old(self._source_properties.sampling_period))",
        only_with_full_buffer="implies(result, len(self._buffer) == self._buffer.maxlen"
                              " and self._source_properties.sampling_start is not None"
                              " and now > self._source_properties.sampling_start)",
        new_period_positive="implies(result, self._source_properties.sampling_period.total_seconds() > 0)",
        invariant_kept="helper_ok(self)",
    )


def wanted_len(self):
    """Buffer length that holds max_age periods of input at the estimated input rate."""
    return math.ceil(self._source_properties.sampling_period.total_seconds() * self._config.max_data_age_in_periods
                     if self._source_properties.sampling_period > self._config.resampling_period
                     else self._config.resampling_period.total_seconds()
                     / self._source_properties.sampling_period.total_seconds() * self._config.max_data_age_in_periods)


@contract(f"{R}:_ResamplingHelper._update_buffer_len")
class UpdateBufferLen:
    self_shape = HelperT
    native_opaque = {"name": "series"}
    result = Bool
    modifies = ["self._buffer"]
    requires = dict(ok="helper_ok(self)", period_known="self._source_properties.sampling_period is not None")
    ensures = dict(
        new_maxlen="self._buffer.maxlen == min(max(1, wanted_len(self)), self._config.max_buffer_len)",
        changed_iff="result == (self._buffer.maxlen != old(self._buffer.maxlen))",
        invariant_kept="helper_ok(self)",
        keeps_most_recent="len(self._buffer) == min(old(len(self._buffer)), self._buffer.maxlen)"
                          " and forall(0, len(self._buffer), lambda i: self._buffer[i]"
                          " == old(self._buffer[i + (len(self._buffer) - min(len(self._buffer), min(max(1, wanted_len(self)), self._config.max_buffer_len)))]))",
    )


def fn(self):
    return self._config.resampling_function


def handed(self):
    """The sequence handed to the resampling function by the last call."""
    return fn(self).calls[-1][1][0]


@contract(f"{R}:_ResamplingHelper.resample")
class HelperResample:
    """C08: the resampling function gets exactly the buffered samples stamped in
    (T - max_age * max(period, input period), T], in arrival order; none => value None."""
    self_shape = HelperT
    native_opaque = {"name": "series"}
    shapes = dict(timestamp=Time)
    result = SampleT
    modifies = ["self._buffer", "self._source_properties.sampling_period", "self._config.resampling_function"]
    requires = dict(ok="helper_ok(self)", fresh_log="len(fn(self).calls) == 0")
    ensures = dict(
        stamped_with_tick="result.timestamp == timestamp",
        buffer_only_shrinks="len(self._buffer) <= old(len(self._buffer))",
        invariant_kept="helper_ok(self)",
        called_iff_some_relevant="(len(fn(self).calls) == 1) == exists(0, len(self._buffer),"
                                 " lambda i: relevant(self._buffer[i], timestamp, self))",
        at_most_one_call="len(fn(self).calls) <= 1",
        none_iff_nothing_relevant="implies(len(fn(self).calls) == 0, result.value is None)",
        value_is_function_result="implies(len(fn(self).calls) == 1, (result.value is None) == (fn(self).results[-1] is None)"
                                 " and (result.value is None or result.value.base_value == fn(self).results[-1]))",
        only_relevant_handed="implies(len(fn(self).calls) == 1, forall(0, len(handed(self)),"
                             " lambda i: relevant(handed(self)[i], timestamp, self)))",
        no_future_samples="implies(len(fn(self).calls) == 1, forall(0, len(handed(self)),"
                          " lambda i: handed(self)[i].timestamp <= timestamp))",
        # the run starts at the first relevant buffered sample and is exactly as long as the relevant ones
        handed_starts_at_first_relevant="implies(len(fn(self).calls) == 1,"
                                        " is_run_of(handed(self), self._buffer, first_relevant(self, timestamp)))",
        nothing_relevant_left_out="implies(len(fn(self).calls) == 1,"
                                  " none_relevant_from(self, timestamp, first_relevant(self, timestamp) + len(handed(self))))",
    )


def is_run_of(run, buf, m):
    """run == buf[m : m + len(run)]."""
    return m + len(run) <= len(buf) and forall(0, len(run), lambda i: run[i] == buf[m + i])


def none_relevant_from(self, t, k):
    return forall(k, len(self._buffer), lambda i: not relevant(self._buffer[i], t, self))


def first_relevant(self, t):
    """Index of the first buffered sample that is relevant for tick t (len(buffer) if none)."""
    return next((i for i, s in enumerate(self._buffer) if relevant(s, t, self)), len(self._buffer))


# a scripted _ResamplingHelper that counts what it is given (used for _StreamingHelper._receive_samples)
CountingHelperT = ExtObj(
    f"{R}._ResamplingHelper",
    methods=dict(add_sample=dict(effects={
        "n_added": "self.n_added + 1",
        "n_missing_added": "self.n_missing_added + (1 if (args[0].value is None or args[0].value.isnan()) else 0)"})),
    n_added=Int, n_missing_added=Int)
SourceT = ExtObj("source", stream=SampleT)


@contract(f"{R}:_StreamingHelper._receive_samples")
class ReceiveSamples:
    """C08: None / NaN samples are never buffered; every other received sample is."""
    mode = "ieee"
    self_shape = Obj(f"{R}:_StreamingHelper", _helper=CountingHelperT, _source=SourceT)
    modifies = ["self._helper", "self._source"]
    requires = dict(fresh="self._helper.n_added == 0 and self._helper.n_missing_added == 0")
    loops = {
        "async for sample in self._source": dict(
            idx="_n",
            havoc_fields={"self._helper.n_added": Int, "self._helper.n_missing_added": Int,
                          "self._helper.calls": OpaqueT("log"), "self._helper.results": OpaqueT("log")},
            invariant=dict(never_buffers_missing="self._helper.n_missing_added == 0",
                           at_most_one_per_sample="0 <= self._helper.n_added and self._helper.n_added <= _n"),
        ),
    }
    ensures = dict(never_buffers_missing="self._helper.n_missing_added == 0")
