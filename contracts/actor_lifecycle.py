"""Contracts for actor restart policy and clean stop (C10)."""
from pyvc.spec import (contract, Obj, Opt, ExtObj, FixedList, TaskT, Int, Bool, Delta, OpaqueT, Const,
                       implies, forall, new_pending_task)

ACT = "frequenz.sdk.actor._actor"
BGS = "frequenz.sdk.actor._background_service"

# the actor's run logic, as a scripted collaborator: every invocation ends by returning, raising an
# Exception, being cancelled, or raising another BaseException - and is counted
ProbeT = ExtObj("ActorRunLogic", methods=dict(run=dict(
    is_async=True, raises=["Exception", "CancelledError", "KeyboardInterrupt"],
    effects={"n_runs": "self.n_runs + 1"})), n_runs=Int)
ActorT = Obj(f"{ACT}:Actor", _restart_limit=Opt(Int), _name=OpaqueT("name"), RESTART_DELAY=Delta)


@contract(f"{ACT}:Actor._run_loop")
class RunLoop:
    """The run logic is invoked again after an Exception (while the limit allows), never after a normal
    return, a cancellation or another BaseException; n-th restart is preceded by the restart delay."""
    self_shape = ActorT
    ghost = dict(probe=ProbeT)
    externals = {f"{ACT}:Actor._run": "probe.run()"}
    inline = [f"{ACT}:Actor._delay_if_restart"]
    modifies = ["probe"]
    requires = dict(fresh="probe.n_runs == 0", limit="self._restart_limit is None or self._restart_limit >= 0")
    loops = {"while True": dict(
        havoc_fields={"probe.n_runs": Int, "probe.calls": OpaqueT("log"), "probe.results": OpaqueT("log")},
        invariant=dict(
            one_run_per_restart="probe.n_runs == n_restarts",
            within_limit="n_restarts >= 0 and (self._restart_limit is None or n_restarts <= self._restart_limit)",
        ))}
    raises = dict(CancelledError="True",
                  Exception="self._restart_limit is not None and probe.n_runs == self._restart_limit + 1",
                  BaseException="True")
    ensures = dict(at_least_one_run="probe.n_runs >= 1",
                   runs_bounded="self._restart_limit is None or probe.n_runs <= self._restart_limit + 1")
    ensures_on_raise = dict(runs_bounded="self._restart_limit is None or probe.n_runs <= self._restart_limit + 1")


TasksT = FixedList(TaskT(), TaskT(), container="set", optional=True)
ServiceT = Obj(f"{BGS}:BackgroundService", _name=OpaqueT("name"), _tasks=TasksT)


def all_done(tasks):
    return all(t.done() for t in tasks)


def all_cancel_requested(tasks):
    return all(t.cancel_requested or t.done() for t in tasks)


@contract(f"{ACT}:Actor.start")
class ActorStart:
    """Idempotent: a running actor is left alone; otherwise exactly one new run-loop task."""
    self_shape = Obj(f"{ACT}:Actor", _restart_limit=Opt(Int), _name=OpaqueT("name"), _tasks=TasksT)
    modifies = ["self._tasks"]
    ensures = dict(
        running_left_alone="implies(old(not all_done(self._tasks)), len(self._tasks) == old(len(self._tasks)))",
        otherwise_one_fresh_task="implies(old(all_done(self._tasks)), len(self._tasks) == 1 and not all_done(self._tasks))",
    )


@contract(f"{BGS}:BackgroundService.cancel")
class Cancel:
    self_shape = ServiceT
    shapes = dict(msg=Const(None))
    modifies = ["self._tasks"]
    ensures = dict(every_task_asked_to_cancel="all(t.cancel_requested for t in self._tasks)")


def ended_normally(t):
    return t.done() and not t.cancelled() and t.exception() is None


@contract(f"{BGS}:BackgroundService.stop")
class Stop:
    """Stopping cancels every task the service spawned - including tasks added while it waits - and
    returns only after all of them have finished."""
    self_shape = ServiceT
    shapes = dict(msg=Const(None))
    modifies = ["self._tasks"]
    inline = [f"{BGS}:BackgroundService.cancel", f"{BGS}:BackgroundService.wait"]
    ghost_init = ["late = []", "spawned = list(self._tasks)"]
    # rely: while stop() awaits, somebody (a task's own CancelledError handler, say) may add one more task
    at_await = ["if len(late) < 1:\n    t_ = new_pending_task()\n    self._tasks.add(t_)\n    late.append(t_)"]
    raises = dict(BaseExceptionGroup="True")
    ensures = dict(
        original_tasks_finished="all(t.done() for t in spawned)",
        late_tasks_finished_too="all(t.done() for t in late)",
        # the part of the clause above that the unchanged tree does satisfy (outside the known finding): when the
        # tasks present at the call all end without raising, wait() loops and a task added meanwhile is awaited too
        late_tasks_finished_when_first_batch_clean="implies(all(ended_normally(t) for t in spawned),"
                                                   " all(t.done() for t in late))",
    )
    ensures_on_raise = dict(
        original_tasks_finished="all(t.done() for t in spawned)",
    )


@contract(f"{BGS}:BackgroundService.wait")
class Wait:
    """wait() on its own (C10: "returns only after every task it spawned has finished"): a normal return means that every
    task of the service - those present at the call and one added while it waited - has finished, none of them by an
    exception or a cancellation, and the service holds no task any more; when it raises the exception group instead, every
    task that was present at the call has finished and at least one of them did not end normally. Nothing is cancelled."""
    self_shape = ServiceT
    modifies = ["self._tasks"]
    ghost_init = ["late = []", "spawned = list(self._tasks)"]
    at_await = Stop.at_await
    raises = dict(BaseExceptionGroup="True")
    ensures = dict(
        original_tasks_finished="all(t.done() for t in spawned)",
        late_tasks_finished_too="all(t.done() for t in late)",
        returns_normally_only_if_all_ended_normally="all(ended_normally(t) for t in spawned)"
                                                    " and all(ended_normally(t) for t in late)",
        no_task_left="len(self._tasks) == 0",
    )
    ensures_on_raise = dict(
        original_tasks_finished="all(t.done() for t in spawned)",
        raised_only_for_a_failed_or_cancelled_task="not all(ended_normally(t) for t in spawned)"
                                                   " or not all(ended_normally(t) for t in late)",
    )


# ------------------------------------------------------------------ run(*actors)
RU = "frequenz.sdk.actor._run_utils"
ActorExtT = ExtObj("Actor", methods=dict(
    start=dict(effects={"n_started": "self.n_started + 1", "is_running": "True"}),
    wait=dict(is_async=True, raises=["BaseExceptionGroup", "CancelledError"])),
    is_running=Bool, n_started=Int)


@contract(f"{RU}:run")
class RunActors:
    """Running a group of actors: every actor that is not running is started exactly once (running ones are left
    alone), one waiter per actor is created, and the call returns only when every waiter has finished - however
    each one ended (normally, by an exception, cancelled) and in whatever order; nothing is raised."""
    shapes = dict(actors=FixedList(ActorExtT, ActorExtT, container="tuple"))
    aliases = dict(A0="actors[0]", A1="actors[1]")
    modifies = ["actors"]
    requires = dict(fresh="A0.n_started == 0 and A1.n_started == 0", distinct="not (A0 is A1)")
    ensures = dict(
        started_iff_not_running="A0.n_started == (0 if old(A0.is_running) else 1)"
                                " and A1.n_started == (0 if old(A1.is_running) else 1)",
        one_waiter_per_actor="len(created_tasks) == 2",
        returns_only_when_all_finished="all(t.done() for t in created_tasks)",
    )


@contract(f"{ACT}:Actor._delay_if_restart")
class DelayIfRestart:
    """Every restart (iteration > 0) is preceded by exactly one sleep of THIS actor's restart delay (a subclass may
    configure its own RESTART_DELAY); the first run is not delayed."""
    self_shape = ActorT
    shapes = dict(iteration=Int)
    ghost_init = ["sleeps = []"]      # the delays handed to asyncio.sleep, in order (recorded by the sleep model)
    ensures = dict(
        first_run_not_delayed="implies(iteration <= 0, len(sleeps) == 0)",
        restart_delayed_by_own_delay="implies(iteration > 0, len(sleeps) == 1 and sleeps[0] == self.RESTART_DELAY.total_seconds())",
    )
