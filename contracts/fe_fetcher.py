"""Contracts for MetricFetcher's primary/fallback switching (C19) and stream consumption (C06)."""
import math
from datetime import timedelta

from pyvc.spec import (contract, Obj, Rec, Opt, ExtObj, Time, Delta, Int, Bool, Qty, OpaqueT, implies, forall)

S = "frequenz.sdk.timeseries.formula_engine._formula_steps"
try:
    from frequenz.sdk.timeseries._base_types import Sample
except ImportError:
    Sample = None

SampleT = Rec("frequenz.sdk.timeseries._base_types:Sample", timestamp=Time, value=Opt(Qty("Power")))

# A stream on the common resampling grid: the k-th receive() returns the sample stamped next_ts and advances
# next_ts by one grid step - or the stream is closed / erroring and receive() raises.  Timestamps are counted
# in grid steps (STEP = 1 tick): every grid is isomorphic to the integers, and the code only compares timestamps.
STEP = timedelta(microseconds=1)
RECEIVE = dict(is_async=True, raise_before_effects=True, returns="Sample(pre.next_ts, fresh)", fresh=Opt(Qty("Power")),
               effects={"next_ts": "self.next_ts + STEP", "n_received": "self.n_received + 1"},
               raises=["ReceiverStoppedError", "ReceiverError"])
StreamT = ExtObj("frequenz.channels.Receiver", methods=dict(receive=RECEIVE), next_ts=Time, n_received=Int,
                  last_result=Opt(SampleT))
FallbackT = ExtObj("FallbackMetricFetcher",
                   methods=dict(receive=RECEIVE, start=dict(effects={"is_running": "True", "n_started": "self.n_started + 1"})),
                   next_ts=Time, n_received=Int, is_running=Bool, n_started=Int, name=OpaqueT("name"),
                   last_result=Opt(SampleT))
FetcherT = Obj(f"{S}:MetricFetcher", _name=OpaqueT("name"), _stream=StreamT, _next_value=Opt(SampleT),
               _nones_are_zeros=Bool, _fallback=Opt(FallbackT), _latest_fallback_sample=Opt(SampleT))


def valid(sample):
    """The sample carries a usable value (not None / NaN / infinite)."""
    return sample is not None and sample.value is not None and not sample.value.isnan() and not sample.value.isinf()


@contract(f"{S}:MetricFetcher._synchronize_and_fetch_fallback")
class SynchronizeFallback:
    """Reads the fallback stream forward (never re-reads) until it reaches the primary sample's timestamp;
    None if the fallback failed or is already ahead of the primary sample."""
    self_shape = FetcherT
    shapes = dict(primary_fetcher_sample=SampleT, fallback_fetcher=FallbackT)
    result = Opt(SampleT)
    modifies = ["self._latest_fallback_sample", "fallback_fetcher"]
    requires = dict(
        cursor="self._latest_fallback_sample is None or"
               " fallback_fetcher.next_ts == self._latest_fallback_sample.timestamp + STEP",
    )
    loops = {"while primary_fetcher_sample.timestamp > self._latest_fallback_sample.timestamp": dict(
        havoc_fields={"self._latest_fallback_sample": Opt(SampleT), "fallback_fetcher.next_ts": Time,
                      "fallback_fetcher.n_received": Int, "fallback_fetcher.calls": OpaqueT("log"),
                      "fallback_fetcher.results": OpaqueT("log")},
        invariant=dict(
            has_sample="self._latest_fallback_sample is not None",
            cursor="fallback_fetcher.next_ts == self._latest_fallback_sample.timestamp + STEP",
            never_past_primary="self._latest_fallback_sample.timestamp <= primary_fetcher_sample.timestamp",
        ))}
    raises = dict(TypeError="False")
    ensures = dict(
        same_timestamp_when_returned="implies(result is not None, result.timestamp == primary_fetcher_sample.timestamp)",
        returned_is_latest_read="implies(result is not None, same_sample(result, self._latest_fallback_sample))",
        fallback_only_read="fallback_fetcher.n_started == old(fallback_fetcher.n_started)"
                           " and fallback_fetcher.is_running == old(fallback_fetcher.is_running)",
        cursor_kept="self._latest_fallback_sample is None or"
                    " fallback_fetcher.next_ts == self._latest_fallback_sample.timestamp + STEP",

    )


def latest_ts(self):
    return self._latest_fallback_sample.timestamp if self._latest_fallback_sample is not None else None


def same_sample(a, b):
    return (a is not None and b is not None and a.timestamp == b.timestamp
            and ((a.value is None) == (b.value is None))
            and (a.value is None or a.value.base_value == b.value.base_value
                 or (a.value.isnan() and b.value.isnan())))


@contract(f"{S}:MetricFetcher.fetch_next_with_fallback")
class FetchNextWithFallback:
    """A valid primary sample is used; an invalid one is replaced by the fallback sample OF THE SAME TIMESTAMP;
    without a synchronised fallback the primary sample is passed on; a failed primary stream yields the fallback's."""
    mode = "ieee"
    self_shape = FetcherT
    shapes = dict(fallback_fetcher=FallbackT)
    result = SampleT
    modifies = ["self._latest_fallback_sample", "self._stream", "fallback_fetcher"]
    inline = [f"{S}:MetricFetcher._is_value_valid"]
    requires = dict(
        cursor="self._latest_fallback_sample is None or"
               " fallback_fetcher.next_ts == self._latest_fallback_sample.timestamp + STEP",
    )
    raises = dict(ReceiverStoppedError="True", ReceiverError="True", TypeError="False")
    ensures = dict(
        valid_primary_wins="implies(self._stream.n_received > old(self._stream.n_received) and valid(primary_of(self)),"
                           " same_sample(result, primary_of(self)))",
        fallback_has_primary_timestamp="implies(self._stream.n_received > old(self._stream.n_received),"
                                       " result.timestamp == primary_of(self).timestamp)",
        invalid_primary_replaced_by_fallback="implies(self._stream.n_received > old(self._stream.n_received)"
                                             " and not valid(primary_of(self)) and not same_sample(result, primary_of(self)),"
                                             " same_sample(result, self._latest_fallback_sample))",
        fallback_only_read="fallback_fetcher.n_started == old(fallback_fetcher.n_started)"
                           " and fallback_fetcher.is_running == old(fallback_fetcher.is_running)",
        cursor_kept="implies(self._stream.n_received > old(self._stream.n_received),"
                    " self._latest_fallback_sample is None or"
                    " fallback_fetcher.next_ts == self._latest_fallback_sample.timestamp + STEP)",
    )


def primary_of(self):
    """The sample the primary stream delivered in this call."""
    return self._stream.last_result


@contract(f"{S}:MetricFetcher._fetch_next")
class FetchNextInner:
    """No fallback: plain receive.  First invalid primary sample (or stream failure): the fallback is started -
    once - and the invalid sample handed on.  Fallback running: fetch_next_with_fallback."""
    mode = "ieee"
    self_shape = FetcherT
    result = Opt(SampleT)
    modifies = ["self._latest_fallback_sample", "self._stream", "self._fallback"]
    inline = [f"{S}:MetricFetcher._is_value_valid"]
    requires = dict(
        cursor="self._fallback is None or self._latest_fallback_sample is None or"
               " self._fallback.next_ts == self._latest_fallback_sample.timestamp + STEP",
    )
    raises = dict(ReceiverStoppedError="old(self._fallback is None or self._fallback.is_running)",
                  ReceiverError="old(self._fallback is None or self._fallback.is_running)", TypeError="False")
    ensures = dict(
        fallback_started_lazily_and_once="implies(self._fallback is not None,"
                                         " self._fallback.n_started <= old(self._fallback.n_started) + 1"
                                         " and (self._fallback.n_started == old(self._fallback.n_started)"
                                         "      or not old(self._fallback.is_running)))",
        fallback_started_iff_primary_bad="implies(self._fallback is not None and not old(self._fallback.is_running),"
                                         " (self._fallback.n_started == old(self._fallback.n_started) + 1)"
                                         " == (result is None or not valid(result)))",
        no_fallback_plain_receive="implies(self._fallback is None, same_sample(result, primary_of(self)))",
    )


# ------------------------------------------------------------------ the fallback's subscription
FBF = "frequenz.sdk.timeseries.formula_engine._formula_generators._fallback_formula_metric_fetcher"

DEFAULT_BUFFER = 50                 # FormulaEngine.new_receiver's default max_size

FallbackEngineT = ExtObj("frequenz.sdk.timeseries.formula_engine._formula_engine:FormulaEngine", methods=dict(
    new_receiver=dict(returns="rx", effects={"n_receivers": "self.n_receivers + 1",
                                             "buffer": "kwargs['max_size'] if 'max_size' in kwargs else"
                                                       " (args[1] if len(args) > 1 else DEFAULT_BUFFER)"})),
    n_receivers=Int, buffer=Int)
GeneratorT = ExtObj("FormulaGenerator", methods=dict(generate=dict(returns="engine")))


@contract(f"{FBF}:FallbackFormulaMetricFetcher.start")
class FallbackStart:
    """The fallback formula is generated once and subscribed to once, with (at least) the engine's default
    buffering: the stream model used for _synchronize_and_fetch_fallback - fallback results are delivered in order
    and none is lost while the primary lags by less than the buffer - rests on it."""
    self_shape = Obj(f"{FBF}:FallbackFormulaMetricFetcher", _name=OpaqueT("name"), _formula_generator=GeneratorT,
                     _formula_engine=Opt(OpaqueT("engine")), _receiver=Opt(OpaqueT("receiver")))
    ghost = dict(engine=FallbackEngineT, rx=ExtObj("frequenz.channels.Receiver"))
    modifies = ["self._formula_engine", "self._receiver", "self._formula_generator", "engine"]
    requires = dict(fresh="engine.n_receivers == 0")
    ensures = dict(
        subscribed_once="engine.n_receivers == 1 and self._receiver is rx and self._formula_engine is engine",
        buffer_not_reduced="engine.buffer >= DEFAULT_BUFFER",
    )


# ------------------------------------------------------------------ which components can stand in for a meter
FG = "frequenz.sdk.timeseries.formula_engine._formula_generators._formula_generator"
from pyvc.spec import FixedList, Const   # noqa: E402  pylint: disable=wrong-import-position

KIND_CHP = 0
KIND_PV = 1
KIND_BATTERY_INVERTER = 2
KIND_EV = 3
KIND_OTHER = 4
# a component of the graph, with what the graph says about it as a ghost field (`kind`)
GraphCompT = Rec("ext:frequenz.client.microgrid.Component", component_id=Int, kind=Int)
from pyvc.spec import Enum as EnumT   # noqa: E402  pylint: disable=wrong-import-position
CategoryT = EnumT("ext:frequenz.client.microgrid.ComponentCategory",
                  ["NONE", "GRID", "METER", "INVERTER", "BATTERY", "EV_CHARGER", "CHP"])
MeterT = Rec("ext:frequenz.client.microgrid.Component", component_id=Int, category=CategoryT)
try:
    from frequenz.client.microgrid import ComponentCategory
except ImportError:
    pass
GraphT = ExtObj("ComponentGraph", methods=dict(
    successors=dict(returns="succ"),
    is_chp=dict(returns="args[0].kind == KIND_CHP"), is_pv_inverter=dict(returns="args[0].kind == KIND_PV"),
    is_battery_inverter=dict(returns="args[0].kind == KIND_BATTERY_INVERTER"),
    is_ev_charger=dict(returns="args[0].kind == KIND_EV")))


def uniform_fallback_kind(succ):
    """All successors of the meter are CHPs, or all PV inverters, or all battery inverters, or all EV chargers."""
    return any(all(c.kind == k for c in succ) for k in (KIND_CHP, KIND_PV, KIND_BATTERY_INVERTER, KIND_EV))


@contract(f"{FG}:FormulaGenerator._get_meter_fallback_components")
class MeterFallbackComponents:
    """C19 (which components a meter term falls back to): the meter's successors, exactly when they are all of one
    kind that can be measured directly - CHPs, PV inverters, battery inverters or EV chargers; otherwise none."""
    self_shape = Obj(f"{FG}:FormulaGenerator")
    shapes = dict(meter=MeterT)
    requires = dict(is_a_meter="meter.category == ComponentCategory.METER")
    ghost = dict(conn=ExtObj("ConnectionManager", component_graph=GraphT),
                 succ=FixedList(GraphCompT, GraphCompT, container="set"))
    externals = {"frequenz.sdk.microgrid.connection_manager:get": "conn"}
    modifies = ["conn"]
    ensures = dict(
        successors_when_uniform="implies(uniform_fallback_kind(succ), result is succ)",
        none_otherwise="implies(not uniform_fallback_kind(succ), len(result) == 0)",
    )
