"""Contracts for the accounting of distribution results (C15): battery pools and PV pools."""
from pyvc.spec import (contract, Obj, Rec, Opt, ExtObj, DictOpt, TaskT, Subset, Const, Tup, Real, Int, Bool, Delta,
                       PowerT, OpaqueT, OneOf, implies, forall)

PD = "frequenz.sdk.microgrid._power_distributing"
BM = f"{PD}._component_managers._battery_manager:BatteryManager"
PV = f"{PD}._component_managers._pv_inverter_manager._pv_inverter_manager:PVManager"
ALG = f"{PD}._distribution_algorithm._battery_distribution_algorithm"
CONN = "frequenz.sdk.microgrid.connection_manager:get"

API_OUTCOMES = ("returned", "OperationOutOfRange", "ApiClientError", "CancelledError", "Exception")
# topology of this sidecar: inverter 11 serves batteries {1, 2}; inverter 12 serves battery {3}
INV_BATS = {11: frozenset({1, 2}), 12: frozenset({3})}
RequestT = Obj(f"{PD}.request:Request", power=PowerT, component_ids=Const(frozenset({1, 2, 3})), adjust_power=Bool)
DistResultT = Obj(f"{ALG}:DistributionResult", distribution=DictOpt({11: Real, 12: Real}), remaining_power=Real)


def failed_task(t):
    """The set_power call did not succeed: rejected, errored, or no reply before the timeout (cancelled)."""
    return t.done() and (t.cancelled() or t.exception() is not None)


def setpoint(distribution, inv):
    return distribution[inv] if inv in distribution else 0.0


@contract(f"{BM}._parse_result")
class ParseResult:
    """failed power = sum of the set-points whose call failed; failed batteries = those behind these inverters."""
    self_shape = Obj(BM, _inv_bats_map=Const(INV_BATS))
    shapes = dict(tasks=DictOpt({11: TaskT(API_OUTCOMES), 12: TaskT(API_OUTCOMES)}),
                  distribution=DictOpt({11: Real, 12: Real}), request_timeout=Delta)
    result = Tup(Real, Subset([1, 2, 3]))
    pure = True
    requires = dict(
        one_task_per_setpoint="(11 in tasks) == (11 in distribution) and (12 in tasks) == (12 in distribution)",
        all_finished="(not (11 in tasks) or tasks[11].done()) and (not (12 in tasks) or tasks[12].done())",
    )
    ensures = dict(
        failed_power_is_sum_of_failed_setpoints="result[0] == (setpoint(distribution, 11) if 11 in tasks and failed_task(tasks[11]) else 0.0)"
                                                " + (setpoint(distribution, 12) if 12 in tasks and failed_task(tasks[12]) else 0.0)",
        failed_batteries_behind_failed_inverters="(1 in result[1]) == (11 in tasks and failed_task(tasks[11]))"
                                                 " and (2 in result[1]) == (11 in tasks and failed_task(tasks[11]))"
                                                 " and (3 in result[1]) == (12 in tasks and failed_task(tasks[12]))",
    )


TrackerT = ExtObj("ComponentPoolStatusTracker", methods=dict(update_status=dict(is_async=True)))
RESULT = f"{PD}.result"


def all_batteries(distribution):
    return ({1, 2} if 11 in distribution else set()) | ({3} if 12 in distribution else set())


@contract(f"{BM}._set_distributed_power", case="assumed_by_distribute")
class SetDistributedPowerAbstract:
    """What _distribute_power relies on (proved below for the real function)."""
    self_shape = Obj(BM, _inv_bats_map=Const(INV_BATS))
    shapes = dict(distribution=DistResultT, timeout=Delta)
    ghost = dict(conn=None)      # (filled below: the same scripted API client as the full contract)
    result = Tup(Real, Subset([1, 2, 3]))
    ensures = dict(failed_are_addressed="all(b in all_batteries(distribution.distribution) for b in result[1])")


@contract(f"{BM}._distribute_power")
class DistributePower:
    """succeeded + failed + excess = requested; Success iff nothing failed; the two sets partition the addressed batteries."""
    self_shape = Obj(BM, _inv_bats_map=Const(INV_BATS), _component_pool_status_tracker=TrackerT,
                     _api_power_request_timeout=Delta)
    shapes = dict(request=RequestT, distribution=DistResultT)
    result = OpaqueT("result")
    modifies = ["self._component_pool_status_tracker"]
    use = {f"{BM}._set_distributed_power": f"{BM}._set_distributed_power#assumed_by_distribute"}
    ensures = dict(
        powers_add_up="result.succeeded_power + failed_power_of(result) + result.excess_power == request.power",
        excess_is_remainder="result.excess_power.as_watts() == distribution.remaining_power",
        success_iff_nothing_failed="is_success(result) == (len(failed_of(result)) == 0)",
        disjoint="all(not (b in failed_of(result)) for b in result.succeeded_components)",
        together_all_addressed="all((b in result.succeeded_components or b in failed_of(result))"
                               " == (b in all_batteries(distribution.distribution)) for b in (1, 2, 3))",
        status_tracker_told_once="len(self._component_pool_status_tracker.calls) == old(len(self._component_pool_status_tracker.calls)) + 1",
    )


def is_success(r):
    return type(r).__name__ == "Success"


def failed_of(r):
    return r.failed_components if type(r).__name__ == "PartialFailure" else set()


def failed_power_of(r):
    from frequenz.quantities import Power
    return r.failed_power if type(r).__name__ == "PartialFailure" else Power.zero()


# the microgrid API client: a scripted collaborator whose set_power may succeed, be rejected, error,
# raise something unexpected - or not answer before the timeout (decided by asyncio.wait's model)
ApiT = ExtObj("ApiClient", methods=dict(set_power=dict(
    is_async=True, raises=["OperationOutOfRange", "ApiClientError", "Exception"],
    effects={"n_calls": "self.n_calls + 1", "sum_set": "self.sum_set + args[1]"})), n_calls=Int, sum_set=Real)
ConnT = ExtObj("ConnectionManager", api_client=ApiT)


@contract(f"{BM}._set_distributed_power")
class SetDistributedPower:
    """One set_power call per set-point with exactly that power; unanswered calls are cancelled and count as failed."""
    self_shape = Obj(BM, _inv_bats_map=Const(INV_BATS))
    shapes = dict(distribution=DistResultT, timeout=Delta)
    ghost = dict(conn=ConnT)
    externals = {CONN: "conn"}
    result = Tup(Real, Subset([1, 2, 3]))
    modifies = ["conn"]
    inline = [f"{BM}._cancel_tasks"]
    use = {}
    ghost_init = ["wait_timeouts = []"]     # the timeouts handed to asyncio.wait, in order (recorded by the wait model)
    requires = dict(fresh="conn.api_client.n_calls == 0 and conn.api_client.sum_set == 0")
    ensures = dict(
        # "no reply before the timeout" is judged against the CONFIGURED timeout, fractions of a second included
        waits_for_the_configured_timeout="len(wait_timeouts) == 1 and wait_timeouts[0] == timeout.total_seconds()",
        one_call_per_setpoint="conn.api_client.n_calls == len(distribution.distribution)",
        commanded_power_is_the_distribution="conn.api_client.sum_set == setpoint(distribution.distribution, 11)"
                                            " + setpoint(distribution.distribution, 12)",
        failed_are_addressed=SetDistributedPowerAbstract.ensures["failed_are_addressed"],
        failed_power_bounded_by_setpoints="implies(len(result[1]) == 0, result[0] == 0)",
    )


PvRequestT = Obj(f"{PD}.request:Request", power=PowerT, component_ids=Const(frozenset({21, 22})), adjust_power=Bool)
SenderT = ExtObj("frequenz.channels.Sender", methods=dict(send=dict(is_async=True, effects={"last": "args[0]", "n_sent": "self.n_sent + 1"})),
                 n_sent=Int, last=Opt(OpaqueT("result")))


def sent(self):
    return self._results_sender.last


@contract(f"{PV}._set_api_power")
class PvSetApiPower:
    """PV pools: the reported succeeded + failed + excess power is the requested power."""
    self_shape = Obj(PV, _results_sender=SenderT, _api_power_request_timeout=Delta, _target_power=PowerT)
    shapes = dict(request=PvRequestT, allocations=DictOpt({21: PowerT, 22: PowerT}), remaining_power=PowerT)
    ghost = dict(conn=ConnT)
    externals = {CONN: "conn"}
    modifies = ["conn", "self._results_sender"]
    requires = dict(
        fresh_api="conn.api_client.n_calls == 0 and conn.api_client.sum_set == 0",
        fresh_sender="self._results_sender.n_sent == 0",
        # what distribute_power hands over (its own contract): the allocations and the remainder make up the request
        allocations_account_for_request="pv_alloc(allocations, 21) + pv_alloc(allocations, 22) + remaining_power == request.power",
    )
    ghost_init = ["wait_timeouts = []"]     # the timeouts handed to asyncio.wait, in order (recorded by the wait model)
    ensures = dict(
        waits_for_the_configured_timeout="all(t == self._api_power_request_timeout.total_seconds() for t in wait_timeouts)",
        exactly_one_result="self._results_sender.n_sent == 1",
        one_call_per_allocation="conn.api_client.n_calls == len(allocations)",
        powers_add_up="sent(self).succeeded_power + failed_power_of(sent(self)) + sent(self).excess_power == request.power",
        failed_power_is_sum_of_failed_allocations="is_success(sent(self)) == (len(failed_of(sent(self))) == 0)",
        disjoint="all(not (c in failed_of(sent(self))) for c in sent(self).succeeded_components)",
        together_all_addressed="all((c in sent(self).succeeded_components or c in failed_of(sent(self))) == (c in allocations)"
                               " for c in (21, 22))",
    )


def pv_alloc(allocations, inv):
    from frequenz.quantities import Power
    return allocations[inv] if inv in allocations else Power.zero()


SetDistributedPowerAbstract.ghost = dict(conn=ConnT)
SetDistributedPowerAbstract.externals = {CONN: "conn"}
SetDistributedPowerAbstract.inline = [f"{BM}._cancel_tasks"]
SetDistributedPowerAbstract.modifies = ["conn"]


@contract(f"{PV}._set_api_power", case="for_caller")
class PvSetApiPowerForCaller:
    """The part of _set_api_power's contract that distribute_power relies on."""
    self_shape = PvSetApiPower.self_shape
    shapes = PvSetApiPower.shapes
    ghost = PvSetApiPower.ghost
    externals = PvSetApiPower.externals
    modifies = PvSetApiPower.modifies
    requires = dict(fresh_api=PvSetApiPower.requires["fresh_api"],
                    allocations_account_for_request=PvSetApiPower.requires["allocations_account_for_request"],
                    allocations_within_bounds="True")
    ensures = dict(exactly_one_more_result="self._results_sender.n_sent == old(self._results_sender.n_sent) + 1")


INV = "ext:frequenz.client.microgrid.InverterData"
InvDataT = Rec(INV, component_id=Int, active_power_inclusion_lower_bound=Real)
CacheT = ExtObj("LatestValueCache", methods=dict(has_value=dict(returns="self.filled"), get=dict(returns="self.data")),
                filled=Bool, data=InvDataT)
PvTrackerT = ExtObj("ComponentPoolStatusTracker",
                    methods=dict(get_working_components=dict(returns=Subset([21, 22]))))


@contract(f"{PV}.distribute_power")
class PvDistributePower:
    """Water-filling over the working inverters: allocations + remainder = requested power, every allocation
    between the inverter's lower bound and zero; then exactly one result is reported (by _set_api_power)."""
    self_shape = Obj(PV, _results_sender=SenderT, _api_power_request_timeout=Delta, _target_power=PowerT,
                     _component_pool_status_tracker=PvTrackerT,
                     _component_data_caches=DictOpt({21: CacheT, 22: CacheT}, always=[21, 22]))
    shapes = dict(request=PvRequestT)
    modifies = ["self._results_sender", "self._component_pool_status_tracker", "self._component_data_caches"]
    inline = ["frequenz.sdk._internal._math:is_close_to_zero"]
    use = {f"{PV}._set_api_power": f"{PV}._set_api_power#for_caller"}
    requires = dict(fresh_sender="self._results_sender.n_sent == 0",
                    bounds_not_positive="self._component_data_caches[21].data.active_power_inclusion_lower_bound <= 0"
                                        " and self._component_data_caches[22].data.active_power_inclusion_lower_bound <= 0")
    ensures = dict(at_most_one_result="self._results_sender.n_sent <= 1")


PvEmptyRequestT = Obj(f"{PD}.request:Request", power=PowerT, component_ids=Const(frozenset()), adjust_power=Bool)


@contract(f"{PV}.distribute_power", case="no_inverters")
class PvDistributePowerNoInverters:
    """A microgrid without PV inverters (no status tracker) and a request addressed to no component: one Success is
    reported whose three powers still add up to the request - nothing set, everything excess."""
    self_shape = Obj(PV, _results_sender=SenderT, _api_power_request_timeout=Delta, _target_power=PowerT,
                     _component_pool_status_tracker=Const(None), _component_data_caches=Const({}))
    shapes = dict(request=PvEmptyRequestT)
    modifies = ["self._results_sender"]
    requires = dict(fresh_sender="self._results_sender.n_sent == 0")
    ensures = dict(
        exactly_one_result="self._results_sender.n_sent == 1",
        powers_add_up="sent(self).succeeded_power + failed_power_of(sent(self)) + sent(self).excess_power == request.power",
        nothing_addressed="is_success(sent(self)) and len(sent(self).succeeded_components) == 0",
    )
