"""Contracts relating the bounds a battery pool advertises to the bounds the distributor enforces (C17)."""
from pyvc.spec import (contract, lemma, Obj, Rec, Opt, FixedList, DictOpt, Real, Int, Bool, PowerT, OpaqueT, Const,
                       implies, forall)

PD = "frequenz.sdk.microgrid._power_distributing"
ALG = f"{PD}._distribution_algorithm._battery_distribution_algorithm"
BM = f"{PD}._component_managers._battery_manager:BatteryManager"

PB = Rec(f"{PD}.result:PowerBounds", inclusion_lower=Real, exclusion_lower=Real, exclusion_upper=Real,
         inclusion_upper=Real)
AggBatT = Obj(f"{ALG}:AggregatedBatteryData", component_id=Int, power_bounds=PB)
InvT = Rec("ext:frequenz.client.microgrid.InverterData", component_id=Int,
           active_power_inclusion_lower_bound=Real, active_power_exclusion_lower_bound=Real,
           active_power_exclusion_upper_bound=Real, active_power_inclusion_upper_bound=Real)


def pair_t(n_inv):
    return Rec(f"{ALG}:InvBatPair", battery=AggBatT, inverter=FixedList(*([InvT] * n_inv)))


# structural bound of this sidecar: 1 or 2 battery groups, 1 or 2 inverters per group; all numbers symbolic
PAIRS_1 = FixedList(pair_t(2))
PAIRS_2 = FixedList(pair_t(2), pair_t(1))


# ----------------------------------------------------------------- documented aggregates
def consistent(pairs):
    """incl_lower <= excl_lower <= 0 <= excl_upper <= incl_upper for every component (C01's domain)."""
    return all(ok_bounds(b.power_bounds.inclusion_lower, b.power_bounds.exclusion_lower,
                         b.power_bounds.exclusion_upper, b.power_bounds.inclusion_upper)
               and all(ok_bounds(i.active_power_inclusion_lower_bound, i.active_power_exclusion_lower_bound,
                                 i.active_power_exclusion_upper_bound, i.active_power_inclusion_upper_bound)
                       for i in invs)
               for b, invs in pairs)


def ok_bounds(il, el, eu, iu):
    return il <= el and el <= 0 and 0 <= eu and eu <= iu


def adv_incl_lower(pairs):
    """What PowerBoundsCalculator advertises: per group max(battery, sum of inverters), summed over groups."""
    return sum(max(b.power_bounds.inclusion_lower, sum(i.active_power_inclusion_lower_bound for i in invs))
               for b, invs in pairs)


def adv_incl_upper(pairs):
    return sum(min(b.power_bounds.inclusion_upper, sum(i.active_power_inclusion_upper_bound for i in invs))
               for b, invs in pairs)


def adv_excl_lower(pairs):
    return sum(min(b.power_bounds.exclusion_lower, sum(i.active_power_exclusion_lower_bound for i in invs))
               for b, invs in pairs)


def adv_excl_upper(pairs):
    return sum(max(b.power_bounds.exclusion_upper, sum(i.active_power_exclusion_upper_bound for i in invs))
               for b, invs in pairs)


def advertised_admits(pairs, p):
    """p lies within the advertised inclusion bounds and not strictly inside the advertised exclusion zone."""
    return (adv_incl_lower(pairs) <= p and p <= adv_incl_upper(pairs)
            and not (adv_excl_lower(pairs) < p and p < adv_excl_upper(pairs)))


def group_min_power(b, invs):
    """Smallest non-zero magnitude the group can be given (consume direction)."""
    return max(b.power_bounds.exclusion_upper, min(i.active_power_exclusion_upper_bound for i in invs))


def group_min_power_supply(b, invs):
    return max(-b.power_bounds.exclusion_lower, min(-i.active_power_exclusion_lower_bound for i in invs))


def get_bounds_contract(case, pairs_shape):
    @contract(f"{BM}._get_bounds", case=case)
    class _C:
        """Enforced bounds: closed forms, and never tighter than the advertised ones."""
        self_shape = Obj(BM)
        shapes = dict(pairs_data=pairs_shape)
        result = PB
        pure = True
        ensures = dict(
            inclusion_identical="result.inclusion_lower == adv_incl_lower(pairs_data)"
                                " and result.inclusion_upper == adv_incl_upper(pairs_data)",
            exclusion_lower_closed_form="result.exclusion_lower == min("
                                        "sum(b.power_bounds.exclusion_lower for b, _ in pairs_data),"
                                        " sum(i.active_power_exclusion_lower_bound for _, invs in pairs_data for i in invs))",
            exclusion_upper_closed_form="result.exclusion_upper == max("
                                        "sum(b.power_bounds.exclusion_upper for b, _ in pairs_data),"
                                        " sum(i.active_power_exclusion_upper_bound for _, invs in pairs_data for i in invs))",
            advertised_zone_covers_enforced_zone="adv_excl_lower(pairs_data) <= result.exclusion_lower"
                                                 " and result.exclusion_upper <= adv_excl_upper(pairs_data)",
        )
    return _C


GetBounds1 = get_bounds_contract("one_group", PAIRS_1)
GetBounds2 = get_bounds_contract("two_groups", PAIRS_2)

RequestT = Obj(f"{PD}.request:Request", power=PowerT, component_ids=Const(frozenset({1})), adjust_power=Bool)
ManagerT = Obj(BM, _battery_caches=DictOpt({1: OpaqueT("cache"), 2: OpaqueT("cache")}, always=[1]))


def check_request_contract(case, pairs_shape, get_bounds_key):
    @contract(f"{BM}._check_request", case=case)
    class _C:
        """C17: a non-zero power the pool advertises as admissible is never answered with OutOfBounds."""
        self_shape = ManagerT
        shapes = dict(request=RequestT, pairs_data=pairs_shape)
        result = Opt(OpaqueT("result"))
        pure = True
        inline = ["frequenz.sdk._internal._math:is_close_to_zero"]
        use = {f"{BM}._get_bounds": get_bounds_key}
        requires = dict(consistent="consistent(pairs_data)")
        ensures = dict(
            advertised_power_accepted="implies(advertised_admits(pairs_data, request.power.as_watts()), result is None)",
            zero_always_accepted="implies(abs(request.power.as_watts()) <= 1e-9, result is None)",
            # C02 (admission side): no non-zero power strictly inside the enforced exclusion zone reaches the
            # distribution, with or without adjust_power; without it, nothing outside the inclusion bounds either
            inside_exclusion_zone_rejected="implies(abs(request.power.as_watts()) > 1e-9"
                                           " and enf_excl_lower(pairs_data) < request.power.as_watts()"
                                           " and request.power.as_watts() < enf_excl_upper(pairs_data), result is not None)",
            outside_inclusion_rejected_unless_adjusting="implies(not request.adjust_power and abs(request.power.as_watts()) > 1e-9"
                                                        " and (request.power.as_watts() < adv_incl_lower(pairs_data)"
                                                        " or request.power.as_watts() > adv_incl_upper(pairs_data)),"
                                                        " result is not None)",
        )
    return _C


def enf_excl_lower(pairs):
    """The exclusion bound the manager enforces (closed form proved for _get_bounds)."""
    return min(sum(b.power_bounds.exclusion_lower for b, _ in pairs),
               sum(i.active_power_exclusion_lower_bound for _, invs in pairs for i in invs))


def enf_excl_upper(pairs):
    return max(sum(b.power_bounds.exclusion_upper for b, _ in pairs),
               sum(i.active_power_exclusion_upper_bound for _, invs in pairs for i in invs))


CheckRequest1 = check_request_contract("one_group", PAIRS_1, f"{BM}._get_bounds#one_group")
CheckRequest2 = check_request_contract("two_groups", PAIRS_2, f"{BM}._get_bounds#two_groups")


def aggregate_contract(case, n):
    @contract(f"{ALG}:_aggregate_battery_power_bounds", case=case)
    class _C:
        shapes = dict(battery_metrics=FixedList(*([PB] * n)))
        result = PB
        pure = True
        ensures = dict(
            inclusion_is_sum="result.inclusion_lower == sum(b.inclusion_lower for b in battery_metrics)"
                             " and result.inclusion_upper == sum(b.inclusion_upper for b in battery_metrics)",
            exclusion_is_extreme_times_count="result.exclusion_upper == max(b.exclusion_upper for b in battery_metrics) * len(battery_metrics)"
                                             " and result.exclusion_lower == min(b.exclusion_lower for b in battery_metrics) * len(battery_metrics)",
        )
    return _C


Agg1, Agg2, Agg3 = aggregate_contract("n1", 1), aggregate_contract("n2", 2), aggregate_contract("n3", 3)


@lemma("advertised_power_covers_every_group_minimum")
class AdvertisedCoversMinimum:
    """A non-zero advertised-admissible power is at least the sum of the groups' minimum powers, so it can be
    distributed without entering any exclusion zone (two groups, 2 + 1 inverters)."""
    shapes = dict(pairs=PAIRS_2, p=Real)
    requires = dict(consistent="consistent(pairs)", admitted="advertised_admits(pairs, p)", nonzero="p != 0")
    ensures = dict(
        consume="implies(p > 0, p >= sum(group_min_power(b, invs) for b, invs in pairs))",
        supply="implies(p < 0, -p >= sum(group_min_power_supply(b, invs) for b, invs in pairs))",
    )


# ----------------------------------------------------------------- what the battery pool advertises
from pyvc.spec import EnumKey, Subset, Time  # noqa: E402
from contracts.common import SystemBoundsT  # noqa: E402

MC = "frequenz.sdk.timeseries.battery_pool._metric_calculator"
CMD = "frequenz.sdk.timeseries.battery_pool._component_metrics:ComponentMetricsData"
MID = "ext:frequenz.client.microgrid.ComponentMetricId"
BAT_KEYS = [EnumKey(MID, k) for k in ("POWER_INCLUSION_LOWER_BOUND", "POWER_EXCLUSION_LOWER_BOUND",
                                      "POWER_EXCLUSION_UPPER_BOUND", "POWER_INCLUSION_UPPER_BOUND")]
INV_KEYS = [EnumKey(MID, k) for k in ("ACTIVE_POWER_INCLUSION_LOWER_BOUND", "ACTIVE_POWER_EXCLUSION_LOWER_BOUND",
                                      "ACTIVE_POWER_EXCLUSION_UPPER_BOUND", "ACTIVE_POWER_INCLUSION_UPPER_BOUND")]
BatMetricsT = Obj(CMD, _component_id=Int, _timestamp=Time, _metrics=DictOpt({k: Real for k in BAT_KEYS}, always=BAT_KEYS))
InvMetricsT = Obj(CMD, _component_id=Int, _timestamp=Time, _metrics=DictOpt({k: Real for k in INV_KEYS}, always=INV_KEYS))
# topology of this contract: group A = batteries {1, 2} behind inverter {11}; group B = battery {3} behind {12, 13}
GA, GB = frozenset({1, 2}), frozenset({3})
CalcT = Obj(f"{MC}:PowerBoundsCalculator",
            _bat_inv_map=Const({1: frozenset({11}), 2: frozenset({11}), 3: frozenset({12, 13})}),
            _bat_bats_map=Const({1: GA, 2: GA, 3: GB}),
            _battery_metrics=Const(BAT_KEYS), _inverter_metrics=Const(INV_KEYS))
ALL_IDS = [1, 2, 3, 11, 12, 13]
CompleteDataT = DictOpt({1: BatMetricsT, 2: BatMetricsT, 3: BatMetricsT, 11: InvMetricsT, 12: InvMetricsT,
                         13: InvMetricsT}, always=ALL_IDS)

try:
    from frequenz.client.microgrid import ComponentMetricId as CM_
except ImportError:
    pass


def bat_agg(data, ids, key, n_times_extreme):
    """Aggregated battery bound of a group: sums for inclusion, n * max/min for exclusion."""
    vals = [data[b].get(key) for b in sorted(ids)]
    return (sum(vals) if n_times_extreme == 0 else
            (max(vals) if n_times_extreme > 0 else min(vals)) * len(vals))


def inv_sum(data, ids, key):
    return sum(data[i].get(key) for i in sorted(ids))


def group_adv(data, bats, invs):
    """(incl_lower, excl_lower, excl_upper, incl_upper) advertised for one group."""
    return (max(bat_agg(data, bats, CM_.POWER_INCLUSION_LOWER_BOUND, 0), inv_sum(data, invs, CM_.ACTIVE_POWER_INCLUSION_LOWER_BOUND)),
            min(bat_agg(data, bats, CM_.POWER_EXCLUSION_LOWER_BOUND, -1), inv_sum(data, invs, CM_.ACTIVE_POWER_EXCLUSION_LOWER_BOUND)),
            max(bat_agg(data, bats, CM_.POWER_EXCLUSION_UPPER_BOUND, 1), inv_sum(data, invs, CM_.ACTIVE_POWER_EXCLUSION_UPPER_BOUND)),
            min(bat_agg(data, bats, CM_.POWER_INCLUSION_UPPER_BOUND, 0), inv_sum(data, invs, CM_.ACTIVE_POWER_INCLUSION_UPPER_BOUND)))


def pool_adv(data, working, k):
    """k-th advertised bound: sum over the groups that have a working battery."""
    return ((group_adv(data, (1, 2), (11,))[k] if (1 in working or 2 in working) else 0.0)
            + (group_adv(data, (3,), (12, 13))[k] if 3 in working else 0.0))


@contract(f"{MC}:PowerBoundsCalculator.calculate")
class PowerBoundsCalculate:
    """The advertised bounds are, per battery group, max/min of (aggregated battery bounds, sum of inverter
    bounds), summed over the groups with a working battery (complete data; topology fixed above)."""
    self_shape = CalcT
    shapes = dict(metrics_data=CompleteDataT, working_batteries=Subset([1, 2, 3]))
    result = SystemBoundsT
    pure = True
    max_paths = 20000
    inline = [f"{CMD}.get", f"{ALG}:_aggregate_battery_power_bounds"]
    requires = dict(timestamps="all(metrics_data[c]._timestamp > datetime_min() for c in (1, 2, 3, 11, 12, 13))")
    ensures = dict(
        none_iff_no_working_battery="(result.inclusion_bounds is None) == (len(working_batteries) == 0)",
        inclusion="implies(result.inclusion_bounds is not None,"
                  " result.inclusion_bounds.lower.as_watts() == pool_adv(metrics_data, working_batteries, 0)"
                  " and result.inclusion_bounds.upper.as_watts() == pool_adv(metrics_data, working_batteries, 3))",
        exclusion="implies(result.exclusion_bounds is not None,"
                  " result.exclusion_bounds.lower.as_watts() == pool_adv(metrics_data, working_batteries, 1)"
                  " and result.exclusion_bounds.upper.as_watts() == pool_adv(metrics_data, working_batteries, 2))",
    )


@contract(f"{MC}:PowerBoundsCalculator.inverter_metrics")
class InverterMetricsWanted:
    """C17 (advertised side): the pool subscribes to the power bounds of EVERY inverter of every battery it covers -
    calculate() sums what it is given, so an inverter that is not asked for silently drops out of the advertised bounds."""
    self_shape = CalcT
    pure = True
    ensures = dict(all_inverters_of_all_batteries="set(result.keys()) == {11, 12, 13}",
                   all_four_bounds_each="all(result[i] is self._inverter_metrics for i in (11, 12, 13))")


@contract(f"{MC}:PowerBoundsCalculator.battery_metrics")
class BatteryMetricsWanted:
    """... and to the power bounds of every battery."""
    self_shape = CalcT
    pure = True
    ensures = dict(all_batteries="set(result.keys()) == {1, 2, 3}",
                   all_four_bounds_each="all(result[b] is self._battery_metrics for b in (1, 2, 3))")


def datetime_min():
    import datetime as _dt
    return _dt.datetime.min.replace(tzinfo=_dt.timezone.utc)


# ----------------------------------------------------------------- the distributor's view of a battery group
BatDataT = Rec("ext:frequenz.client.microgrid.BatteryData", component_id=Int, capacity=Real, soc=Real,
               soc_upper_bound=Real, soc_lower_bound=Real, power_inclusion_lower_bound=Real,
               power_exclusion_lower_bound=Real, power_exclusion_upper_bound=Real, power_inclusion_upper_bound=Real)


@contract(f"{ALG}:AggregatedBatteryData.__init__")
class AggregatedInit:
    """C17: the bounds the distributor enforces for a group of batteries behind one inverter set are aggregated over
    ALL the batteries of the group - the same batteries the pool's advertised bounds are computed from - whatever
    their capacity or state of charge."""
    self_shape = Obj(f"{ALG}:AggregatedBatteryData")
    shapes = dict(batteries=FixedList(BatDataT, BatDataT))
    use = {f"{ALG}:_aggregate_battery_power_bounds": f"{ALG}:_aggregate_battery_power_bounds#n2"}
    modifies = ["self"]
    ensures = dict(
        inclusion_is_sum_over_all="self.power_bounds.inclusion_lower == sum(b.power_inclusion_lower_bound for b in batteries)"
                                  " and self.power_bounds.inclusion_upper == sum(b.power_inclusion_upper_bound for b in batteries)",
        exclusion_is_extreme_times_count="self.power_bounds.exclusion_upper == max(b.power_exclusion_upper_bound for b in batteries) * 2"
                                         " and self.power_bounds.exclusion_lower == min(b.power_exclusion_lower_bound for b in batteries) * 2",
        capacity_is_sum="self.capacity == sum(b.capacity for b in batteries)",
        # C02 ("a group at or beyond its SoC limit gets nothing" is decided on these): the group's state of charge and
        # its limits are the capacity-weighted means of the batteries' raw values
        soc_is_capacity_weighted_mean="implies(self.capacity != 0,"
                                      " self.soc == sum(b.soc * b.capacity for b in batteries) / self.capacity"
                                      " and self.soc_upper_bound == sum(b.soc_upper_bound * b.capacity for b in batteries) / self.capacity"
                                      " and self.soc_lower_bound == sum(b.soc_lower_bound * b.capacity for b in batteries) / self.capacity)",
    )
