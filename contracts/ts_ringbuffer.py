"""Contracts for the ring buffer's index / time arithmetic (C09, the part within the verifier's subset)."""
from pyvc.spec import contract, Obj, Time, Delta, Int, Bool, OpaqueT, Seq, Real, implies

RB = "frequenz.sdk.timeseries._ringbuffer.buffer:OrderedRingBuffer"
BufT = Obj(RB, _sampling_period=Delta, _time_index_alignment=Time, _timestamp_newest=Time, _timestamp_oldest=Time,
           _full_time_range=Delta, _buffer=Seq(Real, container="list"))


def on_grid(ts, self):
    return ((ts - self._time_index_alignment) % self._sampling_period).total_seconds() == 0


def slot(ts, self):
    """Grid slot number of an on-grid timestamp."""
    return (ts - self._time_index_alignment) // self._sampling_period


@contract(f"{RB}.normalize_timestamp")
class NormalizeTimestamp:
    """Rounds to the nearest slot of the grid (ties to the even slot)."""
    self_shape = BufT
    shapes = dict(timestamp=Time)
    result = Time
    pure = True
    requires = dict(period="self._sampling_period.total_seconds() > 0",
                    # timedelta / 2 rounds to whole microseconds: exact only for an even number of microseconds
                    # (every period that is a multiple of 2 us: milliseconds, seconds, ...)
                    even_microseconds="(self._sampling_period / 2) * 2 == self._sampling_period")
    ensures = dict(
        on_grid="on_grid(result, self)",
        at_most_half_a_period_away="abs(result - timestamp) * 2 <= self._sampling_period",
        aligned_is_fixed_point="implies(on_grid(timestamp, self), result == timestamp)",
        ties_go_to_even_slot="implies(abs(result - timestamp) * 2 == self._sampling_period, slot(result, self) % 2 == 0)",
    )


@contract(f"{RB}.wrap")
class Wrap:
    self_shape = BufT
    shapes = dict(index=Int)
    result = Int
    pure = True
    inline = [f"{RB}.maxlen"]
    requires = dict(capacity="len(self._buffer) >= 1")
    ensures = dict(in_range="0 <= result and result < len(self._buffer)",
                   congruent="(result - index) % len(self._buffer) == 0")
