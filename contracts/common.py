"""Shapes and spec functions shared by several sidecars."""
from pyvc.spec import Rec, Opt, PowerT, Time, Real, Int, Bool, StrId, Const

try:  # native side only; the verifier resolves these names through its library models
    from frequenz.quantities import Power
except ImportError:  # pragma: no cover
    Power = None

BOUNDS = "frequenz.sdk.timeseries._base_types:Bounds"
SYSTEM_BOUNDS = "frequenz.sdk.timeseries._base_types:SystemBounds"

BoundsT = Rec(BOUNDS, lower=PowerT, upper=PowerT)
OptBoundsT = Opt(BoundsT)
ProposalBoundsT = Rec(BOUNDS, lower=Opt(PowerT), upper=Opt(PowerT))
SystemBoundsT = Rec(SYSTEM_BOUNDS, timestamp=Time, inclusion_bounds=OptBoundsT, exclusion_bounds=OptBoundsT)


def zero():
    return Power.zero()


def in_zone(x, ex):
    """x lies strictly inside the exclusion zone."""
    return ex is not None and ex.lower < x < ex.upper


def usable(x, lo, hi, ex):
    """x is admissible: within [lo, hi] and not strictly inside the exclusion zone."""
    return lo <= x <= hi and not in_zone(x, ex)
