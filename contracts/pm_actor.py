"""Contracts for PowerManagingActor (C11)."""
from pyvc.spec import (contract, Rec, Obj, Opt, PowerT, Int, Real, Bool, Const, DictOpt, OpaqueT, implies)
from contracts.common import SystemBoundsT, zero, in_zone, usable
from contracts.pm_matryoshka import (M, CID, KEY, ProposalT, ProposalSetT, C04_REQUIRES, envelope, stored_target,
                                     validated, bucket, sys_lower, sys_upper, sys_excl, B)

A = "frequenz.sdk.microgrid._power_managing._power_managing_actor"

MatryoshkaCid = Obj(
    f"{M}:Matryoshka",
    _max_proposal_age_sec=Real,
    _component_buckets=DictOpt({CID: ProposalSetT}),
    _target_power=DictOpt({CID: PowerT}),
)


@contract(f"{M}:Matryoshka.calculate_target_power", case="c11")
class CalculateTargetPowerC11:
    """The part of calculate_target_power's contract that the actor relies on (one component group)."""
    self_shape = MatryoshkaCid
    shapes = dict(component_ids=Const(CID), proposal=Opt(ProposalT), system_bounds=SystemBoundsT,
                  must_return_power=Bool)
    result = Opt(PowerT)
    native_opaque = {"component_ids": CID}
    inline = [f"{M}:Matryoshka._validate_component_ids"]
    modifies = ["self._component_buckets", "self._target_power"]
    # callers of this case never look inside a bucket: after the call it is an opaque value
    havoc_shapes = {"self._component_buckets": DictOpt({CID: OpaqueT("bucket")})}
    requires = dict(zero_inside=C04_REQUIRES["zero_inside"])
    ensures = dict(
        none_means_unchanged="implies(result is None,"
                             " stored_target(self, component_ids) == old(stored_target(self, component_ids)))",
        returned_is_stored="implies(result is not None, stored_target(self, component_ids) == result)",
        must_return="implies(must_return_power and component_ids in self._component_buckets, result is not None)",
        stored_in_envelope="implies(component_ids in self._component_buckets,"
                           " envelope(stored_target(self, component_ids), system_bounds))",
        no_bucket_no_target="implies(not (component_ids in self._component_buckets),"
                            " result is None and stored_target(self, component_ids) == old(stored_target(self, component_ids)))",
        bucket_created_iff="(component_ids in self._component_buckets) =="
                           " (old(component_ids in self._component_buckets)"
                           "  or (proposal is not None and old(validated(self, component_ids, system_bounds))))",
        # class invariant of Matryoshka, preserved: a target is stored only for a group that has a bucket
        target_implies_bucket="implies(old(target_implies_bucket(self, component_ids)),"
                              " target_implies_bucket(self, component_ids))",
    )


def target_implies_bucket(group, cid):
    return (cid in group._component_buckets) or not (cid in group._target_power)


MatryoshkaAbstract = Obj(
    f"{M}:Matryoshka",
    _max_proposal_age_sec=Real,
    _component_buckets=DictOpt({CID: OpaqueT("bucket")}),
    _target_power=DictOpt({CID: PowerT}),
)
ActorSelf = Obj(
    f"{A}:PowerManagingActor",
    _system_bounds=DictOpt({CID: SystemBoundsT}, always=[CID]),
    _set_power_group=MatryoshkaAbstract,
    _set_op_power_group=MatryoshkaAbstract,
)


def tgt(group, cid):
    """The target currently stored (and reported) for the group; none yet counts as zero."""
    return stored_target(group, cid) if stored_target(group, cid) is not None else zero()


def sysb(self, cid):
    return self._system_bounds[cid]


@contract(f"{A}:PowerManagingActor._calculate_shifted_bounds")
class ShiftedBounds:
    self_shape = Obj(f"{A}:PowerManagingActor")
    shapes = dict(bounds=SystemBoundsT, op_power=Opt(PowerT))
    result = SystemBoundsT
    pure = True
    ensures = dict(
        identity_without_op="implies(op_power is None, result == bounds)",
        exclusion_kept="result.exclusion_bounds == bounds.exclusion_bounds",
        inclusion_none_iff="(result.inclusion_bounds is None) == (bounds.inclusion_bounds is None)",
        inclusion_shifted="implies(op_power is not None and bounds.inclusion_bounds is not None,"
                          " result.inclusion_bounds.lower == bounds.inclusion_bounds.lower - op_power"
                          " and result.inclusion_bounds.upper == bounds.inclusion_bounds.upper - op_power)",
    )


@contract(f"{A}:PowerManagingActor._calculate_target_power")
class ActorCalculateTargetPower:
    """C11: what is sent = regular target + operating-point target, inside the system inclusion bounds."""
    self_shape = ActorSelf
    shapes = dict(component_ids=Const(CID), proposal=Opt(ProposalT), must_send=Bool)
    result = Opt(PowerT)
    native_opaque = {"component_ids": CID, "bucket": set}
    modifies = ["self._set_power_group._component_buckets", "self._set_power_group._target_power",
                "self._set_op_power_group._component_buckets", "self._set_op_power_group._target_power"]
    use = {f"{M}:Matryoshka.calculate_target_power": f"{M}:Matryoshka.calculate_target_power#c11"}
    requires = dict(
        zero_inside="sysb(self, component_ids).inclusion_bounds is None or "
                    "sysb(self, component_ids).inclusion_bounds.lower <= zero() <= sysb(self, component_ids).inclusion_bounds.upper",
        distinct_groups="not (self._set_power_group is self._set_op_power_group)",
        # class invariant of Matryoshka (preserved by calculate_target_power, see its contract)
        targets_have_buckets="target_implies_bucket(self._set_power_group, component_ids)"
                             " and target_implies_bucket(self._set_op_power_group, component_ids)",
    )
    ensures = dict(
        sum_of_reported_targets="implies(result is not None, result == tgt(self._set_power_group, component_ids)"
                                " + tgt(self._set_op_power_group, component_ids))",
        within_system_bounds="implies(result is not None and sysb(self, component_ids).inclusion_bounds is not None,"
                             " sysb(self, component_ids).inclusion_bounds.lower <= result"
                             " <= sysb(self, component_ids).inclusion_bounds.upper)",
        bounds_untouched="sysb(self, component_ids) == old(sysb(self, component_ids))",
        invariant_kept="target_implies_bucket(self._set_power_group, component_ids)"
                       " and target_implies_bucket(self._set_op_power_group, component_ids)",
    )


# ------------------------------------------------------------------ how requests reach the power distributor
from pyvc.spec import ExtObj, Variant, Int as _I  # noqa: E402  pylint: disable=wrong-import-position

PDR = "frequenz.sdk.microgrid._power_distributing"
RequestsSenderT = ExtObj("frequenz.channels.Sender", methods=dict(send=dict(
    is_async=True, effects={"n_sent": "self.n_sent + 1", "last_power": "args[0].power",
                            "last_ids": "args[0].component_ids", "last_adjust": "args[0].adjust_power"})),
    n_sent=_I, last_power=PowerT, last_ids=OpaqueT("component_ids"), last_adjust=Bool)
ActorWithSender = Obj(
    f"{A}:PowerManagingActor",
    _system_bounds=DictOpt({CID: SystemBoundsT}, always=[CID]),
    _set_power_group=MatryoshkaAbstract,
    _set_op_power_group=MatryoshkaAbstract,
    _power_distributing_requests_sender=RequestsSenderT,
)


@contract(f"{A}:PowerManagingActor._send_updated_target_power")
class SendUpdatedTargetPower:
    """C11: the only thing ever sent to the power distributor for a component group is the freshly computed sum of
    the regular and the operating-point target, inside the system bounds, with adjust_power set."""
    self_shape = ActorWithSender
    shapes = dict(component_ids=Const(CID), proposal=Opt(ProposalT), must_send=Bool)
    native_opaque = {"component_ids": CID, "bucket": set}
    modifies = ["self._set_power_group._component_buckets", "self._set_power_group._target_power",
                "self._set_op_power_group._component_buckets", "self._set_op_power_group._target_power",
                "self._power_distributing_requests_sender"]
    requires = dict(ActorCalculateTargetPower.requires)
    ensures = dict(
        at_most_one_request="self._power_distributing_requests_sender.n_sent - old(self._power_distributing_requests_sender.n_sent) in (0, 1)",
        request_is_sum_of_targets="implies(self._power_distributing_requests_sender.n_sent > old(self._power_distributing_requests_sender.n_sent),"
                                  " self._power_distributing_requests_sender.last_power == tgt(self._set_power_group, component_ids)"
                                  " + tgt(self._set_op_power_group, component_ids)"
                                  " and self._power_distributing_requests_sender.last_adjust == True)",
        request_within_system_bounds="implies(self._power_distributing_requests_sender.n_sent > old(self._power_distributing_requests_sender.n_sent)"
                                     " and sysb(self, component_ids).inclusion_bounds is not None,"
                                     " sysb(self, component_ids).inclusion_bounds.lower <= self._power_distributing_requests_sender.last_power"
                                     " and self._power_distributing_requests_sender.last_power <= sysb(self, component_ids).inclusion_bounds.upper)",
        invariant_kept="target_implies_bucket(self._set_power_group, component_ids)"
                       " and target_implies_bucket(self._set_op_power_group, component_ids)",
    )


# ------------------------------------------------------------------ the actor's event loop
from pyvc.spec import StrId  # noqa: E402  pylint: disable=wrong-import-position
try:
    from frequenz.sdk.microgrid._power_distributing.result import PartialFailure
except ImportError:
    pass

PRIO = 7
SRC_PROPOSAL = 0
SRC_SUBSCRIPTION = 1
SRC_RESULT = 2
SRC_TIMER = 3


def _rx(tag):
    return ExtObj("frequenz.channels.Receiver", tag=Const(tag))


def _sel(tag, message):
    return Rec("ext:frequenz.channels.Selected", origin=Const(tag), message=message)


ProposalRunT = Rec(f"{A.rsplit('.', 1)[0]}._base_classes:Proposal", source_id=StrId, preferred_power=Opt(PowerT),
                   component_ids=Const(CID), priority=_I, creation_time=Real, set_operating_point=Bool)
ReportRequestT = Rec(f"{A.rsplit('.', 1)[0]}._base_classes:ReportRequest", source_id=StrId, component_ids=Const(CID),
                     priority=Const(PRIO), set_operating_point=Bool)
PdRequestT = Rec(f"{PDR}.request:Request", power=PowerT, component_ids=Const(CID), adjust_power=Bool)
ResultT = Variant(Rec(f"{PDR}.result:Success", request=PdRequestT), Rec(f"{PDR}.result:PartialFailure", request=PdRequestT),
                  Rec(f"{PDR}.result:Error", request=PdRequestT), Rec(f"{PDR}.result:OutOfBounds", request=PdRequestT))
EventT = Variant(_sel(SRC_PROPOSAL, ProposalRunT), _sel(SRC_SUBSCRIPTION, ReportRequestT), _sel(SRC_RESULT, ResultT),
                 _sel(SRC_TIMER, Const(None)))
GroupT = ExtObj("Matryoshka", methods=dict(drop_old_proposals=dict(effects={"n_drops": "self.n_drops + 1"})), n_drops=_I)
SubsT = DictOpt({CID: DictOpt({PRIO: OpaqueT("report sender")})})
RunActorT = Obj(
    f"{A}:PowerManagingActor",
    _proposals_receiver=_rx(SRC_PROPOSAL), _bounds_subscription_receiver=_rx(SRC_SUBSCRIPTION),
    _power_distributing_results_receiver=_rx(SRC_RESULT),
    _bound_tracker_tasks=DictOpt({CID: OpaqueT("task")}),
    _set_power_subscriptions=SubsT, _set_op_power_subscriptions=SubsT,
    _channel_registry=ExtObj("ChannelRegistry", methods=dict(get_or_create=dict(returns="report_channel"))),
    _set_power_group=GroupT, _set_op_power_group=GroupT,
    _power_distributing_requests_sender=RequestsSenderT,
)
UpdatePathT = ExtObj("update path", methods=dict(
    note=dict(effects={"n_calls": "self.n_calls + 1", "last_proposal_none": "args[1] is None", "last_must_send": "args[2]"}),
    # _send_reports: how many recomputations had happened when the latest reports went out
    report=dict(effects={"n_reports": "self.n_reports + 1", "calls_at_last_report": "self.n_calls"})),
    n_calls=_I, last_proposal_none=Bool, last_must_send=Bool, n_reports=_I, calls_at_last_report=_I)
RUN_LOOP = ("async for selected in select( self._proposals_receiver, self._bounds_subscription_receiver, "
            "self._power_distributing_results_receiver, drop_old_proposals_timer, )")


@contract(f"{A}:PowerManagingActor._run")
class ActorRun:
    """C11 (every event class): the actor's loop never sends a request to the power distributor itself - every
    request goes through _send_updated_target_power, which recomputes the sum of the two targets from the current
    state.  A proposal recomputes with must_send; a PartialFailure result triggers ONE recomputation (no proposal,
    must_send) - never a re-send of the failed request - and not again until a Success; the expiry timer drops old
    proposals of both groups."""
    self_shape = RunActorT
    ghost = dict(timer=ExtObj("frequenz.channels.timer.Timer", tag=Const(SRC_TIMER)),
                 sel=ExtObj("select", stream=EventT), upd=UpdatePathT,
                 loop=ExtObj("event loop", methods=dict(time=dict(returns="now_s")), ), now_s=Real,
                 report_channel=ExtObj("Broadcast", methods=dict(new_sender=dict(returns="report_sender"))),
                 report_sender=OpaqueT("report sender"))
    externals = {
        "frequenz.channels.timer.Timer": "timer", "frequenz.channels.timer.SkipMissedAndDrift": "None",
        "frequenz.channels.select": "sel", "frequenz.channels.selected_from": "args[0].origin == args[1].tag",
        f"{A}:PowerManagingActor._send_updated_target_power":
            "upd.note(args[1], args[2], kwargs['must_send'] if 'must_send' in kwargs else (args[3] if len(args) > 3 else False))",
        f"{A}:PowerManagingActor._send_reports": "upd.report()",
        f"{A}:PowerManagingActor._add_system_bounds_tracker": "None",
        "asyncio.get_event_loop": "loop",
        f"{A.rsplit('.', 1)[0]}._base_classes:ReportRequest.get_channel_name": "0",
    }
    never_returns = False
    modifies = ["self", "upd", "sel", "timer", "loop", "report_channel"]
    requires = dict(distinct_groups="not (self._set_power_group is self._set_op_power_group)")
    loops = {RUN_LOOP: dict(
        havoc={"last_result_partial_failure": Bool},
        havoc_fields={"upd.n_calls": _I, "upd.last_proposal_none": Bool, "upd.last_must_send": Bool,
                      "upd.calls": OpaqueT("log"), "upd.results": OpaqueT("log"),
                      "upd.n_reports": _I, "upd.calls_at_last_report": _I,
                      "self._set_power_group.n_drops": _I, "self._set_op_power_group.n_drops": _I,
                      "self._power_distributing_requests_sender.n_sent": _I,
                      "self._set_power_subscriptions": SubsT, "self._set_op_power_subscriptions": SubsT},
        invariant=dict(distinct_groups="not (self._set_power_group is self._set_op_power_group)"),
        ghost_pre=["pre_sent = self._power_distributing_requests_sender.n_sent", "pre_calls = upd.n_calls",
                   "pre_partial = last_result_partial_failure", "pre_reports = upd.n_reports",
                   "pre_d1 = self._set_power_group.n_drops",
                   "pre_d2 = self._set_op_power_group.n_drops"],
        step=dict(
            requests_only_through_the_update_path="self._power_distributing_requests_sender.n_sent == pre_sent",
            proposal_recomputes_with_must_send="implies(selected.origin == SRC_PROPOSAL, upd.n_calls == pre_calls + 1"
                                               " and upd.last_must_send and not upd.last_proposal_none)",
            partial_failure_recomputes_once="implies(selected.origin == SRC_RESULT and isinstance(selected.message, PartialFailure),"
                                            " upd.n_calls == pre_calls + (0 if pre_partial else 1)"
                                            " and implies(not pre_partial, upd.last_must_send and upd.last_proposal_none)"
                                            " and last_result_partial_failure)",
            reports_follow_the_recomputation="implies(upd.n_reports > pre_reports and upd.n_calls > pre_calls,"
                                             " upd.calls_at_last_report == upd.n_calls)",
            other_results_send_nothing="implies(selected.origin == SRC_RESULT and not isinstance(selected.message, PartialFailure),"
                                       " upd.n_calls == pre_calls)",
            subscriptions_send_nothing="implies(selected.origin == SRC_SUBSCRIPTION, upd.n_calls == pre_calls)",
            timer_expires_both_groups="implies(selected.origin == SRC_TIMER, self._set_power_group.n_drops == pre_d1 + 1"
                                      " and self._set_op_power_group.n_drops == pre_d2 + 1 and upd.n_calls == pre_calls)",
        ))}
    ensures = dict(stream_ended="True")


# ------------------------------------------------------------------ what a pool hands to the power manager
BPOOL = "frequenz.sdk.timeseries.battery_pool._battery_pool"
from contracts.common import ProposalBoundsT  # noqa: E402  pylint: disable=wrong-import-position

ProposalSenderT = ExtObj("frequenz.channels.Sender", methods=dict(send=dict(is_async=True, effects={
    "n_sent": "self.n_sent + 1", "last_power": "args[0].preferred_power", "last_lower": "args[0].bounds.lower",
    "last_upper": "args[0].bounds.upper", "last_priority": "args[0].priority", "last_source": "args[0].source_id",
    "last_op": "args[0].set_operating_point"})),
    n_sent=_I, last_power=Opt(PowerT), last_lower=Opt(PowerT), last_upper=Opt(PowerT), last_priority=_I,
    last_source=StrId, last_op=Bool)
PoolForProposalT = Obj(f"{BPOOL}:BatteryPool", _source_id=StrId, _priority=_I, _set_operating_point=Bool,
                       _pool_ref_store=Obj("frequenz.sdk.timeseries.battery_pool._battery_pool_reference_store:BatteryPoolReferenceStore",
                                           _batteries=OpaqueT("battery ids"), _power_manager_requests_sender=ProposalSenderT))


@contract(f"{BPOOL}:BatteryPool.propose_power")
class ProposePower:
    """C04 (caller side): what an actor proposes is what the power manager receives - the preferred power and BOTH
    sides of the bounds exactly as given (one-sided bounds included), under the pool's own priority and source id."""
    self_shape = PoolForProposalT
    shapes = dict(power=Opt(PowerT), bounds=ProposalBoundsT)
    ghost = dict(loop=ExtObj("event loop", methods=dict(time=dict(returns="now_s"))), now_s=Real)
    externals = {"asyncio.get_running_loop": "loop"}
    modifies = ["self._pool_ref_store._power_manager_requests_sender", "loop"]
    ensures = dict(
        one_proposal="self._pool_ref_store._power_manager_requests_sender.n_sent"
                     " == old(self._pool_ref_store._power_manager_requests_sender.n_sent) + 1",
        power_as_given="self._pool_ref_store._power_manager_requests_sender.last_power == power",
        bounds_as_given="self._pool_ref_store._power_manager_requests_sender.last_lower == bounds.lower"
                        " and self._pool_ref_store._power_manager_requests_sender.last_upper == bounds.upper",
        identity_as_configured="self._pool_ref_store._power_manager_requests_sender.last_priority == self._priority"
                               " and self._pool_ref_store._power_manager_requests_sender.last_source == self._source_id"
                               " and self._pool_ref_store._power_manager_requests_sender.last_op == self._set_operating_point",
    )


def _sender(self):
    return self._pool_ref_store._power_manager_requests_sender


@contract(f"{BPOOL}:BatteryPool.propose_charge")
class ProposeCharge:
    """C04 (caller side): a charge proposal reaches the power manager as the same positive power, without bounds; a
    negative value is refused."""
    self_shape = PoolForProposalT
    shapes = dict(power=Opt(PowerT))
    ghost = dict(loop=ExtObj("event loop", methods=dict(time=dict(returns="now_s"))), now_s=Real)
    externals = {"asyncio.get_running_loop": "loop"}
    modifies = ["self._pool_ref_store._power_manager_requests_sender", "loop"]
    raises = dict(ValueError="power is not None and power.as_watts() < 0")
    ensures = dict(
        one_proposal="_sender(self).n_sent == old(_sender(self).n_sent) + 1",
        power_as_given="_sender(self).last_power == power",
        no_bounds="_sender(self).last_lower is None and _sender(self).last_upper is None",
        identity_as_configured="_sender(self).last_priority == self._priority and _sender(self).last_source == self._source_id"
                               " and _sender(self).last_op == self._set_operating_point",
    )


@contract(f"{BPOOL}:BatteryPool.propose_discharge")
class ProposeDischarge:
    """... and a discharge proposal as the NEGATED power (discharging is negative in the passive sign convention)."""
    self_shape = PoolForProposalT
    shapes = dict(power=Opt(PowerT))
    ghost = ProposeCharge.ghost
    externals = ProposeCharge.externals
    modifies = ProposeCharge.modifies
    raises = dict(ValueError="power is not None and power.as_watts() < 0")
    ensures = dict(
        one_proposal=ProposeCharge.ensures["one_proposal"],
        power_negated="(_sender(self).last_power is None) == (power is None)"
                      " and implies(power is not None, _sender(self).last_power.as_watts() == -power.as_watts())",
        no_bounds=ProposeCharge.ensures["no_bounds"],
        identity_as_configured=ProposeCharge.ensures["identity_as_configured"],
    )


@contract(f"{A}:PowerManagingActor._bounds_tracker")
class BoundsTracker:
    """C11 ("the latest system bounds the manager has RECEIVED"): every bounds message - whatever its timestamp -
    replaces the cached bounds of the group and triggers one recomputation of the request (no proposal)."""
    self_shape = Obj(f"{A}:PowerManagingActor", _system_bounds=DictOpt({CID: SystemBoundsT}))
    shapes = dict(component_ids=Const(CID), bounds_receiver=ExtObj("frequenz.channels.Receiver", stream=SystemBoundsT))
    ghost = dict(upd=UpdatePathT)
    externals = {
        f"{A}:PowerManagingActor._send_updated_target_power":
            "upd.note(args[1], args[2], kwargs['must_send'] if 'must_send' in kwargs else (args[3] if len(args) > 3 else False))",
        f"{A}:PowerManagingActor._send_reports": "upd.report()",
    }
    modifies = ["self._system_bounds", "upd", "bounds_receiver"]
    loops = {"async for bounds in bounds_receiver": dict(
        havoc_fields={"self._system_bounds": DictOpt({CID: SystemBoundsT}), "upd.n_calls": _I, "upd.last_proposal_none": Bool,
                      "upd.last_must_send": Bool, "upd.calls": OpaqueT("log"), "upd.results": OpaqueT("log"),
                      "upd.n_reports": _I, "upd.calls_at_last_report": _I},
        invariant=dict(true="True"),
        ghost_pre=["pre_calls = upd.n_calls", "pre_reports = upd.n_reports"],
        step=dict(
            latest_received_bounds_cached="CID in self._system_bounds and self._system_bounds[CID] == bounds",
            request_recomputed_once="upd.n_calls == pre_calls + 1 and upd.last_proposal_none",
            # "... equals the sum of the targets CURRENTLY REPORTED": the reports of this event go out after the
            # recomputation, so they carry the targets the request was built from
            reports_follow_the_recomputation="upd.n_reports == pre_reports + 1 and upd.calls_at_last_report == upd.n_calls",
        ))}
    ensures = dict(stream_ended="True")
