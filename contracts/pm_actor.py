"""Contracts for PowerManagingActor (C11)."""
from pyvc.spec import (contract, Rec, Obj, Opt, PowerT, Int, Real, Bool, Const, DictOpt, OpaqueT, implies)
from contracts.common import SystemBoundsT, zero, in_zone, usable
from contracts.pm_matryoshka import (M, CID, KEY, ProposalT, ProposalSetT, C04_REQUIRES, envelope, stored_target,
                                     validated, bucket, sys_lower, sys_upper, sys_excl, B)

A = "frequenz.sdk.microgrid._power_managing._power_managing_actor"

MatryoshkaCid = Obj(
    f"{M}:Matryoshka",
    _max_proposal_age_sec=Real,
    _component_buckets=DictOpt({CID: ProposalSetT}),
    _target_power=DictOpt({CID: PowerT}),
)


@contract(f"{M}:Matryoshka.calculate_target_power", case="c11")
class CalculateTargetPowerC11:
    """The part of calculate_target_power's contract that the actor relies on (one component group)."""
    self_shape = MatryoshkaCid
    shapes = dict(component_ids=Const(CID), proposal=Opt(ProposalT), system_bounds=SystemBoundsT,
                  must_return_power=Bool)
    result = Opt(PowerT)
    native_opaque = {"component_ids": CID}
    inline = [f"{M}:Matryoshka._validate_component_ids"]
    modifies = ["self._component_buckets", "self._target_power"]
    # callers of this case never look inside a bucket: after the call it is an opaque value
    havoc_shapes = {"self._component_buckets": DictOpt({CID: OpaqueT("bucket")})}
    requires = dict(zero_inside=C04_REQUIRES["zero_inside"])
    ensures = dict(
        none_means_unchanged="implies(result is None,"
                             " stored_target(self, component_ids) == old(stored_target(self, component_ids)))",
        returned_is_stored="implies(result is not None, stored_target(self, component_ids) == result)",
        must_return="implies(must_return_power and component_ids in self._component_buckets, result is not None)",
        stored_in_envelope="implies(component_ids in self._component_buckets,"
                           " envelope(stored_target(self, component_ids), system_bounds))",
        no_bucket_no_target="implies(not (component_ids in self._component_buckets),"
                            " result is None and stored_target(self, component_ids) == old(stored_target(self, component_ids)))",
        bucket_created_iff="(component_ids in self._component_buckets) =="
                           " (old(component_ids in self._component_buckets)"
                           "  or (proposal is not None and old(validated(self, component_ids, system_bounds))))",
        # class invariant of Matryoshka, preserved: a target is stored only for a group that has a bucket
        target_implies_bucket="implies(old(target_implies_bucket(self, component_ids)),"
                              " target_implies_bucket(self, component_ids))",
    )


def target_implies_bucket(group, cid):
    return (cid in group._component_buckets) or not (cid in group._target_power)


MatryoshkaAbstract = Obj(
    f"{M}:Matryoshka",
    _max_proposal_age_sec=Real,
    _component_buckets=DictOpt({CID: OpaqueT("bucket")}),
    _target_power=DictOpt({CID: PowerT}),
)
ActorSelf = Obj(
    f"{A}:PowerManagingActor",
    _system_bounds=DictOpt({CID: SystemBoundsT}, always=[CID]),
    _set_power_group=MatryoshkaAbstract,
    _set_op_power_group=MatryoshkaAbstract,
)


def tgt(group, cid):
    """The target currently stored (and reported) for the group; none yet counts as zero."""
    return stored_target(group, cid) if stored_target(group, cid) is not None else zero()


def sysb(self, cid):
    return self._system_bounds[cid]


@contract(f"{A}:PowerManagingActor._calculate_shifted_bounds")
class ShiftedBounds:
    self_shape = Obj(f"{A}:PowerManagingActor")
    shapes = dict(bounds=SystemBoundsT, op_power=Opt(PowerT))
    result = SystemBoundsT
    pure = True
    ensures = dict(
        identity_without_op="implies(op_power is None, result == bounds)",
        exclusion_kept="result.exclusion_bounds == bounds.exclusion_bounds",
        inclusion_none_iff="(result.inclusion_bounds is None) == (bounds.inclusion_bounds is None)",
        inclusion_shifted="implies(op_power is not None and bounds.inclusion_bounds is not None,"
                          " result.inclusion_bounds.lower == bounds.inclusion_bounds.lower - op_power"
                          " and result.inclusion_bounds.upper == bounds.inclusion_bounds.upper - op_power)",
    )


@contract(f"{A}:PowerManagingActor._calculate_target_power")
class ActorCalculateTargetPower:
    """C11: what is sent = regular target + operating-point target, inside the system inclusion bounds."""
    self_shape = ActorSelf
    shapes = dict(component_ids=Const(CID), proposal=Opt(ProposalT), must_send=Bool)
    result = Opt(PowerT)
    native_opaque = {"component_ids": CID, "bucket": set}
    modifies = ["self._set_power_group._component_buckets", "self._set_power_group._target_power",
                "self._set_op_power_group._component_buckets", "self._set_op_power_group._target_power"]
    use = {f"{M}:Matryoshka.calculate_target_power": f"{M}:Matryoshka.calculate_target_power#c11"}
    requires = dict(
        zero_inside="sysb(self, component_ids).inclusion_bounds is None or "
                    "sysb(self, component_ids).inclusion_bounds.lower <= zero() <= sysb(self, component_ids).inclusion_bounds.upper",
        distinct_groups="not (self._set_power_group is self._set_op_power_group)",
        # class invariant of Matryoshka (preserved by calculate_target_power, see its contract)
        targets_have_buckets="target_implies_bucket(self._set_power_group, component_ids)"
                             " and target_implies_bucket(self._set_op_power_group, component_ids)",
    )
    ensures = dict(
        sum_of_reported_targets="implies(result is not None, result == tgt(self._set_power_group, component_ids)"
                                " + tgt(self._set_op_power_group, component_ids))",
        within_system_bounds="implies(result is not None and sysb(self, component_ids).inclusion_bounds is not None,"
                             " sysb(self, component_ids).inclusion_bounds.lower <= result"
                             " <= sysb(self, component_ids).inclusion_bounds.upper)",
        bounds_untouched="sysb(self, component_ids) == old(sysb(self, component_ids))",
        invariant_kept="target_implies_bucket(self._set_power_group, component_ids)"
                       " and target_implies_bucket(self._set_op_power_group, component_ids)",
    )
