"""Contracts for formula evaluation timing (C06): every emitted sample uses inputs of one timestamp."""
import math
from datetime import timedelta

from pyvc.spec import (contract, Obj, Rec, Opt, ExtObj, DictOpt, FixedList, Time, Int, Real, Bool, Qty, OpaqueT, Const, Float,
                       implies, forall)

EV = "frequenz.sdk.timeseries.formula_engine._formula_evaluator"
ENG = "frequenz.sdk.timeseries.formula_engine._formula_engine"
ST = "frequenz.sdk.timeseries.formula_engine._formula_steps"
try:
    from frequenz.sdk.timeseries._base_types import Sample
except ImportError:
    Sample = None

STEP = timedelta(microseconds=1)     # timestamps counted in grid steps (see fe_fetcher)
SampleT = Rec("frequenz.sdk.timeseries._base_types:Sample", timestamp=Time, value=Opt(Qty("Power")))

# a metric fetcher as a scripted collaborator on the common grid: fetch_next() returns the next sample of
# its stream (stamped next_ts) and remembers it (this is the sample the steps will read)
FETCH = dict(is_async=True, returns="Sample(pre.next_ts, fresh)", fresh=Opt(Qty("Power")),
             effects={"next_ts": "self.next_ts + STEP", "last_ts": "self.next_ts", "n_fetched": "self.n_fetched + 1"})
# the fetcher is also a formula step: apply() pushes the value of the sample fetched last; the model records the
# timestamp of the sample the step read (read_ts) and how often it ran
READ = dict(effects={"read_ts": "self.last_ts", "n_read": "self.n_read + 1"})
FetcherT = ExtObj("MetricFetcher", methods=dict(fetch_next=FETCH, apply=READ), next_ts=Time, last_ts=Time, n_fetched=Int,
                  read_ts=Time, n_read=Int)
CreateT = ExtObj("create_method", methods={"__call__": dict(returns=Qty("Power"))})
ConstStepT = Obj(f"{ST}:ConstantValue", _value=Real)
EvaluatorT = Obj(f"{EV}:FormulaEvaluator", _name=OpaqueT("name"), _steps=FixedList(ConstStepT),
                 _metric_fetchers=DictOpt({"a": FetcherT, "b": FetcherT, "c": FetcherT}, always=["a", "b", "c"]), _first_run=Bool,
                 _create_method=CreateT)


def fa(self):
    return self._metric_fetchers["a"]


def fb(self):
    return self._metric_fetchers["b"]


def fc(self):
    return self._metric_fetchers["c"]


def aligned(self):
    """All input streams will deliver the same timestamp next."""
    return fa(self).next_ts == fb(self).next_ts and fb(self).next_ts == fc(self).next_ts


@contract(f"{EV}:FormulaEvaluator.apply")
class EvaluatorApply:
    """C06: the emitted sample is stamped T and both inputs read by the steps are the samples stamped T; on the
    first run lagging streams are read forward to the latest first timestamp (nothing beyond it); afterwards the
    timestamps advance by exactly one input step."""
    self_shape = EvaluatorT
    result = SampleT
    modifies = ["self._metric_fetchers", "self._first_run", "self._create_method"]
    inline = [f"{EV}:FormulaEvaluator._synchronize_metric_timestamps", f"{ST}:ConstantValue.apply"]
    aliases = dict(A="self._metric_fetchers['a']", B="self._metric_fetchers['b']", C="self._metric_fetchers['c']")
    # the formula's steps: the two fetchers themselves (as in a built formula) followed by one constant
    ghost_init = ["self._steps.insert(0, self._metric_fetchers['c'])", "self._steps.insert(0, self._metric_fetchers['b'])",
                  "self._steps.insert(0, self._metric_fetchers['a'])"]
    requires = dict(steady_state_is_aligned="self._first_run or aligned(self)",
                    fresh="A.n_fetched == 0 and B.n_fetched == 0 and C.n_fetched == 0"
                          " and A.n_read == 0 and B.n_read == 0 and C.n_read == 0")
    loops = {"while metric_ts < latest_ts": dict(
        havoc_fields={"A.next_ts": Time, "A.last_ts": Time, "A.n_fetched": Int, "A.calls": OpaqueT("log"),
                      "A.results": OpaqueT("log"), "B.next_ts": Time, "B.last_ts": Time, "B.n_fetched": Int,
                      "B.calls": OpaqueT("log"), "B.results": OpaqueT("log"),
                      "C.next_ts": Time, "C.last_ts": Time, "C.n_fetched": Int, "C.calls": OpaqueT("log"),
                      "C.results": OpaqueT("log")},
        invariant=dict(
            cursors="A.next_ts == A.last_ts + STEP and B.next_ts == B.last_ts + STEP and C.next_ts == C.last_ts + STEP",
            lagging_streams_share_timestamp="all(self._metric_fetchers[n].last_ts == metric_ts for n in names)",
            never_beyond_latest="metric_ts <= latest_ts",
            # streams not being drained right now still sit on the first sample they delivered
            # (the timestamp under which they are filed), or were already drained to the latest timestamp
            others_untouched="all(n in names"
                             " or (filed_under(metrics_by_ts, n, self._metric_fetchers[n].last_ts)"
                             "     if n in later_names(metrics_by_ts, names) else self._metric_fetchers[n].last_ts == latest_ts)"
                             " for n in ('a', 'b', 'c'))",
        ))}
    raises = dict(RuntimeError="False")
    ensures = dict(
        inputs_have_output_timestamp="A.last_ts == result.timestamp and B.last_ts == result.timestamp"
                                     " and C.last_ts == result.timestamp",
        steps_read_samples_of_output_timestamp="A.n_read == 1 and B.n_read == 1 and C.n_read == 1"
                                               " and A.read_ts == result.timestamp and B.read_ts == result.timestamp"
                                               " and C.read_ts == result.timestamp",
        aligned_afterwards="aligned(self) and not self._first_run",
        steady_state_advances_one_step="implies(not old(self._first_run), result.timestamp == old(A.next_ts)"
                                       " and A.n_fetched == 1 and B.n_fetched == 1 and C.n_fetched == 1)",
        first_run_lands_on_latest_first_timestamp="implies(old(self._first_run), result.timestamp == max(old(A.next_ts), old(B.next_ts), old(C.next_ts)))",
    )


def later_names(metrics_by_ts, names):
    """The stream names filed under timestamps that the synchronisation visits after the group `names`."""
    out = []
    seen = False
    for ns in metrics_by_ts.values():
        if seen:
            out = out + ns
        if ns == names:
            seen = True
    return out


def filed_under(metrics_by_ts, name, ts):
    return any(name in names and key == ts for key, names in metrics_by_ts.items())


# ------------------------------------------------------------------ 3-phase engine: zips three per-phase streams
S3 = "frequenz.sdk.timeseries._base_types:Sample3Phase"
PHASE_RECEIVE = dict(is_async=True, raise_before_effects=True, raises=["CancelledError"],
                     returns="Sample(pre.next_ts, fresh)", fresh=Opt(Qty("Power")),
                     effects={"next_ts": "self.next_ts + STEP", "last_ts": "self.next_ts"})
PhaseRxT = ExtObj("frequenz.channels.Receiver", methods=dict(receive=PHASE_RECEIVE), next_ts=Time, last_ts=Time)
# the sender checks, for every message it is given, that the three samples just read carry the message's timestamp
Sender3T = ExtObj("frequenz.channels.Sender", methods=dict(send=dict(
    is_async=True, effects={"n_sent": "self.n_sent + 1",
                            "n_mixed": "self.n_mixed + (0 if (rx1.last_ts == args[0].timestamp and rx2.last_ts == args[0].timestamp"
                                       " and rx3.last_ts == args[0].timestamp) else 1)"})), n_sent=Int, n_mixed=Int)


_RX_HAVOC = {"rx1.next_ts": Time, "rx1.last_ts": Time, "rx2.next_ts": Time, "rx2.last_ts": Time,
             "rx3.next_ts": Time, "rx3.last_ts": Time,
             "rx1.calls": OpaqueT("log"), "rx2.calls": OpaqueT("log"), "rx3.calls": OpaqueT("log"),
             "rx1.results": OpaqueT("log"), "rx2.results": OpaqueT("log"), "rx3.results": OpaqueT("log")}


@contract(f"{ENG}:FormulaEngine3Phase._run")
class ThreePhaseRun:
    """Every 3-phase sample is built from per-phase samples of ONE timestamp - also when the three per-phase streams
    start on different timestamps (the samples held are always the latest read of their streams, and a message is
    only built once their timestamps agree)."""
    self_shape = Obj(f"{ENG}:FormulaEngine3Phase", _name=OpaqueT("name"),
                     _channel=ExtObj("Broadcast", methods=dict(new_sender=dict(returns="sender"))),
                     _streams=FixedList(ExtObj("FormulaEngine", methods=dict(new_receiver=dict(returns="rx1"))),
                                        ExtObj("FormulaEngine", methods=dict(new_receiver=dict(returns="rx2"))),
                                        ExtObj("FormulaEngine", methods=dict(new_receiver=dict(returns="rx3"))),
                                        container="tuple"))
    ghost = dict(rx1=PhaseRxT, rx2=PhaseRxT, rx3=PhaseRxT, sender=Sender3T)
    modifies = ["rx1", "rx2", "rx3", "sender", "self._channel", "self._streams"]
    requires = dict(fresh="sender.n_sent == 0 and sender.n_mixed == 0")
    loops = {
        "while True": dict(
            havoc_fields=dict(_RX_HAVOC, **{"sender.n_sent": Int, "sender.n_mixed": Int,
                                            "sender.calls": OpaqueT("log"), "sender.results": OpaqueT("log")}),
            invariant=dict(never_mixes_timestamps="sender.n_mixed == 0")),
        # the alignment loop: skip ahead on the lagging streams
        "while not ( phase_1.timestamp == phase_2.timestamp and phase_2.timestamp == phase_3.timestamp )": dict(
            havoc_fields=_RX_HAVOC,
            havoc={"phase_1": SampleT, "phase_2": SampleT, "phase_3": SampleT},
            invariant=dict(
                held_samples_are_the_latest_read="phase_1.timestamp == rx1.last_ts and phase_2.timestamp == rx2.last_ts"
                                                 " and phase_3.timestamp == rx3.last_ts",
                nothing_sent_meanwhile="sender.n_mixed == 0",
            )),
    }
    ensures = dict(never_mixes_timestamps="sender.n_mixed == 0")


# ------------------------------------------------------------------ C13: the evaluator's last step
ConstStepFpT = Obj(f"{ST}:ConstantValue", _value=Float)
EvaluatorFpT = Obj(f"{EV}:FormulaEvaluator", _name=OpaqueT("name"), _steps=FixedList(ConstStepFpT),
                   _metric_fetchers=DictOpt({"a": FetcherT}, always=["a"]), _first_run=Bool,
                   _create_method=ExtObj("create_method", methods={"__call__": dict(returns="made", effects={
                       "n_calls": "self.n_calls + 1", "last_arg": "args[0]"})}, n_calls=Int, last_arg=Float))


@contract(f"{EV}:FormulaEvaluator.apply", case="c13")
class EvaluatorApplyNonFinite:
    """C13: whatever the steps leave on the stack (any IEEE double, here produced by one constant step), a sample
    is emitted for the timestamp; its value is None exactly when that number is NaN or +-infinity, otherwise it is
    the quantity made from exactly that number."""
    mode = "ieee"
    self_shape = EvaluatorFpT
    result = SampleT
    ghost = dict(made=Qty("Power"))
    modifies = ["self._metric_fetchers", "self._first_run", "self._create_method"]
    inline = [f"{EV}:FormulaEvaluator._synchronize_metric_timestamps", f"{ST}:ConstantValue.apply"]
    raises = dict(RuntimeError="False")
    requires = dict(fresh="self._create_method.n_calls == 0")
    ensures = dict(
        none_iff_not_finite="(result.value is None) == (math.isnan(self._steps[0]._value) or math.isinf(self._steps[0]._value))",
        otherwise_made_from_the_result="implies(result.value is not None, self._create_method.n_calls == 1"
                                       " and self._create_method.last_arg == self._steps[0]._value)",
        stamped_with_the_input_timestamp="result.timestamp == self._metric_fetchers['a'].last_ts",
    )
