"""Contracts for the data sourcing actor's subscription handling (C20, the per-call part)."""
from pyvc.spec import (contract, Obj, Rec, Opt, ExtObj, DictOpt, FixedList, TaskT, Enum, Const, Int, StrId, Time, Bool,
                       OpaqueT, OneOf, implies, forall)

DS = "frequenz.sdk.microgrid._data_sourcing"
SRC = f"{DS}.microgrid_api_source:MicrogridApiSource"
REQ = f"{DS}._component_metric_request:ComponentMetricRequest"
CID = 7
METRIC = "metric-A"     # the metric id is only used as a dict key here

ReqT = Rec(REQ, namespace=StrId, component_id=Const(CID), metric_id=Const(METRIC), start_time=Opt(Time))
RequestsT = FixedList(ReqT, ReqT, optional=True)
SourceT = Obj(SRC,
              _req_streaming_metrics=DictOpt({CID: DictOpt({METRIC: RequestsT})}),
              comp_data_tasks=DictOpt({CID: TaskT()}))
CategoryT = Opt(OpaqueT("category"))


def requests_of(self):
    return (self._req_streaming_metrics[CID][METRIC]
            if CID in self._req_streaming_metrics and METRIC in self._req_streaming_metrics[CID] else [])


def same_channel(a, b):
    """Two requests name the same channel (namespace, component, metric, start time)."""
    return a.namespace == b.namespace and a.start_time == b.start_time


@contract(f"{SRC}._update_streams")
class UpdateStreams:
    """The component's streaming task is replaced: the old one is asked to cancel, exactly one new one is registered."""
    self_shape = SourceT
    shapes = dict(comp_id=Const(CID), category=OpaqueT("category"))
    modifies = ["self.comp_data_tasks"]
    ensures = dict(
        old_task_cancelled="implies(old(CID in self.comp_data_tasks), old(self.comp_data_tasks.get(CID)).cancel_requested)",
        one_new_task="CID in self.comp_data_tasks and not self.comp_data_tasks[CID].done()"
                     " and not (self.comp_data_tasks[CID] is old(self.comp_data_tasks.get(CID)))",
        subscriptions_untouched="len(requests_of(self)) == old(len(requests_of(self)))",
    )


@contract(f"{SRC}.add_metric")
class AddMetric:
    """Unknown component: nothing happens.  A request naming an already subscribed channel: nothing happens (no
    task restart).  Otherwise the request is appended once and the component's streaming task is replaced once."""
    self_shape = SourceT
    shapes = dict(request=ReqT)
    ghost = dict(category=CategoryT)
    externals = {f"{SRC}._get_component_category": "category",
                 f"{REQ}.get_channel_name": "(args[0].namespace, args[0].start_time)"}
    modifies = ["self._req_streaming_metrics", "self.comp_data_tasks"]
    ensures = dict(
        unknown_component_ignored="implies(category is None, len(requests_of(self)) == old(len(requests_of(self)))"
                                  " and task_untouched(self, old(self.comp_data_tasks.get(CID))))",
        duplicate_has_no_effect="implies(old(any(same_channel(r, request) for r in requests_of(self))),"
                                " len(requests_of(self)) == old(len(requests_of(self)))"
                                " and task_untouched(self, old(self.comp_data_tasks.get(CID))))",
        new_request_appended_once="implies(category is not None and not old(any(same_channel(r, request) for r in requests_of(self))),"
                                  " len(requests_of(self)) == old(len(requests_of(self))) + 1"
                                  " and same_channel(requests_of(self)[-1], request)"
                                  " and CID in self.comp_data_tasks and not self.comp_data_tasks[CID].done())",
        existing_subscriptions_kept="all(same_channel(requests_of(self)[i], old(requests_of(self))[i])"
                                    " for i in range(old(len(requests_of(self)))))",
    )


def task_untouched(self, old_task):
    return (CID in self.comp_data_tasks) == (old_task is not None) and (
        old_task is None or (self.comp_data_tasks[CID] is old_task and not old_task.cancel_requested))


# ------------------------------------------------------------------ the request channel of the data sourcing actor
DP = "frequenz.sdk.microgrid._data_pipeline"
REQUEST_BUFFER = 500      # _REQUEST_RECV_BUFFER_SIZE: bursts of subscription requests up to this size are not dropped

ChannelT = ExtObj("frequenz.channels.Broadcast", methods=dict(
    new_receiver=dict(returns="rx", effects={"n_receivers": "self.n_receivers + 1",
                                             "limit": "kwargs['limit'] if 'limit' in kwargs else 50"}),
    new_sender=dict(returns="tx")), n_receivers=Int, limit=Int)
SourcingActorT = ExtObj("DataSourcingActor", methods=dict(start=dict(effects={"n_started": "self.n_started + 1"})), n_started=Int)
ActorFactoryT = ExtObj("DataSourcingActor factory", methods={"__call__": dict(returns="actor", effects={
    "n_made": "self.n_made + 1", "given_receiver": "kwargs['request_receiver']"})}, n_made=Int, given_receiver=ExtObj("frequenz.channels.Receiver"))
ActorInfoT = Rec(f"{DP}:_ActorInfo", actor=SourcingActorT, channel=ChannelT)
PipelineT = Obj(f"{DP}:_DataPipeline", _data_sourcing_actor=Opt(ActorInfoT), _channel_registry=OpaqueT("registry"))


@contract(f"{DP}:_DataPipeline._data_sourcing_request_sender")
class RequestSender:
    """The data sourcing actor is created once, started once, and reads subscription requests through a receiver
    whose buffer is at least the documented request buffer: a burst of back-to-back subscriptions (every metric of
    every component of a microgrid) must not lose requests - a lost request is a stream that never gets a sample."""
    self_shape = PipelineT
    ghost = dict(chan=ChannelT, rx=ExtObj("frequenz.channels.Receiver"), tx=ExtObj("frequenz.channels.Sender"),
                 actor=SourcingActorT, make_actor=ActorFactoryT)
    externals = {"frequenz.channels.Broadcast": "chan", f"{DS}.data_sourcing:DataSourcingActor": "call make_actor",
                 f"{DS}:DataSourcingActor": "call make_actor"}
    modifies = ["self._data_sourcing_actor", "chan", "actor", "make_actor"]
    requires = dict(fresh="chan.n_receivers == 0 and actor.n_started == 0 and make_actor.n_made == 0")
    ensures = dict(
        created_and_started_once_when_missing="implies(old(self._data_sourcing_actor is None), make_actor.n_made == 1"
                                              " and actor.n_started == 1 and chan.n_receivers == 1"
                                              " and make_actor.given_receiver is rx)",
        request_buffer_not_reduced="implies(old(self._data_sourcing_actor is None), chan.limit >= REQUEST_BUFFER)",
    )
