"""Contracts for Matryoshka (C03, C04, C11)."""
from pyvc.spec import (contract, Rec, Opt, PowerT, Int, Real, Bool, StrId, OpaqueT, SetSeq, Obj,
                       implies, forall)
from contracts.common import (BoundsT, OptBoundsT, ProposalBoundsT, SystemBoundsT, zero, in_zone, usable)

M = "frequenz.sdk.microgrid._power_managing._matryoshka"
B = "frequenz.sdk.microgrid._power_managing._bounds"
PROPOSAL = "frequenz.sdk.microgrid._power_managing._base_classes:Proposal"

ProposalT = Rec(PROPOSAL, source_id=StrId, preferred_power=Opt(PowerT), bounds=ProposalBoundsT,
                component_ids=OpaqueT("component_ids"), priority=Int, creation_time=Real,
                set_operating_point=Bool)

MatryoshkaSelf = Obj(f"{M}:Matryoshka")


def sys_lower(sb):
    return sb.inclusion_bounds.lower if sb.inclusion_bounds is not None else zero()


def sys_upper(sb):
    return sb.inclusion_bounds.upper if sb.inclusion_bounds is not None else zero()


def sys_excl(sb):
    """The exclusion zone the algorithm honours: none when absent or degenerate (0, 0)."""
    return (sb.exclusion_bounds
            if sb.exclusion_bounds is not None
            and (sb.exclusion_bounds.lower != zero() or sb.exclusion_bounds.upper != zero())
            else None)


def envelope(p, sb):
    """C03: p is zero, or inside the inclusion bounds and not strictly inside the exclusion zone."""
    return p == zero() or usable(p, sys_lower(sb), sys_upper(sb), sys_excl(sb))


@contract(f"{M}:Matryoshka._calc_target_power")
class CalcTargetPower:
    self_shape = MatryoshkaSelf
    shapes = dict(proposals=SetSeq(ProposalT), system_bounds=SystemBoundsT)
    result = PowerT
    pure = True
    native_opaque = {"component_ids": frozenset({1})}
    requires = dict(
        zero_inside="system_bounds.inclusion_bounds is None or "
                    "system_bounds.inclusion_bounds.lower <= zero() <= system_bounds.inclusion_bounds.upper",
    )
    loops = {
        "for next_proposal in sorted(proposals, reverse=True)": dict(
            idx="_i",
            invariant=dict(
                lower_in_system="sys_lower(system_bounds) <= lower_bound",
                upper_in_system="upper_bound <= sys_upper(system_bounds)",
                excl_is_system="exclusion_bounds == sys_excl(system_bounds)",
                target_in_envelope="envelope(target_power, system_bounds)",
            ),
        ),
    }
    ensures = dict(envelope="envelope(result, system_bounds)")


# ---------------------------------------------------------------------------------------
# C04: the documented narrowing and the documented choice of the target, written from the
# property statement (not from the code): running bounds G and running target T along the
# proposals in descending priority.
# ---------------------------------------------------------------------------------------

def p_lower(p, lo):
    return p.bounds.lower if p.bounds.lower is not None else lo


def p_upper(p, hi):
    return p.bounds.upper if p.bounds.upper is not None else hi


def skipped(lo, hi, ex, p):
    """A proposal whose bounds lie wholly inside the exclusion zone does not narrow anything."""
    return in_zone(p_lower(p, lo), ex) and in_zone(p_upper(p, hi), ex)


def carve_lo(lo, ex):
    return ex.upper if in_zone(lo, ex) else lo


def carve_hi(hi, ex):
    return ex.lower if in_zone(hi, ex) else hi


def narrow(lo, hi, ex, p):
    """[lo, hi] intersected with p's bounds, exclusion zone carved out at the ends."""
    return ((lo, hi) if skipped(lo, hi, ex, p)
            else (carve_lo(max(lo, p_lower(p, lo)), ex), carve_hi(min(hi, p_upper(p, hi)), ex)))


def compatible(lo, hi, ex, p):
    """p's bounds leave a usable value in [lo, hi] (the conflict-free regime of C04)."""
    return skipped(lo, hi, ex, p) or (
        max(lo, p_lower(p, lo)) <= min(hi, p_upper(p, hi))
        and not (in_zone(max(lo, p_lower(p, lo)), ex) and in_zone(min(hi, p_upper(p, hi)), ex)))


def nearest(pref, lo, hi, ex):
    """The usable value of [lo, hi] minus the zone that is closest to pref (lower one on a tie);
    a zero request is kept as it is.  Requires lo <= hi with lo, hi not strictly inside the zone."""
    return (pref if usable(pref, lo, hi, ex) or (pref == zero() and lo <= pref <= hi)
            else lo if pref < lo
            else hi if pref > hi
            else (ex.upper if ex.upper - pref < pref - ex.lower else ex.lower))


def choose(prev, pref, lo, hi, ex):
    return prev if pref is None else nearest(pref, lo, hi, ex)


def higher_count_ok(s, n, k, priority):
    """k = number of proposals (sorted descending) with priority strictly above `priority`."""
    return (0 <= k <= n and forall(0, k, lambda j: s[j].priority > priority)
            and (k == n or s[k].priority <= priority))


GHOST_SEQS = dict(
    G=dict(over="sorted(proposals, reverse=True)", shape=None,  # shape filled below
           init="(sys_lower(system_bounds), sys_upper(system_bounds))",
           step="narrow(prev[0], prev[1], sys_excl(system_bounds), elem)"),
    T=dict(over="sorted(proposals, reverse=True)", shape=None,
           init="zero()",
           step="choose(prev, elem.preferred_power, G(k)[0], G(k)[1], sys_excl(system_bounds))"),
)

from pyvc.spec import Tup  # noqa: E402

GHOST_SEQS["G"]["shape"] = Tup(PowerT, PowerT)
GHOST_SEQS["T"]["shape"] = PowerT

C04_REQUIRES = dict(
    zero_inside="system_bounds.inclusion_bounds is None or "
                "system_bounds.inclusion_bounds.lower <= zero() <= system_bounds.inclusion_bounds.upper",
    # documented invariant of SystemBounds: the exclusion zone is a subset of the inclusion range
    excl_within_incl="not in_zone(sys_lower(system_bounds), sys_excl(system_bounds))"
                     " and not in_zone(sys_upper(system_bounds), sys_excl(system_bounds))",
    # the quantifier of C04: conflict-free proposal sets
    conflict_free="forall(0, len(proposals), lambda j: compatible(G(j)[0], G(j)[1], sys_excl(system_bounds),"
                  " sorted(proposals, reverse=True)[j]))",
)


@contract(f"{M}:Matryoshka._calc_target_power", case="c04")
class CalcTargetPowerC04:
    self_shape = MatryoshkaSelf
    shapes = dict(proposals=SetSeq(ProposalT), system_bounds=SystemBoundsT)
    result = PowerT
    native_opaque = {"component_ids": frozenset({1})}
    ghost_seqs = GHOST_SEQS
    requires = C04_REQUIRES
    instantiate = {f"{B}:clamp_to_bounds": [dict(x="lower_bound"), dict(x="upper_bound"),
                                                dict(x="exclusion_bounds.lower"), dict(x="exclusion_bounds.upper")]}
    loops = {
        "for next_proposal in sorted(proposals, reverse=True)": dict(
            idx="_i",
            invariant=dict(
                excl_is_system="exclusion_bounds == sys_excl(system_bounds)",
                running_bounds="lower_bound == G(_i)[0] and upper_bound == G(_i)[1]",
                running_ordered="lower_bound <= upper_bound",
                endpoints_clear="not in_zone(lower_bound, exclusion_bounds) and not in_zone(upper_bound, exclusion_bounds)",
                running_target="target_power == T(_i)",
            ),
        ),
    }
    ensures = dict(target_is_documented_choice="result == T(len(proposals))")
