"""Contracts for Matryoshka (C03, C04, C11)."""
from pyvc.spec import (contract, Rec, Opt, PowerT, Int, Real, Bool, StrId, OpaqueT, SetSeq, Obj,
                       implies, forall)
from contracts.common import (BoundsT, OptBoundsT, ProposalBoundsT, SystemBoundsT, zero, in_zone, usable)

M = "frequenz.sdk.microgrid._power_managing._matryoshka"
PROPOSAL = "frequenz.sdk.microgrid._power_managing._base_classes:Proposal"

ProposalT = Rec(PROPOSAL, source_id=StrId, preferred_power=Opt(PowerT), bounds=ProposalBoundsT,
                component_ids=OpaqueT("component_ids"), priority=Int, creation_time=Real,
                set_operating_point=Bool)

MatryoshkaSelf = Obj(f"{M}:Matryoshka")


def sys_lower(sb):
    return sb.inclusion_bounds.lower if sb.inclusion_bounds is not None else zero()


def sys_upper(sb):
    return sb.inclusion_bounds.upper if sb.inclusion_bounds is not None else zero()


def sys_excl(sb):
    """The exclusion zone the algorithm honours: none when absent or degenerate (0, 0)."""
    return (sb.exclusion_bounds
            if sb.exclusion_bounds is not None
            and (sb.exclusion_bounds.lower != zero() or sb.exclusion_bounds.upper != zero())
            else None)


def envelope(p, sb):
    """C03: p is zero, or inside the inclusion bounds and not strictly inside the exclusion zone."""
    return p == zero() or usable(p, sys_lower(sb), sys_upper(sb), sys_excl(sb))


@contract(f"{M}:Matryoshka._calc_target_power")
class CalcTargetPower:
    self_shape = MatryoshkaSelf
    shapes = dict(proposals=SetSeq(ProposalT), system_bounds=SystemBoundsT)
    result = PowerT
    pure = True
    native_opaque = {"component_ids": frozenset({1})}
    requires = dict(
        zero_inside="system_bounds.inclusion_bounds is None or "
                    "system_bounds.inclusion_bounds.lower <= zero() <= system_bounds.inclusion_bounds.upper",
    )
    loops = {
        "for next_proposal in sorted(proposals, reverse=True)": dict(
            idx="_i",
            invariant=dict(
                lower_in_system="sys_lower(system_bounds) <= lower_bound",
                upper_in_system="upper_bound <= sys_upper(system_bounds)",
                excl_is_system="exclusion_bounds == sys_excl(system_bounds)",
                target_in_envelope="envelope(target_power, system_bounds)",
            ),
        ),
    }
    ensures = dict(envelope="envelope(result, system_bounds)")
