"""Contracts for Matryoshka (C03, C04, C11)."""
from pyvc.spec import (contract, Rec, Opt, PowerT, Int, Real, Bool, StrId, OpaqueT, KeySet, Obj, Seq as SeqT,
                       implies, forall)
from contracts.common import (BoundsT, OptBoundsT, ProposalBoundsT, SystemBoundsT, zero, in_zone, usable)

M = "frequenz.sdk.microgrid._power_managing._matryoshka"
B = "frequenz.sdk.microgrid._power_managing._bounds"
PROPOSAL = "frequenz.sdk.microgrid._power_managing._base_classes:Proposal"

ProposalT = Rec(PROPOSAL, source_id=StrId, preferred_power=Opt(PowerT), bounds=ProposalBoundsT,
                component_ids=OpaqueT("component_ids"), priority=Int, creation_time=Real,
                set_operating_point=Bool)

ProposalSetT = KeySet(ProposalT, key=("priority", "source_id"))

MatryoshkaSelf = Obj(f"{M}:Matryoshka")


def sys_lower(sb):
    return sb.inclusion_bounds.lower if sb.inclusion_bounds is not None else zero()


def sys_upper(sb):
    return sb.inclusion_bounds.upper if sb.inclusion_bounds is not None else zero()


def sys_excl(sb):
    """The exclusion zone the algorithm honours: none when absent or degenerate (0, 0)."""
    return (sb.exclusion_bounds
            if sb.exclusion_bounds is not None
            and (sb.exclusion_bounds.lower != zero() or sb.exclusion_bounds.upper != zero())
            else None)


def envelope(p, sb):
    """C03: p is zero, or inside the inclusion bounds and not strictly inside the exclusion zone."""
    return p == zero() or usable(p, sys_lower(sb), sys_upper(sb), sys_excl(sb))


@contract(f"{M}:Matryoshka._calc_target_power")
class CalcTargetPower:
    self_shape = MatryoshkaSelf
    shapes = dict(proposals=ProposalSetT, system_bounds=SystemBoundsT)
    result = PowerT
    pure = True
    native_opaque = {"component_ids": frozenset({1})}
    requires = dict(
        zero_inside="system_bounds.inclusion_bounds is None or "
                    "system_bounds.inclusion_bounds.lower <= zero() <= system_bounds.inclusion_bounds.upper",
    )
    loops = {
        "for next_proposal in sorted(proposals, reverse=True)": dict(
            idx="_i", seq_name="visit",
            invariant=dict(
                # history-freedom: the sweep visits the live proposals in THE strict order of Proposal.__lt__
                # (priority, then source id) - for a set of proposals with distinct keys that arrangement is unique
                visited_in_strict_order="forall(0, len(visit) - 1, lambda j: visit[j + 1] < visit[j])",
                lower_in_system="sys_lower(system_bounds) <= lower_bound",
                upper_in_system="upper_bound <= sys_upper(system_bounds)",
                excl_is_system="exclusion_bounds == sys_excl(system_bounds)",
                target_in_envelope="envelope(target_power, system_bounds)",
            ),
        ),
    }
    ensures = dict(envelope="envelope(result, system_bounds)")


# ---------------------------------------------------------------------------------------
# C04: the documented narrowing and the documented choice of the target, written from the
# property statement (not from the code): running bounds G and running target T along the
# proposals in descending priority.
# ---------------------------------------------------------------------------------------

def p_lower(p, lo):
    return p.bounds.lower if p.bounds.lower is not None else lo


def p_upper(p, hi):
    return p.bounds.upper if p.bounds.upper is not None else hi


def skipped(lo, hi, ex, p):
    """A proposal whose bounds lie wholly inside the exclusion zone does not narrow anything."""
    return in_zone(p_lower(p, lo), ex) and in_zone(p_upper(p, hi), ex)


def carve_lo(lo, ex):
    return ex.upper if in_zone(lo, ex) else lo


def carve_hi(hi, ex):
    return ex.lower if in_zone(hi, ex) else hi


def narrow(lo, hi, ex, p):
    """[lo, hi] intersected with p's bounds, exclusion zone carved out at the ends."""
    return ((lo, hi) if skipped(lo, hi, ex, p)
            else (carve_lo(max(lo, p_lower(p, lo)), ex), carve_hi(min(hi, p_upper(p, hi)), ex)))


def compatible(lo, hi, ex, p):
    """p's bounds leave a usable value in [lo, hi] (the conflict-free regime of C04)."""
    return skipped(lo, hi, ex, p) or (
        max(lo, p_lower(p, lo)) <= min(hi, p_upper(p, hi))
        and not (in_zone(max(lo, p_lower(p, lo)), ex) and in_zone(min(hi, p_upper(p, hi)), ex)))


def nearest(pref, lo, hi, ex):
    """The usable value of [lo, hi] minus the zone that is closest to pref (lower one on a tie);
    a zero request is kept as it is.  Requires lo <= hi with lo, hi not strictly inside the zone."""
    return (pref if usable(pref, lo, hi, ex) or (pref == zero() and lo <= pref <= hi)
            else lo if pref < lo
            else hi if pref > hi
            else (ex.upper if ex.upper - pref < pref - ex.lower else ex.lower))


def choose(prev, pref, lo, hi, ex):
    return prev if pref is None else nearest(pref, lo, hi, ex)


def higher_count_ok(s, n, k, priority):
    """k = number of proposals (sorted descending) with priority strictly above `priority`."""
    return (0 <= k <= n and forall(0, k, lambda j: s[j].priority > priority)
            and (k == n or s[k].priority <= priority))


GHOST_SEQS = dict(
    G=dict(over="sorted(proposals, reverse=True)", shape=None,  # shape filled below
           init="(sys_lower(system_bounds), sys_upper(system_bounds))",
           step="narrow(prev[0], prev[1], sys_excl(system_bounds), elem)"),
    T=dict(over="sorted(proposals, reverse=True)", shape=None,
           init="zero()",
           step="choose(prev, elem.preferred_power, G(k)[0], G(k)[1], sys_excl(system_bounds))"),
)

from pyvc.spec import Tup  # noqa: E402

GHOST_SEQS["G"]["shape"] = Tup(PowerT, PowerT)
GHOST_SEQS["T"]["shape"] = PowerT

C04_REQUIRES = dict(
    zero_inside="system_bounds.inclusion_bounds is None or "
                "system_bounds.inclusion_bounds.lower <= zero() <= system_bounds.inclusion_bounds.upper",
    # documented invariant of SystemBounds: the exclusion zone is a subset of the inclusion range
    excl_within_incl="not in_zone(sys_lower(system_bounds), sys_excl(system_bounds))"
                     " and not in_zone(sys_upper(system_bounds), sys_excl(system_bounds))",
    # the quantifier of C04: conflict-free proposal sets
    conflict_free="forall(0, len(proposals), lambda j: compatible(G(j)[0], G(j)[1], sys_excl(system_bounds),"
                  " sorted(proposals, reverse=True)[j]))",
)


@contract(f"{M}:Matryoshka._calc_target_power", case="c04")
class CalcTargetPowerC04:
    self_shape = MatryoshkaSelf
    shapes = dict(proposals=ProposalSetT, system_bounds=SystemBoundsT)
    result = PowerT
    native_opaque = {"component_ids": frozenset({1})}
    ghost_seqs = GHOST_SEQS
    requires = C04_REQUIRES
    instantiate = {f"{B}:clamp_to_bounds": [dict(x="lower_bound"), dict(x="upper_bound"),
                                                dict(x="exclusion_bounds.lower"), dict(x="exclusion_bounds.upper")]}
    loops = {
        "for next_proposal in sorted(proposals, reverse=True)": dict(
            idx="_i",
            invariant=dict(
                excl_is_system="exclusion_bounds == sys_excl(system_bounds)",
                running_bounds="lower_bound == G(_i)[0] and upper_bound == G(_i)[1]",
                running_ordered="lower_bound <= upper_bound",
                endpoints_clear="not in_zone(lower_bound, exclusion_bounds) and not in_zone(upper_bound, exclusion_bounds)",
                running_target="target_power == T(_i)",
            ),
        ),
    }
    ensures = dict(target_is_documented_choice="result == T(len(proposals))")


# ---------------------------------------------------------------------------------------
# Matryoshka's public methods (C03 history-freedom, C04 reported bounds, C11 stored targets)
# ---------------------------------------------------------------------------------------
from pyvc.spec import (Const, DictOpt, exists, keyset_has, keyset_get, same_record)  # noqa: E402

CID = frozenset({1, 2})        # the component group the call is about
OTHER = frozenset({7})         # some other, disjoint group with its own bucket
OVERLAP = frozenset({2, 9})    # a group overlapping CID (only to reach the NotImplementedError branch)
KEY = ("priority", "source_id")

MatryoshkaState = Obj(
    f"{M}:Matryoshka",
    _max_proposal_age_sec=Real,
    _component_buckets=DictOpt({CID: ProposalSetT, OTHER: ProposalSetT}),
    _target_power=DictOpt({CID: PowerT, OTHER: PowerT}),
)
MatryoshkaOneBucket = Obj(
    f"{M}:Matryoshka",
    _max_proposal_age_sec=Real,
    _component_buckets=DictOpt({CID: ProposalSetT}, always=[CID]),
    _target_power=DictOpt({CID: PowerT}),
)
MatryoshkaStateOverlap = Obj(
    f"{M}:Matryoshka",
    _max_proposal_age_sec=Real,
    _component_buckets=DictOpt({OVERLAP: ProposalSetT}, always=[OVERLAP]),
    _target_power=DictOpt({}),
)
REPORT = "frequenz.sdk.microgrid._power_managing._base_classes:_Report"
ReportT = Rec(REPORT, target_power=Opt(PowerT), _inclusion_bounds=OptBoundsT, _exclusion_bounds=OptBoundsT)


def bucket(self, cid):
    return self._component_buckets[cid]


def stored_target(self, cid):
    return self._target_power.get(cid)


@contract(f"{M}:Matryoshka.get_target_power")
class GetTargetPower:
    self_shape = MatryoshkaState
    shapes = dict(component_ids=Const(CID))
    result = Opt(PowerT)
    pure = True
    ensures = dict(reads_stored="result == stored_target(self, component_ids)")


@contract(f"{M}:Matryoshka.get_status")
class GetStatus:
    """What an actor of priority `priority` is told (general case: any proposals)."""
    self_shape = MatryoshkaOneBucket
    shapes = dict(component_ids=Const(CID), priority=Int, system_bounds=SystemBoundsT)
    result = ReportT
    pure = True
    native_opaque = {"component_ids": CID}
    loops = {
        "for next_proposal in sorted( self._component_buckets.get(component_ids, []), reverse=True )": dict(
            idx="_i",
            invariant=dict(
                excl_is_system="exclusion_bounds == sys_excl(system_bounds)",
                within_system="system_bounds.inclusion_bounds.lower <= lower_bound"
                              " and upper_bound <= system_bounds.inclusion_bounds.upper",
            ),
        ),
    }
    requires = dict(
        zero_inside=C04_REQUIRES["zero_inside"],
        has_bucket="component_ids in self._component_buckets",
    )
    ensures = dict(
        target_is_stored="result.target_power == stored_target(self, component_ids)",
        exclusion_passthrough="result._exclusion_bounds == system_bounds.exclusion_bounds",
        none_iff_no_system_bounds="(result._inclusion_bounds is None) == (system_bounds.inclusion_bounds is None)",
        within_system="implies(result._inclusion_bounds is not None,"
                      " system_bounds.inclusion_bounds.lower <= result._inclusion_bounds.lower"
                      " and result._inclusion_bounds.upper <= system_bounds.inclusion_bounds.upper)",
    )


@contract(f"{M}:Matryoshka.get_status", case="c04")
class GetStatusC04:
    """Conflict-free proposals: the reported range is exactly the running range G(k) in which the sweep
    clamps this actor's own preferred power, k = number of strictly higher-priority proposals."""
    self_shape = MatryoshkaOneBucket
    shapes = dict(component_ids=Const(CID), priority=Int, system_bounds=SystemBoundsT)
    result = ReportT
    native_opaque = {"component_ids": CID}
    ghost_seqs = dict(G=dict(GHOST_SEQS["G"], over="sorted(bucket(self, component_ids), reverse=True)"))
    requires = dict(
        has_bucket="component_ids in self._component_buckets",
        has_system_bounds="system_bounds.inclusion_bounds is not None",
        zero_inside=C04_REQUIRES["zero_inside"],
        excl_within_incl=C04_REQUIRES["excl_within_incl"],
        conflict_free="forall(0, len(bucket(self, component_ids)), lambda j: compatible(G(j)[0], G(j)[1],"
                      " sys_excl(system_bounds), sorted(bucket(self, component_ids), reverse=True)[j]))",
    )
    loops = {
        "for next_proposal in sorted( self._component_buckets.get(component_ids, []), reverse=True )": dict(
            idx="_i",
            invariant=dict(
                excl_is_system="exclusion_bounds == sys_excl(system_bounds)",
                running_bounds="lower_bound == G(_i)[0] and upper_bound == G(_i)[1]",
                all_higher="forall(0, _i, lambda j: sorted(bucket(self, component_ids), reverse=True)[j].priority > priority)",
            ),
        ),
    }
    ensures = dict(
        reported_is_running_range="exists(0, len(bucket(self, component_ids)) + 1, lambda k:"
                                  " higher_count_ok(sorted(bucket(self, component_ids), reverse=True),"
                                  " len(bucket(self, component_ids)), k, priority)"
                                  " and result._inclusion_bounds.lower == G(k)[0]"
                                  " and result._inclusion_bounds.upper == G(k)[1])",
        # the "hence" clause of C04: an actor of this priority that has a live proposal is clamped by the sweep in
        # exactly the range it is told (the sweep clamps the proposal at sorted position j into G(j))
        reported_range_is_own_clamp_range="forall(0, len(bucket(self, component_ids)), lambda j: implies("
                                          "sorted(bucket(self, component_ids), reverse=True)[j].priority == priority,"
                                          " result._inclusion_bounds.lower == G(j)[0]"
                                          " and result._inclusion_bounds.upper == G(j)[1]))",
    )


def validated(self, component_ids, system_bounds):
    """_validate_component_ids succeeds: a bucket exists already, or system bounds are known."""
    return (component_ids in self._component_buckets
            or system_bounds.inclusion_bounds is not None or system_bounds.exclusion_bounds is not None)


@contract(f"{M}:Matryoshka.calculate_target_power")
class CalculateTargetPower:
    """C03 (bucket algebra: the new proposal replaces the one with the same key, nothing else changes),
    C11 (None means "stored target unchanged"; a returned value is the stored target)."""
    self_shape = MatryoshkaState
    shapes = dict(component_ids=Const(CID), proposal=Opt(ProposalT), system_bounds=SystemBoundsT,
                  must_return_power=Bool)
    ghost = dict(gp=Int, gs=StrId)
    result = Opt(PowerT)
    native_opaque = {"component_ids": CID}
    inline = [f"{M}:Matryoshka._validate_component_ids"]
    modifies = ["self._component_buckets", "self._target_power"]
    requires = dict(zero_inside=C04_REQUIRES["zero_inside"])
    ensures = dict(
        # --- validation failure / nothing to do
        rejected_without_bounds="implies(not old(validated(self, component_ids, system_bounds)),"
                                " result is None and (component_ids in self._component_buckets) == False"
                                " and stored_target(self, component_ids) == old(stored_target(self, component_ids)))",
        # --- C11
        none_means_unchanged="implies(result is None,"
                             " stored_target(self, component_ids) == old(stored_target(self, component_ids)))",
        returned_is_stored="implies(result is not None, stored_target(self, component_ids) == result)",
        must_return="implies(must_return_power and component_ids in self._component_buckets, result is not None)",
        stored_in_envelope="implies(component_ids in self._component_buckets,"
                           " envelope(stored_target(self, component_ids), system_bounds))",
        # --- C03: bucket' = (bucket minus {same key}) plus {proposal}
        bucket_created_iff="(component_ids in self._component_buckets) =="
                           " (old(component_ids in self._component_buckets)"
                           "  or (proposal is not None and old(validated(self, component_ids, system_bounds))))",
        proposal_stored="implies(proposal is not None and old(validated(self, component_ids, system_bounds)),"
                        " keyset_has(bucket(self, component_ids), KEY, (proposal.priority, proposal.source_id))"
                        " and same_record(keyset_get(bucket(self, component_ids), KEY,"
                        "                            (proposal.priority, proposal.source_id)), proposal))",
        others_kept="implies(component_ids in self._component_buckets"
                    " and not (proposal is not None and gp == proposal.priority and gs == proposal.source_id),"
                    " keyset_has(bucket(self, component_ids), KEY, (gp, gs))"
                    " == (old(component_ids in self._component_buckets)"
                    "     and old(keyset_has(self._component_buckets.get(component_ids, set()), KEY, (gp, gs)))))",
        others_unchanged="implies(old(component_ids in self._component_buckets)"
                         " and old(keyset_has(self._component_buckets.get(component_ids, set()), KEY, (gp, gs)))"
                         " and not (proposal is not None and gp == proposal.priority and gs == proposal.source_id),"
                         " same_record(keyset_get(bucket(self, component_ids), KEY, (gp, gs)),"
                         "             old(keyset_get(self._component_buckets.get(component_ids, set()), KEY, (gp, gs))))) ",
        # --- frame: other component groups are not touched
        other_group_untouched="(OTHER in self._component_buckets) == old(OTHER in self._component_buckets)"
                              " and stored_target(self, OTHER) == old(stored_target(self, OTHER))",
    )


# ---------------------------------------------------------------------------------------
# _Report.adjust_to_bounds: what the actor can compute itself from the report it was sent
# ---------------------------------------------------------------------------------------
import re  # noqa: E402
from contracts.pm_bounds import Clamp, one_sided, the_one, dist  # noqa: E402,F401


def _subst(text):
    for a, b in (("value", "power"), ("lower_bound", "self._inclusion_bounds.lower"),
                 ("upper_bound", "self._inclusion_bounds.upper"), ("exclusion_bounds", "self._exclusion_bounds")):
        text = re.sub(rf"\b{a}\b", b, text)
    return text


@contract("frequenz.sdk.microgrid._power_managing._base_classes:_Report.adjust_to_bounds")
class AdjustToBounds:
    """C04: adjust_to_bounds is clamp_to_bounds on the reported range, so (with GetStatusC04 and the sweep's
    contract) it predicts what the manager does with this actor's preferred power."""
    self_shape = ReportT
    shapes = dict(power=PowerT)
    ghost = dict(x=PowerT)
    result = Tup(Opt(PowerT), Opt(PowerT))
    pure = True
    instantiate = {f"{B}:clamp_to_bounds": [dict(x="x")]}
    requires = dict(ordered="self._inclusion_bounds is None or self._inclusion_bounds.lower <= self._inclusion_bounds.upper")
    ensures = dict(
        {"no_bounds": "implies(self._inclusion_bounds is None, result[0] is None and result[1] is None)"},
        **{name: "implies(self._inclusion_bounds is not None, " + _subst(text) + ")"
           for name, text in Clamp.ensures.items()},
    )


# ---------------------------------------------------------------------------------------
# Lemmas about Proposal's real __eq__ / __lt__ (justify the key-map model and the uniqueness of
# the descending order)
# ---------------------------------------------------------------------------------------
from pyvc.spec import lemma  # noqa: E402


@lemma("proposal_eq_is_key_equality")
class ProposalEq:
    shapes = dict(a=ProposalT, b=ProposalT)
    ensures = dict(eq_iff_same_key="(a == b) == (a.priority == b.priority and a.source_id == b.source_id)")


@lemma("proposal_hash_respects_eq")
class ProposalHash:
    """Python sets of proposals behave as sets keyed by (priority, source_id) only if equal proposals hash equal."""
    shapes = dict(a=ProposalT, b=ProposalT)
    ensures = dict(equal_proposals_hash_equal="implies(a == b, hash(a) == hash(b))")


@lemma("proposal_lt_strict_total_order_on_keys")
class ProposalLt:
    shapes = dict(a=ProposalT, b=ProposalT, c=ProposalT)
    ensures = dict(
        irreflexive="not (a < a)",
        asymmetric="implies(a < b, not (b < a))",
        transitive="implies(a < b and b < c, a < c)",
        total_on_distinct_keys="implies(not (a == b), a < b or b < a)",
        by_priority_first="implies(a.priority < b.priority, a < b)",
    )


def expired(p, loop_time, max_age):
    return (loop_time - p.creation_time) > max_age


def key_is(p, gp, gs):
    return p.priority == gp and p.source_id == gs


@contract(f"{M}:Matryoshka.drop_old_proposals")
class DropOldProposals:
    """C03: proposals older than the maximum age stop counting; everything else stays (for an arbitrary proposal key
    (gp, gs): it is in the bucket afterwards iff it was there and is not expired; survivors are unchanged); C11: the
    bucket itself and the stored target are kept.

    Proof: `src` is a ghost list with the enumeration index of every element put on `to_delete` (strictly increasing,
    so the listed proposals have pairwise different keys); the second loop removes exactly the listed keys."""
    self_shape = MatryoshkaOneBucket
    shapes = dict(loop_time=Real)
    ghost = dict(gp=Int, gs=StrId)
    native_opaque = {"component_ids": CID}
    modifies = ["self._component_buckets"]
    loops = {
        "for proposal in bucket": dict(
            idx="_i", seq_name="E",
            ghost_init=["src = []", "g_listed = False"],
            ghost_stmts=["if len(to_delete) > len(src):\n    src.append(_i)",
                         "g_listed = g_listed or (key_is(proposal, gp, gs) and expired(proposal, loop_time, self._max_proposal_age_sec))"],
            havoc={"to_delete": SeqT(ProposalT), "src": SeqT(Int), "g_listed": Bool},
            invariant=dict(
                same_length="len(src) == len(to_delete) and len(to_delete) <= _i",
                listed_are_expired_elements="forall(0, len(to_delete), lambda j: 0 <= src[j] and src[j] < _i"
                                            " and same_record(to_delete[j], E[src[j]])"
                                            " and expired(E[src[j]], loop_time, self._max_proposal_age_sec))",
                listed_in_enumeration_order="forall(0, len(src) - 1, lambda j: src[j] < src[j + 1])",
                ghost_key_listed_iff_seen_expired="g_listed == exists(0, _i, lambda i: key_is(E[i], gp, gs)"
                                                  " and expired(E[i], loop_time, self._max_proposal_age_sec))",
                ghost_key_listed_iff_on_list="g_listed == exists(0, len(to_delete), lambda j: key_is(to_delete[j], gp, gs))",
                bucket_untouched="keyset_has(bucket, KEY, (gp, gs)) == old(keyset_has(bucket(self, CID), KEY, (gp, gs)))",
                listed_differ_from_unvisited="forall(0, len(to_delete), lambda j: forall(_i, len(E), lambda m:"
                                             " not (to_delete[j].priority == E[m].priority"
                                             " and to_delete[j].source_id == E[m].source_id)))",
                listed_keys_distinct="forall(0, len(to_delete), lambda a: forall(0, len(to_delete), lambda b: implies(a < b,"
                                     " not (to_delete[a].priority == to_delete[b].priority"
                                     " and to_delete[a].source_id == to_delete[b].source_id))))",
            )),
        "for proposal in to_delete": dict(
            idx="_k",
            havoc_objects={"bucket": ProposalSetT},
            ghost_init=["g_removed = False"],
            ghost_stmts=["g_removed = g_removed or key_is(proposal, gp, gs)"],
            havoc={"g_removed": Bool},
            invariant=dict(
                # ground facts about the arbitrary key (gp, gs); the quantified ones only tie the ghost flags to the list
                ghost_key_present_iff_not_removed_yet="keyset_has(bucket, KEY, (gp, gs)) == ("
                                                      "old(keyset_has(bucket(self, CID), KEY, (gp, gs))) and not g_removed)",
                removed_flag_is_prefix_of_list="g_removed == exists(0, _k, lambda j: key_is(to_delete[j], gp, gs))",
                # bridge (established once, when the second loop starts): the ghost key was listed exactly if it was in
                # the bucket with an expired proposal
                listed_iff_old_and_expired="g_listed == (old(keyset_has(bucket(self, CID), KEY, (gp, gs)))"
                                           " and old(keyset_has(bucket(self, CID), KEY, (gp, gs))"
                                           " and expired(keyset_get(bucket(self, CID), KEY, (gp, gs)), loop_time,"
                                           " self._max_proposal_age_sec)))",
                listed_flag_is_whole_list="g_listed == exists(0, len(to_delete), lambda j: key_is(to_delete[j], gp, gs))",
                listed_keys_distinct="forall(0, len(to_delete), lambda a: forall(0, len(to_delete), lambda b: implies(a < b,"
                                     " not (to_delete[a].priority == to_delete[b].priority"
                                     " and to_delete[a].source_id == to_delete[b].source_id))))",
                rest_of_list_still_present="forall(_k, len(to_delete), lambda j:"
                                           " keyset_has(bucket, KEY, (to_delete[j].priority, to_delete[j].source_id)))",
                survivors_unchanged="implies(keyset_has(bucket, KEY, (gp, gs)),"
                                    " same_record(keyset_get(bucket, KEY, (gp, gs)),"
                                    " old(keyset_get(bucket(self, CID), KEY, (gp, gs))"
                                    " if keyset_has(bucket(self, CID), KEY, (gp, gs)) else None)))",
            )),
    }
    raises = dict(KeyError="False")
    ensures = dict(
        kept_iff_young="keyset_has(bucket(self, CID), KEY, (gp, gs)) == ("
                       "old(keyset_has(bucket(self, CID), KEY, (gp, gs))) and not old("
                       "keyset_has(bucket(self, CID), KEY, (gp, gs)) and expired(keyset_get(bucket(self, CID), KEY, (gp, gs)),"
                       " loop_time, self._max_proposal_age_sec)))",
        survivors_unchanged="implies(keyset_has(bucket(self, CID), KEY, (gp, gs)),"
                            " same_record(keyset_get(bucket(self, CID), KEY, (gp, gs)),"
                            " old(keyset_get(bucket(self, CID), KEY, (gp, gs)) if keyset_has(bucket(self, CID), KEY, (gp, gs)) else None)))",
        targets_untouched="stored_target(self, CID) == old(stored_target(self, CID))",
        # class invariant of the power manager (C11): a component set with a stored target keeps its bucket
        bucket_kept="(CID in self._component_buckets) == old(CID in self._component_buckets)",
    )


from pyvc.spec import Delta  # noqa: E402  pylint: disable=wrong-import-position


@contract(f"{M}:Matryoshka.__init__")
class MatryoshkaInit:
    """C03 (expiry): the age limit drop_old_proposals compares with is the configured maximum age in seconds -
    fractions of a second and whole days included - and a new resolver has no proposals and no targets."""
    self_shape = Obj(f"{M}:Matryoshka")
    shapes = dict(max_proposal_age=Delta)
    modifies = ["self"]
    ensures = dict(
        age_limit_is_the_configured_age="self._max_proposal_age_sec == max_proposal_age.total_seconds()",
        starts_empty="len(self._component_buckets) == 0 and len(self._target_power) == 0",
    )
