"""Contracts for the formula steps (C13, C05), IEEE-754 binary64 mode.

Each step pops exactly its arity and pushes exactly one value; a missing operand (NaN) in
EITHER position yields NaN; no step raises on any float operands; for present operands the
pushed value is the operator applied to (val1, val2) in this order.
"""
import math

from pyvc.spec import contract, Obj, Rec, Opt, Seq, Float, Bool, Time, Qty, OpaqueT, implies, forall

S = "frequenz.sdk.timeseries.formula_engine._formula_steps"
StackT = Seq(Float, container="list")


def same(a, b):
    """Same float: equal, or both NaN."""
    return (math.isnan(a) and math.isnan(b)) or a == b


def finite(x):
    return not (math.isnan(x) or math.isinf(x))


BINARY_REQUIRES = dict(two_operands="len(eval_stack) >= 2")
BINARY_ENSURES = dict(
    pops_two_pushes_one="len(eval_stack) == old(len(eval_stack)) - 1",
    rest_unchanged="forall(0, len(eval_stack) - 1, lambda i: same(eval_stack[i], old(eval_stack[i])))",
    missing_propagates="implies(math.isnan(old(eval_stack[-2])) or math.isnan(old(eval_stack[-1])),"
                       " math.isnan(eval_stack[-1]))",
)


def binary(cls, value_clauses):
    @contract(f"{S}:{cls}.apply")
    class _C:
        mode = "ieee"
        self_shape = Obj(f"{S}:{cls}")
        shapes = dict(eval_stack=StackT)
        modifies = ["eval_stack"]
        requires = BINARY_REQUIRES
        ensures = dict(BINARY_ENSURES, **value_clauses)
    _C.__name__ = cls + "Apply"
    return _C


A, B_ = "old(eval_stack[-2])", "old(eval_stack[-1])"
AdderApply = binary("Adder", dict(value=f"same(eval_stack[-1], {A} + {B_})"))
SubtractorApply = binary("Subtractor", dict(value=f"same(eval_stack[-1], {A} - {B_})"))
MultiplierApply = binary("Multiplier", dict(value=f"same(eval_stack[-1], {A} * {B_})"))
DividerApply = binary("Divider", dict(
    value=f"implies({B_} != 0.0, same(eval_stack[-1], {A} / {B_}))",
    division_by_zero_is_not_finite=f"implies({B_} == 0.0, not finite(eval_stack[-1]))"))
MaximizerApply = binary("Maximizer", dict(
    value=f"implies(not math.isnan({A}) and not math.isnan({B_}),"
          f" eval_stack[-1] == ({A} if {A} >= {B_} else {B_}))"))
MinimizerApply = binary("Minimizer", dict(
    value=f"implies(not math.isnan({A}) and not math.isnan({B_}),"
          f" eval_stack[-1] == ({A} if {A} <= {B_} else {B_}))"))

UNARY_ENSURES = dict(
    pops_one_pushes_one="len(eval_stack) == old(len(eval_stack))",
    rest_unchanged="forall(0, len(eval_stack) - 1, lambda i: same(eval_stack[i], old(eval_stack[i])))",
    missing_propagates="implies(math.isnan(old(eval_stack[-1])), math.isnan(eval_stack[-1]))",
)


def unary(cls, value_clauses, self_shape=None):
    @contract(f"{S}:{cls}.apply")
    class _C:
        mode = "ieee"
        shapes = dict(eval_stack=StackT)
        modifies = ["eval_stack"]
        requires = dict(one_operand="len(eval_stack) >= 1")
        ensures = dict(UNARY_ENSURES, **value_clauses)
    _C.self_shape = self_shape or Obj(f"{S}:{cls}")
    _C.__name__ = cls + "Apply"
    return _C


X = "old(eval_stack[-1])"
ConsumptionApply = unary("Consumption", dict(
    value=f"implies(not math.isnan({X}), eval_stack[-1] == ({X} if {X} >= 0.0 else 0.0))"))
ProductionApply = unary("Production", dict(
    value=f"implies(not math.isnan({X}), eval_stack[-1] == (-{X} if -{X} >= 0.0 else 0.0))"))
ClipperApply = unary("Clipper", dict(
    value=f"implies(not math.isnan({X}) and (self._min_val is None or not math.isnan(self._min_val))"
          f" and (self._max_val is None or not math.isnan(self._max_val))"
          f" and (self._min_val is None or self._max_val is None or self._min_val <= self._max_val),"
          f" eval_stack[-1] == clip({X}, self._min_val, self._max_val))"),
    self_shape=Obj(f"{S}:Clipper", _min_val=Opt(Float), _max_val=Opt(Float)))


def clip(x, lo, hi):
    y = x if lo is None or x >= lo else lo
    return y if hi is None or y <= hi else hi


@contract(f"{S}:ConstantValue.apply")
class ConstantApply:
    mode = "ieee"
    self_shape = Obj(f"{S}:ConstantValue", _value=Float)
    shapes = dict(eval_stack=StackT)
    modifies = ["eval_stack"]
    ensures = dict(
        pushes_one="len(eval_stack) == old(len(eval_stack)) + 1",
        rest_unchanged="forall(0, len(eval_stack) - 1, lambda i: same(eval_stack[i], old(eval_stack[i])))",
        value="same(eval_stack[-1], self._value)",
    )


SAMPLE = "frequenz.sdk.timeseries._base_types:Sample"
SampleT = Rec(SAMPLE, timestamp=Time, value=Opt(Qty("Power")))


def missing(q):
    """A sample value that counts as missing: None, NaN or infinite."""
    return q is None or q.isnan() or q.isinf()


@contract(f"{S}:MetricFetcher.apply")
class MetricFetcherApply:
    mode = "ieee"
    self_shape = Obj(f"{S}:MetricFetcher", _next_value=Opt(SampleT), _nones_are_zeros=Bool)
    shapes = dict(eval_stack=StackT)
    modifies = ["eval_stack"]
    raises = dict(RuntimeError="old(self._next_value is None)")
    ensures = dict(
        has_value="self._next_value is not None",
        pushes_one="len(eval_stack) == old(len(eval_stack)) + 1",
        rest_unchanged="forall(0, len(eval_stack) - 1, lambda i: same(eval_stack[i], old(eval_stack[i])))",
        missing_as_zero="implies(missing(self._next_value.value) and self._nones_are_zeros, eval_stack[-1] == 0.0)",
        missing_as_nan="implies(missing(self._next_value.value) and not self._nones_are_zeros, math.isnan(eval_stack[-1]))",
        present_value="implies(not missing(self._next_value.value), eval_stack[-1] == self._next_value.value.base_value)",
    )
