"""Contracts for the helpers of the battery distribution algorithm (C01, C02).

Structural bound of this sidecar: two battery groups, group A = battery 1 behind inverter {11}, group B = battery 2
behind inverters {12, 13}; every number is symbolic.  The main allocation function (_distribute_power) is only
covered by the bounded explorer (native/explore_distribution.py)."""
from pyvc.spec import (contract, Obj, Rec, DictOpt, FixedList, Tup, Real, Int, Bool, Const, OpaqueT, implies, forall)

ALG = "frequenz.sdk.microgrid._power_distributing._distribution_algorithm._battery_distribution_algorithm"
A = f"{ALG}:BatteryDistributionAlgorithm"
PD = "frequenz.sdk.microgrid._power_distributing"
SA = frozenset({11})
SB = frozenset({12, 13})
INVS = (11, 12, 13)
IDS = (1, 2, 11, 12, 13)

PowerObjT = Obj(f"{ALG}:_Power", upper_bound=Real, power=Real)
DistT = DictOpt({SA: PowerObjT, SB: PowerObjT}, always=[SA, SB])
BoundsMapT = DictOpt({i: Real for i in IDS}, always=list(IDS))
AlgoT = Obj(A, _distributor_exponent=Real)


def total(distribution):
    return distribution[SA].power + distribution[SB].power


@contract(f"{A}._greedy_distribute_remaining_power")
class Greedy:
    """Hands left-over power to sets that already got some, up to their upper bounds; conserves power."""
    self_shape = AlgoT
    shapes = dict(distribution=DistT, remaining_power=Real)
    result = Tup(DistT, Real)
    modifies = ["distribution"]
    inline = ["frequenz.sdk._internal._math:is_close_to_zero"]
    requires = dict(within_caps="distribution[SA].power <= distribution[SA].upper_bound"
                                " and distribution[SB].power <= distribution[SB].upper_bound",
                    nothing_negative="remaining_power >= 0")
    ensures = dict(
        conserves="total(result[0]) + result[1] == old(total(distribution)) + old(remaining_power)",
        same_map="result[0] is distribution",
        caps_respected="distribution[SA].power <= distribution[SA].upper_bound"
                       " and distribution[SB].power <= distribution[SB].upper_bound",
        only_tops_up="distribution[SA].power >= old(distribution[SA].power)"
                     " and distribution[SB].power >= old(distribution[SB].power)",
        remainder_shrinks="0 <= result[1] and result[1] <= old(remaining_power)",
        idle_sets_stay_idle="implies(abs(old(distribution[SA].power)) <= 1e-9, distribution[SA].power == old(distribution[SA].power))",
    )


PowerBoundsT = Rec(f"{PD}.result:PowerBounds", inclusion_lower=Real, exclusion_lower=Real, exclusion_upper=Real,
                   inclusion_upper=Real)


@contract(f"{A}._distribute_multi_inverter_pairs")
class SplitOverInverters:
    """Every inverter set-point is zero or within [excl, incl] of that inverter; a single-inverter set passes its
    power through; a set's inverters never get more than the set's power in total."""
    self_shape = AlgoT
    shapes = dict(distribution=DistT, excl_bounds=BoundsMapT, incl_bounds=BoundsMapT)
    result = DictOpt({i: Real for i in INVS}, always=list(INVS))
    pure = True
    set_iteration_order = "arbitrary"     # `for inverter_id in inverter_ids` iterates a frozenset
    inline = ["frequenz.sdk._internal._math:is_close_to_zero"]
    requires = dict(bounds="all(0 <= excl_bounds[i] and excl_bounds[i] <= incl_bounds[i] for i in INVS)",
                    powers="distribution[SA].power >= 0 and distribution[SB].power >= 0")
    ensures = dict(
        keys="all(i in result for i in INVS) and len(result) == 3",
        single_inverter_passes_through="result[11] == distribution[SA].power",
        setpoints_within_bounds="all(result[i] == 0 or (excl_bounds[i] <= result[i] and result[i] <= incl_bounds[i]) for i in (12, 13))",
        never_more_than_the_set_got="result[12] + result[13] <= distribution[SB].power",
        nothing_negative="result[12] >= 0 and result[13] >= 0",
    )


InvT = Rec("ext:frequenz.client.microgrid.InverterData", component_id=Int,
           active_power_inclusion_lower_bound=Real, active_power_exclusion_lower_bound=Real,
           active_power_exclusion_upper_bound=Real, active_power_inclusion_upper_bound=Real)


def bat_t(cid):
    return Obj(f"{ALG}:AggregatedBatteryData", component_id=Const(cid), soc=Real, capacity=Real, soc_upper_bound=Real,
               soc_lower_bound=Real, power_bounds=PowerBoundsT)


def inv_t(cid):
    return Rec("ext:frequenz.client.microgrid.InverterData", component_id=Const(cid),
               active_power_inclusion_lower_bound=Real, active_power_exclusion_lower_bound=Real,
               active_power_exclusion_upper_bound=Real, active_power_inclusion_upper_bound=Real)


ComponentsT = FixedList(Rec(f"{ALG}:InvBatPair", battery=bat_t(1), inverter=FixedList(inv_t(11))),
                        Rec(f"{ALG}:InvBatPair", battery=bat_t(2), inverter=FixedList(inv_t(12), inv_t(13))))


def consistent_component(b, invs):
    pb = b.power_bounds
    return (pb.inclusion_lower <= pb.exclusion_lower and pb.exclusion_lower <= 0 and 0 <= pb.exclusion_upper
            and pb.exclusion_upper <= pb.inclusion_upper
            and all(i.active_power_inclusion_lower_bound <= i.active_power_exclusion_lower_bound
                    and i.active_power_exclusion_lower_bound <= 0 and 0 <= i.active_power_exclusion_upper_bound
                    and i.active_power_exclusion_upper_bound <= i.active_power_inclusion_upper_bound for i in invs))


@contract(f"{A}._inclusion_exclusion_bounds")
class InclusionExclusionBounds:
    """Per-component magnitudes for the requested direction: inverter inclusion bounds are clipped by the battery's."""
    self_shape = AlgoT
    shapes = dict(components=ComponentsT, supply=Bool)
    result = Tup(BoundsMapT, BoundsMapT)
    pure = True
    requires = dict(consistent="all(consistent_component(b, invs) for b, invs in components)")
    ensures = dict(
        battery_bounds="all(result[1][b.component_id] == (-b.power_bounds.exclusion_lower if supply else b.power_bounds.exclusion_upper)"
                       " and result[0][b.component_id] == (-b.power_bounds.inclusion_lower if supply else b.power_bounds.inclusion_upper)"
                       " for b, _ in components)",
        inverter_exclusion="all(result[1][i.component_id] == (-i.active_power_exclusion_lower_bound if supply"
                           " else i.active_power_exclusion_upper_bound) for _, invs in components for i in invs)",
        inverter_inclusion_clipped_by_battery="all(result[0][i.component_id] == (min(-i.active_power_inclusion_lower_bound, -b.power_bounds.inclusion_lower)"
                                              " if supply else min(i.active_power_inclusion_upper_bound, b.power_bounds.inclusion_upper))"
                                              " for b, invs in components for i in invs)",
        magnitudes_ordered="all(0 <= result[1][k] for k in IDS) and all(result[0][i.component_id] <= result[0][b.component_id]"
                           " for b, invs in components for i in invs)",
    )


DistResultT = Obj(f"{ALG}:DistributionResult", distribution=DictOpt({i: Real for i in INVS}, always=list(INVS)),
                  remaining_power=Real)


@contract(f"{A}._distribute_power")
class MainAllocationAssumed:
    """ASSUMED (not proved - covered only by the bounded explorer): the main allocation works on magnitudes of a
    consume-direction request and returns one set-point per inverter.  What IS checked deductively is that its
    callers respect the precondition (a strictly positive magnitude, bounds as magnitudes)."""
    assumed = True
    self_shape = AlgoT
    shapes = dict(components=ComponentsT, power_w=Real, available_soc=DictOpt({1: Real, 2: Real}, always=[1, 2]),
                  incl_bounds=BoundsMapT, excl_bounds=BoundsMapT)
    result = DistResultT
    requires = dict(positive_magnitude="power_w > 0",
                    headroom_not_negative="available_soc[1] >= 0 and available_soc[2] >= 0",
                    bounds_are_magnitudes="all(0 <= excl_bounds[k] for k in IDS)")
    ensures = dict(one_setpoint_per_inverter="all(i in result.distribution for i in INVS)")


@contract(f"{A}._distribute_consume_power")
class ConsumePower:
    self_shape = AlgoT
    shapes = dict(power_w=Real, components=ComponentsT)
    result = DistResultT
    pure = True
    requires = dict(consistent="all(consistent_component(b, invs) for b, invs in components)", consume="power_w > 0")
    ensures = dict(one_setpoint_per_inverter="all(i in result.distribution for i in INVS)")


@contract(f"{A}._distribute_supply_power")
class SupplyPower:
    """Supply requests are negated on the way in (checked as the callee's precondition) and out."""
    self_shape = AlgoT
    shapes = dict(power_w=Real, components=ComponentsT)
    result = DistResultT
    pure = True
    requires = dict(consistent="all(consistent_component(b, invs) for b, invs in components)", supply="power_w < 0")
    ensures = dict(one_setpoint_per_inverter="all(i in result.distribution for i in INVS)")


@contract(f"{A}.distribute_power")
class DistributePowerTop:
    self_shape = AlgoT
    shapes = dict(power=Real, components=ComponentsT)
    result = DistResultT
    pure = True
    inline = ["frequenz.sdk._internal._math:is_close_to_zero"]
    requires = dict(consistent="all(consistent_component(b, invs) for b, invs in components)")
    ensures = dict(
        zero_request_all_zero="implies(abs(power) <= 1e-9, all(result.distribution[i] == 0 for i in INVS)"
                              " and result.remaining_power == 0)",
        one_setpoint_per_inverter="all(i in result.distribution for i in INVS)",
    )
