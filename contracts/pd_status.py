"""Contracts for battery status tracking (C16)."""
import math

from pyvc.spec import (contract, Obj, Rec, Opt, Seq, SetOf, Enum, ExtObj, Float, Int, Bool, Time, Delta, Const, Variant, OpaqueT, implies,
                       forall, exists)

CS = "frequenz.sdk.microgrid._power_distributing._component_status"
T = f"{CS}._battery_status_tracker"
CM = "ext:frequenz.client.microgrid"

BAT_STATES = ["UNSPECIFIED", "OFF", "IDLE", "CHARGING", "DISCHARGING", "ERROR", "LOCKED",
              "SWITCHING_ON", "SWITCHING_OFF", "UNKNOWN"]
BAT_RELAY = ["UNSPECIFIED", "OPENED", "PRECHARGING", "CLOSED", "ERROR", "LOCKED"]
INV_STATES = ["UNSPECIFIED", "OFF", "SWITCHING_ON", "SWITCHING_OFF", "STANDBY", "IDLE", "CHARGING", "DISCHARGING",
              "ERROR", "UNAVAILABLE", "UNKNOWN"]
ERR_LEVELS = ["UNSPECIFIED", "WARN", "CRITICAL"]

BatStateT = Enum(f"{CM}.BatteryComponentState", BAT_STATES)
BatRelayT = Enum(f"{CM}.BatteryRelayState", BAT_RELAY)
InvStateT = Enum(f"{CM}.InverterComponentState", INV_STATES)
ErrLevelT = Enum(f"{CM}.ErrorLevel", ERR_LEVELS)
ErrorT = Rec(f"{CM}.BatteryError", level=ErrLevelT)
InvErrorT = Rec(f"{CM}.InverterError", level=ErrLevelT)
BatteryDataT = Rec(f"{CM}.BatteryData", component_id=Int, timestamp=Time, component_state=BatStateT,
                   relay_state=BatRelayT, errors=Seq(ErrorT, container="tuple"), capacity=Float)
InverterDataT = Rec(f"{CM}.InverterData", component_id=Int, timestamp=Time, component_state=InvStateT,
                    errors=Seq(InvErrorT, container="tuple"))
StatusT = Enum(f"{CS}._component_status:ComponentStatusEnum")

TimerT = ExtObj("frequenz.channels.timer.Timer")
StreamT = Obj(f"{T}:_ComponentStreamStatus", component_id=Int, data_recv_timer=TimerT, last_msg_timestamp=Time,
              last_msg_correct=Bool)
BlockingT = Obj(f"{CS}._blocking_status:BlockingStatus", min_duration=Delta, max_duration=Delta,
                last_blocking_duration=Delta, blocked_until=Opt(Time), _timedelta_zero=Delta)
TrackerT = Obj(f"{T}:BatteryStatusTracker", _max_data_age=Delta, _last_status=StatusT, _blocking_status=BlockingT,
               _timedelta_zero=Delta, _battery=StreamT, _inverter=StreamT)
SetPowerResultT = Rec(f"{CS}._component_status:SetPowerResult", succeeded=SetOf(Int), failed=SetOf(Int))

try:
    from frequenz.client.microgrid import (BatteryComponentState, BatteryRelayState, InverterComponentState,
                                           ErrorLevel)
    from frequenz.sdk.microgrid._power_distributing._component_status._component_status import ComponentStatusEnum
except ImportError:  # the verifier resolves these names through its models
    pass


# --- the property's vocabulary ----------------------------------------------------------------

def fresh(timestamp, now, max_age):
    """The message is younger than (or exactly) the maximum data age at the instant it is handled."""
    return not (now - timestamp > max_age)


def battery_state_ok(msg):
    return (msg.component_state in (BatteryComponentState.IDLE, BatteryComponentState.CHARGING,
                                    BatteryComponentState.DISCHARGING)
            and msg.relay_state == BatteryRelayState.CLOSED)


def inverter_state_ok(msg):
    return msg.component_state in (InverterComponentState.STANDBY, InverterComponentState.IDLE,
                                   InverterComponentState.CHARGING, InverterComponentState.DISCHARGING)


def has_critical(msg):
    return exists(0, len(msg.errors), lambda i: msg.errors[i].level == ErrorLevel.CRITICAL)


def timer_resets(stream):
    return len([c for c in stream.data_recv_timer.calls if c[0] == "reset"])


TRACKER_WF = dict(zero="self._timedelta_zero == self._blocking_status._timedelta_zero"
                       " and self._timedelta_zero.total_seconds() == 0",
                  distinct="not (self._battery is self._inverter)")


@contract(f"{T}:BatteryStatusTracker._is_capacity_present")
class CapacityPresent:
    mode = "ieee"
    self_shape = TrackerT
    shapes = dict(msg=BatteryDataT)
    result = Bool
    pure = True
    ensures = dict(iff_not_nan="result == (not math.isnan(msg.capacity))")


@contract(f"{T}:BatteryStatusTracker._no_critical_error")
class NoCriticalError:
    mode = "ieee"
    self_shape = TrackerT
    shapes = dict(msg=BatteryDataT)
    result = Bool
    pure = True
    ensures = dict(iff_none_critical="result == (not has_critical(msg))")


@contract(f"{T}:BatteryStatusTracker._no_critical_error", case="inverter")
class NoCriticalErrorInv:
    mode = "ieee"
    self_shape = TrackerT
    shapes = dict(msg=InverterDataT)
    result = Bool
    pure = True
    ensures = dict(iff_none_critical="result == (not has_critical(msg))")


@contract(f"{T}:BatteryStatusTracker._is_battery_state_correct")
class BatteryStateCorrect:
    mode = "ieee"
    self_shape = TrackerT
    shapes = dict(msg=BatteryDataT)
    result = Bool
    pure = True
    ensures = dict(iff_operational="result == battery_state_ok(msg)")


@contract(f"{T}:BatteryStatusTracker._is_inverter_state_correct")
class InverterStateCorrect:
    mode = "ieee"
    self_shape = TrackerT
    shapes = dict(msg=InverterDataT)
    result = Bool
    pure = True
    ensures = dict(iff_operational="result == inverter_state_ok(msg)")


@contract(f"{T}:BatteryStatusTracker._is_message_reliable")
class MessageReliable:
    mode = "ieee"
    self_shape = TrackerT
    shapes = dict(message=BatteryDataT)
    result = Bool
    pure = True
    inline = [f"{T}:BatteryStatusTracker._is_timestamp_outdated"]
    ensures = dict(iff_fresh="result == fresh(message.timestamp, now_0, self._max_data_age)")


@contract(f"{T}:BatteryStatusTracker._handle_status_battery")
class HandleBattery:
    """The battery flag is true exactly if THIS message is fresh and fully healthy."""
    mode = "ieee"
    self_shape = TrackerT
    shapes = dict(bat_data=BatteryDataT)
    requires = TRACKER_WF
    modifies = ["self._battery"]
    ensures = dict(
        flag="self._battery.last_msg_correct == (fresh(bat_data.timestamp, now_0, self._max_data_age)"
             " and battery_state_ok(bat_data) and not has_critical(bat_data) and not math.isnan(bat_data.capacity))",
        timestamp_stored="self._battery.last_msg_timestamp == bat_data.timestamp",
        timer_reset_once="timer_resets(self._battery) == old(timer_resets(self._battery)) + 1",
        inverter_untouched="self._inverter.last_msg_correct == old(self._inverter.last_msg_correct)"
                           " and self._inverter.last_msg_timestamp == old(self._inverter.last_msg_timestamp)",
        status_untouched="self._last_status == old(self._last_status)",
    )


@contract(f"{T}:BatteryStatusTracker._handle_status_inverter")
class HandleInverter:
    mode = "ieee"
    self_shape = TrackerT
    shapes = dict(inv_data=InverterDataT)
    requires = TRACKER_WF
    modifies = ["self._inverter"]
    use = {f"{T}:BatteryStatusTracker._no_critical_error": f"{T}:BatteryStatusTracker._no_critical_error#inverter"}
    inline = [f"{T}:BatteryStatusTracker._is_message_reliable", f"{T}:BatteryStatusTracker._is_timestamp_outdated"]
    ensures = dict(
        flag="self._inverter.last_msg_correct == (fresh(inv_data.timestamp, now_0, self._max_data_age)"
             " and inverter_state_ok(inv_data) and not has_critical(inv_data))",
        timestamp_stored="self._inverter.last_msg_timestamp == inv_data.timestamp",
        timer_reset_once="timer_resets(self._inverter) == old(timer_resets(self._inverter)) + 1",
        battery_untouched="self._battery.last_msg_correct == old(self._battery.last_msg_correct)"
                          " and self._battery.last_msg_timestamp == old(self._battery.last_msg_timestamp)",
        status_untouched="self._last_status == old(self._last_status)",
    )


@contract(f"{T}:BatteryStatusTracker._handle_status_battery_timer")
class BatteryTimer:
    mode = "ieee"
    self_shape = TrackerT
    requires = TRACKER_WF
    modifies = ["self._battery.last_msg_correct"]
    ensures = dict(flag_cleared="self._battery.last_msg_correct == False",
                   rest="self._inverter.last_msg_correct == old(self._inverter.last_msg_correct)"
                        " and self._last_status == old(self._last_status)")


@contract(f"{T}:BatteryStatusTracker._handle_status_inverter_timer")
class InverterTimer:
    mode = "ieee"
    self_shape = TrackerT
    requires = TRACKER_WF
    modifies = ["self._inverter.last_msg_correct"]
    ensures = dict(flag_cleared="self._inverter.last_msg_correct == False",
                   rest="self._battery.last_msg_correct == old(self._battery.last_msg_correct)"
                        " and self._last_status == old(self._last_status)")


# --- blocking (exponential back-off) -------------------------------------------------------------

BLOCKING_WF = dict(durations="self._timedelta_zero.total_seconds() == 0 and self._timedelta_zero < self.min_duration"
                             " and self.min_duration <= self.max_duration",
                   last_in_range="self.min_duration <= self.last_blocking_duration <= self.max_duration")
B = f"{CS}._blocking_status:BlockingStatus"


@contract(f"{B}.block")
class Block:
    self_shape = BlockingT
    result = Delta
    requires = BLOCKING_WF
    modifies = ["self.last_blocking_duration", "self.blocked_until"]
    ensures = dict(
        first_failure="implies(old(self.blocked_until) is None, result == self.min_duration"
                      " and self.last_blocking_duration == self.min_duration"
                      " and self.blocked_until == now_0 + self.min_duration)",
        still_blocked="implies(old(self.blocked_until) is not None and old(self.blocked_until) > now_0,"
                      " result == self._timedelta_zero and self.blocked_until == old(self.blocked_until)"
                      " and self.last_blocking_duration == old(self.last_blocking_duration))",
        consecutive_failure_doubles="implies(old(self.blocked_until) is not None and not (old(self.blocked_until) > now_0),"
                                    " self.last_blocking_duration == min(2 * old(self.last_blocking_duration), self.max_duration)"
                                    " and result == self.last_blocking_duration"
                                    " and self.blocked_until == now_0 + self.last_blocking_duration)",
        stays_in_range="self.min_duration <= self.last_blocking_duration <= self.max_duration",
        blocked_afterwards="self.blocked_until is not None",
        config_untouched="self.min_duration == old(self.min_duration) and self.max_duration == old(self.max_duration)",
    )


@contract(f"{B}.unblock")
class Unblock:
    self_shape = BlockingT
    modifies = ["self.blocked_until"]
    ensures = dict(unblocked="self.blocked_until is None",
                   rest="self.last_blocking_duration == old(self.last_blocking_duration)"
                        " and self.min_duration == old(self.min_duration) and self.max_duration == old(self.max_duration)")


@contract(f"{B}.is_blocked")
class IsBlocked:
    self_shape = BlockingT
    result = Bool
    pure = True
    ensures = dict(iff="result == (self.blocked_until is not None and self.blocked_until > now_0)")


# --- status -----------------------------------------------------------------------------------------

def both_correct(self):
    return self._battery.last_msg_correct and self._inverter.last_msg_correct


def status_wf(self):
    return True


TRACKER_REQ = dict(TRACKER_WF, blocking_durations="self._blocking_status._timedelta_zero < self._blocking_status.min_duration"
                   " and self._blocking_status.min_duration <= self._blocking_status.max_duration"
                   " and self._blocking_status.min_duration <= self._blocking_status.last_blocking_duration"
                   " and self._blocking_status.last_blocking_duration <= self._blocking_status.max_duration")


@contract(f"{T}:BatteryStatusTracker._get_current_status")
class GetCurrentStatus:
    self_shape = TrackerT
    result = StatusT
    requires = TRACKER_REQ
    modifies = ["self._blocking_status.blocked_until"]
    ensures = dict(
        usable_only_if_both_correct="implies(result != ComponentStatusEnum.NOT_WORKING, both_correct(self))",
        not_working_iff="(result == ComponentStatusEnum.NOT_WORKING) == (not both_correct(self))",
        uncertain_iff="(result == ComponentStatusEnum.UNCERTAIN) == (both_correct(self)"
                      " and old(self._last_status) != ComponentStatusEnum.NOT_WORKING"
                      " and old(self._blocking_status.blocked_until) is not None"
                      " and old(self._blocking_status.blocked_until) > now_0)",
        recovery_unblocks="implies(both_correct(self) and old(self._last_status) == ComponentStatusEnum.NOT_WORKING,"
                          " self._blocking_status.blocked_until is None)",
        otherwise_blocking_untouched="implies(not (both_correct(self) and old(self._last_status) == ComponentStatusEnum.NOT_WORKING),"
                                     " self._blocking_status.blocked_until == old(self._blocking_status.blocked_until))",
        flags_untouched="self._battery.last_msg_correct == old(self._battery.last_msg_correct)"
                        " and self._inverter.last_msg_correct == old(self._inverter.last_msg_correct)"
                        " and self._last_status == old(self._last_status)",
    )


@contract(f"{T}:BatteryStatusTracker._get_new_status_if_changed")
class NewStatusIfChanged:
    """Notifications only on change: None exactly when the status equals the last one sent."""
    self_shape = TrackerT
    result = Opt(StatusT)
    requires = TRACKER_REQ
    modifies = ["self._last_status", "self._blocking_status.blocked_until"]
    ensures = dict(
        none_iff_unchanged="(result is None) == (self._last_status == old(self._last_status))",
        returned_is_new="implies(result is not None, result == self._last_status)",
        working_only_if_both_correct="implies(self._last_status != ComponentStatusEnum.NOT_WORKING, both_correct(self))",
        not_working_iff="(self._last_status == ComponentStatusEnum.NOT_WORKING) == (not both_correct(self))",
        blocking_only_cleared_on_recovery="self._blocking_status.blocked_until == old(self._blocking_status.blocked_until)"
                                          " or (self._blocking_status.blocked_until is None and both_correct(self)"
                                          "     and old(self._last_status) == ComponentStatusEnum.NOT_WORKING)",
        flags_untouched="self._battery.last_msg_correct == old(self._battery.last_msg_correct)"
                        " and self._inverter.last_msg_correct == old(self._inverter.last_msg_correct)",
    )


@contract(f"{T}:BatteryStatusTracker._handle_status_set_power_result")
class HandleSetPowerResult:
    self_shape = TrackerT
    shapes = dict(result=SetPowerResultT)
    requires = TRACKER_REQ
    modifies = ["self._blocking_status.blocked_until", "self._blocking_status.last_blocking_duration"]
    inline = [f"{T}:BatteryStatusTracker.battery_id"]
    ensures = dict(
        success_unblocks="implies(self._battery.component_id in old(result).succeeded,"
                         " self._blocking_status.blocked_until is None)",
        failure_blocks_usable="implies(not (self._battery.component_id in old(result).succeeded)"
                              " and self._battery.component_id in old(result).failed"
                              " and self._last_status != ComponentStatusEnum.NOT_WORKING,"
                              " self._blocking_status.blocked_until is not None)",
        not_mentioned_unchanged="implies(not (self._battery.component_id in old(result).succeeded)"
                                " and not (self._battery.component_id in old(result).failed),"
                                " self._blocking_status.blocked_until == old(self._blocking_status.blocked_until)"
                                " and self._blocking_status.last_blocking_duration == old(self._blocking_status.last_blocking_duration))",
        failure_of_broken_ignored="implies(not (self._battery.component_id in old(result).succeeded)"
                                  " and self._last_status == ComponentStatusEnum.NOT_WORKING,"
                                  " self._blocking_status.blocked_until == old(self._blocking_status.blocked_until))",
        flags_untouched="self._battery.last_msg_correct == old(self._battery.last_msg_correct)"
                        " and self._inverter.last_msg_correct == old(self._inverter.last_msg_correct)"
                        " and self._last_status == old(self._last_status)",
        blocking_durations_stay_in_range="self._blocking_status.min_duration <= self._blocking_status.last_blocking_duration"
                                         " and self._blocking_status.last_blocking_duration <= self._blocking_status.max_duration",
    )


# --- pool level ------------------------------------------------------------------------------------------

PoolStatusT = Obj(f"{CS}._component_status:ComponentPoolStatus", working=SetOf(Int), uncertain=SetOf(Int))


@contract(f"{CS}._component_status:ComponentPoolStatus.get_working_components")
class GetWorkingComponents:
    """Uncertain components are used only when no requested component is known to be working.
    k, j are ghost component ids (universally quantified)."""
    self_shape = PoolStatusT
    shapes = dict(components=SetOf(Int, frozen=True))
    ghost = dict(k=Int, j=Int)
    result = SetOf(Int)
    pure = True
    ensures = dict(
        subset_of_requested_and_known="implies(k in result, k in components and (k in self.working or k in self.uncertain))",
        working_preferred="implies(j in self.working and j in components,"
                          " (k in result) == (k in self.working and k in components))",
        uncertain_only_as_fallback="implies(k in result and not (k in self.working),"
                                   " not (j in self.working and j in components))",
        fallback_complete="implies(k in self.uncertain and k in components and not (k in result),"
                          " (j in result) == (j in self.working and j in components))",
    )


# --- the select loop -----------------------------------------------------------------------------------
# Which of the five sources produced the event is a tag carried by the source objects and by the selected item
# (frequenz.channels.select / selected_from are assumed: select yields items of its arguments, selected_from(s, r)
# is true exactly for the source r that produced s).
SRC_BAT = 0
SRC_BAT_TIMER = 1
SRC_INV_TIMER = 2
SRC_INV = 3
SRC_RESULT = 4
SRC_OTHER = 5


def _rx(tag):
    return ExtObj("frequenz.channels.Receiver", tag=Const(tag))


def _selected(tag, message):
    return Rec("ext:frequenz.channels.Selected", origin=Const(tag), message=message)


SelectedT = Variant(_selected(SRC_BAT, BatteryDataT), _selected(SRC_INV, InverterDataT), _selected(SRC_RESULT, SetPowerResultT),
                    _selected(SRC_BAT_TIMER, Const(None)), _selected(SRC_INV_TIMER, Const(None)),
                    _selected(SRC_OTHER, Const(None)))
BatStreamT = Obj(f"{T}:_ComponentStreamStatus", component_id=Int,
                 data_recv_timer=ExtObj("frequenz.channels.timer.Timer", tag=Const(SRC_BAT_TIMER)),
                 last_msg_timestamp=Time, last_msg_correct=Bool)
InvStreamT = Obj(f"{T}:_ComponentStreamStatus", component_id=Int,
                 data_recv_timer=ExtObj("frequenz.channels.timer.Timer", tag=Const(SRC_INV_TIMER)),
                 last_msg_timestamp=Time, last_msg_correct=Bool)
RunTrackerT = Obj(f"{T}:BatteryStatusTracker", _max_data_age=Delta, _last_status=StatusT, _blocking_status=BlockingT,
                  _timedelta_zero=Delta, _battery=BatStreamT, _inverter=InvStreamT)
StatusSenderT = ExtObj("frequenz.channels.Sender", methods=dict(send=dict(
    is_async=True, effects={"n_sent": "self.n_sent + 1", "last": "args[0].value", "last_id": "args[0].component_id"})),
    n_sent=Int, last=StatusT, last_id=Int)
ApiT = ExtObj("ApiClient", methods=dict(battery_data=dict(is_async=True, returns="bat_rx"),
                                        inverter_data=dict(is_async=True, returns="inv_rx")))

RUN_INV = dict(
    TRACKER_REQ,
    status_is_function_of_flags="(self._last_status == ComponentStatusEnum.NOT_WORKING) == (not both_correct(self))",
    last_notification_is_current_status="implies(status_sender.n_sent > 0, status_sender.last == self._last_status"
                                        " and status_sender.last_id == self._battery.component_id)",
)
RUN_HAVOC = {"self._last_status": StatusT, "self._battery.last_msg_timestamp": Time, "self._battery.last_msg_correct": Bool,
             "self._inverter.last_msg_timestamp": Time, "self._inverter.last_msg_correct": Bool,
             "self._blocking_status.blocked_until": Opt(Time), "self._blocking_status.last_blocking_duration": Delta,
             "status_sender.n_sent": Int, "status_sender.last": StatusT, "status_sender.last_id": Int,
             "status_sender.calls": OpaqueT("log"), "status_sender.results": OpaqueT("log")}
# (the timers' call logs are recording devices of the model, not program state: no clause of this contract reads them)


def stale(last_ts, now, max_age):
    """The timer guard's view: the last message is at least max_age old."""
    return not (now - last_ts < max_age)


@contract(f"{T}:BatteryStatusTracker._run")
class TrackerRun:
    """The select loop: every event is dispatched to its handler, the status is re-evaluated after every handled
    event and a notification is sent exactly when it changed.  A data timer that fires while the stream's last message
    is at least max_data_age old marks THAT stream as not correct (status NOT_WORKING)."""
    mode = "ieee"
    self_shape = RunTrackerT
    shapes = dict(status_sender=StatusSenderT, set_power_result_receiver=_rx(SRC_RESULT))
    ghost = dict(conn=ExtObj("ConnectionManager", api_client=ApiT), bat_rx=_rx(SRC_BAT), inv_rx=_rx(SRC_INV),
                 sel=ExtObj("select", stream=SelectedT))
    externals = {"frequenz.sdk.microgrid.connection_manager:get": "conn",
                 "frequenz.channels.select": "sel",
                 "frequenz.channels.selected_from": "args[0].origin == args[1].tag"}
    use = {f"{T}:BatteryStatusTracker._no_critical_error": f"{T}:BatteryStatusTracker._no_critical_error"}
    inline = [f"{T}:BatteryStatusTracker.battery_id"]
    modifies = ["self._last_status", "self._battery", "self._inverter", "self._blocking_status", "status_sender", "conn",
                "bat_rx", "inv_rx", "sel"]
    requires = dict(RUN_INV, nothing_sent_yet="status_sender.n_sent == 0")
    loops = {
        "while True": dict(havoc_fields=RUN_HAVOC, invariant=RUN_INV),
        "async for selected in select( battery, battery_timer, inverter_timer, inverter, set_power_result, )": dict(
            havoc_fields=RUN_HAVOC, invariant=RUN_INV,
            ghost_pre=["pre_status = self._last_status", "pre_n = status_sender.n_sent",
                       "pre_bat_ts = self._battery.last_msg_timestamp", "pre_inv_ts = self._inverter.last_msg_timestamp",
                       "pre_bat_ok = self._battery.last_msg_correct", "pre_inv_ok = self._inverter.last_msg_correct"],
            step=dict(
                notification_iff_status_changed="status_sender.n_sent == pre_n + (1 if self._last_status != pre_status else 0)",
                inverter_silence_detected="implies(selected.origin == SRC_INV_TIMER and stale(pre_inv_ts, now_0, self._max_data_age),"
                                          " not self._inverter.last_msg_correct"
                                          " and self._last_status == ComponentStatusEnum.NOT_WORKING)",
                battery_silence_detected="implies(selected.origin == SRC_BAT_TIMER and stale(pre_bat_ts, now_0, self._max_data_age),"
                                         " not self._battery.last_msg_correct"
                                         " and self._last_status == ComponentStatusEnum.NOT_WORKING)",
                timers_touch_only_their_stream="implies(selected.origin == SRC_INV_TIMER, self._battery.last_msg_correct == pre_bat_ok)"
                                               " and implies(selected.origin == SRC_BAT_TIMER, self._inverter.last_msg_correct == pre_inv_ok)",
                battery_message_judged="implies(selected.origin == SRC_BAT, self._battery.last_msg_timestamp == selected.message.timestamp"
                                       " and self._battery.last_msg_correct == (fresh(selected.message.timestamp, now_0, self._max_data_age)"
                                       " and battery_state_ok(selected.message) and not has_critical(selected.message)"
                                       " and not math.isnan(selected.message.capacity))"
                                       " and self._inverter.last_msg_correct == pre_inv_ok)",
                inverter_message_judged="implies(selected.origin == SRC_INV, self._inverter.last_msg_timestamp == selected.message.timestamp"
                                        " and self._inverter.last_msg_correct == (fresh(selected.message.timestamp, now_0, self._max_data_age)"
                                        " and inverter_state_ok(selected.message) and not has_critical(selected.message))"
                                        " and self._battery.last_msg_correct == pre_bat_ok)",
                success_unblocks="implies(selected.origin == SRC_RESULT and self._battery.component_id in selected.message.succeeded,"
                                 " self._blocking_status.blocked_until is None)",
                failure_blocks_usable_battery="implies(selected.origin == SRC_RESULT"
                                              " and not (self._battery.component_id in selected.message.succeeded)"
                                              " and self._battery.component_id in selected.message.failed"
                                              " and pre_status != ComponentStatusEnum.NOT_WORKING,"
                                              " self._blocking_status.blocked_until is not None)",
                results_do_not_touch_flags="implies(selected.origin == SRC_RESULT, self._battery.last_msg_correct == pre_bat_ok"
                                           " and self._inverter.last_msg_correct == pre_inv_ok)",
            )),
    }
    never_returns = True
    ensures = dict(never_returns="False")


# --- pool level: merging the per-component statuses ---------------------------------------------------------
PT = "frequenz.sdk.microgrid._power_distributing._component_pool_status_tracker"
ComponentStatusT = Rec(f"{CS}._component_status:ComponentStatus", component_id=Int, value=StatusT)
PoolStatusObjT = Obj(f"{CS}._component_status:ComponentPoolStatus", working=SetOf(Int), uncertain=SetOf(Int))
PoolSenderT = ExtObj("frequenz.channels.Sender", methods=dict(send=dict(
    is_async=True, effects={"n_sent": "self.n_sent + 1"})), n_sent=Int)
PoolTrackerT = Obj(f"{PT}:ComponentPoolStatusTracker", _current_status=PoolStatusObjT,
                   _merged_status_receiver=ExtObj("frequenz.channels.Receiver", stream=ComponentStatusT),
                   _component_status_sender=PoolSenderT)


@contract(f"{PT}:ComponentPoolStatusTracker._update_status")
class PoolUpdateStatus:
    """Every component status message puts that component into exactly the set its status names (WORKING ->
    working only, UNCERTAIN -> uncertain only, NOT_WORKING -> neither), leaves every other component where it
    was, keeps the two sets disjoint, and the pool status is published after every message."""
    self_shape = PoolTrackerT
    ghost = dict(g=Int)          # an arbitrary component id, to state "nobody else moves"
    modifies = ["self._current_status", "self._component_status_sender", "self._merged_status_receiver"]
    requires = dict(disjoint="disjoint(self._current_status)")
    loops = {"async for status in self._merged_status_receiver": dict(
        havoc_fields={"self._current_status.working": SetOf(Int), "self._current_status.uncertain": SetOf(Int),
                      "self._component_status_sender.n_sent": Int, "self._component_status_sender.calls": OpaqueT("log"),
                      "self._component_status_sender.results": OpaqueT("log")},
        invariant=dict(disjoint="disjoint(self._current_status)"),
        ghost_pre=["pre_w = g in self._current_status.working", "pre_u = g in self._current_status.uncertain",
                   "pre_n = self._component_status_sender.n_sent"],
        step=dict(
            reported_component_classified="(status.component_id in self._current_status.working)"
                                          " == (status.value == ComponentStatusEnum.WORKING)"
                                          " and (status.component_id in self._current_status.uncertain)"
                                          " == (status.value == ComponentStatusEnum.UNCERTAIN)",
            others_untouched="implies(g != status.component_id, (g in self._current_status.working) == pre_w"
                             " and (g in self._current_status.uncertain) == pre_u)",
            published_after_every_message="self._component_status_sender.n_sent == pre_n + 1",
        ))}
    ensures = dict(disjoint="disjoint(self._current_status)")


def disjoint(st):
    """No component is both working and uncertain."""
    return len(st.working.intersection(st.uncertain)) == 0


# ------------------------------------------------------------------ how the per-component trackers are configured
TrackerFactoryT = ExtObj("component status tracker type", methods={"__call__": dict(returns="made_tracker", effects={
    "n_made": "self.n_made + 1", "given_max_data_age": "kwargs['max_data_age']",
    "given_max_blocking_duration": "kwargs['max_blocking_duration']", "given_component": "kwargs['component_id']"})},
    n_made=Int, given_max_data_age=Delta, given_max_blocking_duration=Delta, given_component=Int)
StatusChannelT = ExtObj("frequenz.channels.Broadcast", methods=dict(new_sender=dict(returns="a_sender"), new_receiver=dict(returns="a_receiver")))


@contract(f"{PT}:ComponentPoolStatusTracker._make_merged_status_receiver")
class MakeMergedStatusReceiver:
    """C16 (configuration): every per-component tracker is created with the pool's maximum data age as ITS maximum
    data age and the pool's maximum blocking duration as ITS blocking cap (two timedeltas that are easy to swap)."""
    self_shape = Obj(f"{PT}:ComponentPoolStatusTracker", _component_ids=Const({7, 9}), _max_data_age=Delta,
                     _max_blocking_duration=Delta, _component_status_tracker_type=TrackerFactoryT,
                     _set_power_result_channel=StatusChannelT, _component_status_trackers=Seq(OpaqueT("tracker")))
    ghost = dict(chan=StatusChannelT, a_sender=OpaqueT("sender"), a_receiver=OpaqueT("receiver"),
                 made_tracker=OpaqueT("tracker"), merged=OpaqueT("merged receiver"))
    externals = {"frequenz.channels.Broadcast": "chan", "frequenz.channels.merge": "merged"}
    modifies = ["self._component_status_trackers", "self._component_status_tracker_type", "self._set_power_result_channel", "chan"]
    requires = dict(fresh="self._component_status_tracker_type.n_made == 0")
    ensures = dict(
        one_tracker_per_component="self._component_status_tracker_type.n_made == 2",
        data_age_is_data_age="self._component_status_tracker_type.given_max_data_age == self._max_data_age",
        blocking_cap_is_blocking_cap="self._component_status_tracker_type.given_max_blocking_duration == self._max_blocking_duration",
    )
