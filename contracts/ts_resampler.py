"""Contracts for the Resampler's timeline (C07)."""
from pyvc.spec import (contract, Obj, Rec, Opt, ExtObj, DictOpt, Tup, Time, Delta, Int, Bool, OpaqueT, Const,
                       implies, forall)

R = "frequenz.sdk.timeseries._resampling"

ConfigT = Rec(f"{R}:ResamplerConfig", resampling_period=Delta, align_to=Opt(Time))

# a series being resampled: a scripted _StreamingHelper that records the timestamps it is asked for
HelperT = ExtObj(
    f"{R}._StreamingHelper",
    methods=dict(resample=dict(effects={"n_calls": "self.n_calls + 1", "last_ts": "args[0]"},
                               raises=["Exception", "CancelledError"], is_async=True)),
    n_calls=Int, last_ts=Time)
TimerT = ExtObj("frequenz.channels.timer.Timer", stream=Delta)
SRC1 = "source-1"
SRC2 = "source-2"


@contract(f"{R}:Resampler._calculate_window_end")
class CalculateWindowEnd:
    """First window end: after now, at most two periods away, on the align_to grid; the timer is
    delayed by exactly the time missing to the grid point one period before it."""
    self_shape = Obj(f"{R}:Resampler", _config=ConfigT)
    result = Tup(Time, Delta)
    pure = True
    requires = dict(positive_period="self._config.resampling_period.total_seconds() > 0")
    ensures = dict(
        after_creation="now_0 < result[0]",
        within_two_periods="result[0] <= now_0 + 2 * self._config.resampling_period",
        at_least_one_period="result[0] >= now_0 + self._config.resampling_period",
        unaligned_is_one_period="implies(self._config.align_to is None,"
                                " result[0] == now_0 + self._config.resampling_period and result[1].total_seconds() == 0)",
        on_grid="implies(self._config.align_to is not None,"
                " ((result[0] - self._config.align_to) % self._config.resampling_period).total_seconds() == 0)",
        timer_delay="result[1] == result[0] - (now_0 + self._config.resampling_period)",
        delay_less_than_period="result[1].total_seconds() >= 0 and result[1] < self._config.resampling_period",
    )


@contract(f"{R}:Resampler.resample")
class Resample:
    """Every tick hands each series the same timestamp W0 + n * period (n = number of earlier ticks)
    exactly once, whatever the clock says and however late the tick is."""
    self_shape = Obj(f"{R}:Resampler", _config=ConfigT, _window_end=Time, _timer=TimerT,
                     _resamplers=DictOpt({SRC1: HelperT, SRC2: HelperT}))
    shapes = dict(one_shot=Bool)
    aliases = dict(h1="self._resamplers.get(SRC1)", h2="self._resamplers.get(SRC2)")
    modifies = ["self._window_end", "self._resamplers", "self._timer"]
    requires = dict(positive_period="self._config.resampling_period.total_seconds() > 0",
                    fresh_helpers="(h1 is None or h1.n_calls == 0) and (h2 is None or h2.n_calls == 0)")
    loops = {
        "async for drift in self._timer": dict(
            idx="_n",
            havoc_fields={"self._window_end": Time, "h1.n_calls": Int, "h1.last_ts": Time,
                          "h2.n_calls": Int, "h2.last_ts": Time, "h1.calls": OpaqueT("log"), "h2.calls": OpaqueT("log")},
            invariant=dict(
                window_end_advances_one_period_per_tick="self._window_end == old(self._window_end) + _n * self._config.resampling_period",
                each_series_once_per_tick="(h1 is None or h1.n_calls == _n) and (h2 is None or h2.n_calls == _n)",
                each_series_got_previous_window_end="implies(_n > 0, (h1 is None or h1.last_ts == self._window_end - self._config.resampling_period)"
                                                    " and (h2 is None or h2.last_ts == self._window_end - self._config.resampling_period))",
            ),
        ),
    }
    raises = dict(ResamplingError="True")
    ensures = dict(
        one_period_per_tick="implies(h1 is not None, self._window_end == old(self._window_end)"
                            " + h1.n_calls * self._config.resampling_period)",
        same_for_all_series="implies(h1 is not None and h2 is not None, h1.n_calls == h2.n_calls"
                            " and (h1.n_calls == 0 or h1.last_ts == h2.last_ts))",
        last_is_previous_window_end="implies(h1 is not None and h1.n_calls > 0,"
                                    " h1.last_ts == self._window_end - self._config.resampling_period)",
    )
    ensures_on_raise = dict(
        still_advanced_exactly_once_for_the_failed_tick="implies(h1 is not None, self._window_end == old(self._window_end)"
                                                        " + h1.n_calls * self._config.resampling_period)",
        failed_tick_used_previous_window_end="implies(h1 is not None and h1.n_calls > 0,"
                                             " h1.last_ts == self._window_end - self._config.resampling_period)",
    )


def exists_ticks(w, w0, period):
    """w = w0 + k * period for some whole k >= 0."""
    return w >= w0 and ((w - w0) % period).total_seconds() == 0
