"""Contracts for the battery pool's SoC / capacity aggregates (C18)."""
import math

from pyvc.spec import (contract, Obj, Rec, Opt, MapOf, SetOf, DictOpt, EnumKey, Real, Int, Time, Qty, Tup,
                       implies, forall, close, elements)

MC = "frequenz.sdk.timeseries.battery_pool._metric_calculator"
CMD = "frequenz.sdk.timeseries.battery_pool._component_metrics:ComponentMetricsData"
MID = "ext:frequenz.client.microgrid.ComponentMetricId"
SAMPLE = "frequenz.sdk.timeseries._base_types:Sample"

CAP, LO, HI, SOC = (EnumKey(MID, "CAPACITY"), EnumKey(MID, "SOC_LOWER_BOUND"), EnumKey(MID, "SOC_UPPER_BOUND"),
                    EnumKey(MID, "SOC"))
MetricsT = Obj(CMD, _component_id=Int, _timestamp=Time, _metrics=DictOpt({CAP: Real, LO: Real, HI: Real, SOC: Real}))
DataT = MapOf(Int, MetricsT)
WorkingT = SetOf(Int, frozen=True)

try:
    from frequenz.client.microgrid import ComponentMetricId
except ImportError:
    pass


# ------------------------------------------------------------------ the documented aggregates
def m(d, metric):
    return d.get(metric)


def qualifies_capacity(data, b):
    """Battery b counts: it has data and all three capacity metrics."""
    return (b in data and m(data[b], ComponentMetricId.CAPACITY) is not None
            and m(data[b], ComponentMetricId.SOC_LOWER_BOUND) is not None
            and m(data[b], ComponentMetricId.SOC_UPPER_BOUND) is not None)


def qualifies_soc(data, b):
    return qualifies_capacity(data, b) and m(data[b], ComponentMetricId.SOC) is not None


def usable_x100(d):
    """100 x usable capacity: capacity * (upper - lower SoC limit)."""
    return m(d, ComponentMetricId.CAPACITY) * (m(d, ComponentMetricId.SOC_UPPER_BOUND)
                                               - m(d, ComponentMetricId.SOC_LOWER_BOUND))


def scaled_soc(d):
    """SoC rescaled to the battery's limits and clamped to 0..100 (limits equal: 0 below, else 100)."""
    lo = m(d, ComponentMetricId.SOC_LOWER_BOUND)
    hi = m(d, ComponentMetricId.SOC_UPPER_BOUND)
    soc = m(d, ComponentMetricId.SOC)
    raw = ((0.0 if soc < lo else 100.0) if math.isclose(hi, lo) else (soc - lo) / (hi - lo) * 100.0)
    return min(max(raw, 0.0), 100.0)


def data_ok(data, b):
    """capacity >= 0 and lower limit <= upper limit (the property's quantifier)."""
    return (not qualifies_capacity(data, b)) or (
        m(data[b], ComponentMetricId.CAPACITY) >= 0
        and m(data[b], ComponentMetricId.SOC_LOWER_BOUND) <= m(data[b], ComponentMetricId.SOC_UPPER_BOUND))


SOC_GHOSTS = dict(
    TOT=dict(over="elements(working_batteries)", shape=Real, init="0.0",
             step="prev + (usable_x100(metrics_data[elem]) if qualifies_soc(metrics_data, elem) else 0.0)"),
    USED=dict(over="elements(working_batteries)", shape=Real, init="0.0",
              step="prev + (usable_x100(metrics_data[elem]) * scaled_soc(metrics_data[elem])"
                   " if qualifies_soc(metrics_data, elem) else 0.0)"),
    CNT=dict(over="elements(working_batteries)", shape=Int, init="0",
             step="prev + (1 if qualifies_soc(metrics_data, elem) else 0)"),
)
CAP_GHOSTS = dict(
    CAPSUM=dict(over="elements(working_batteries)", shape=Real, init="0.0",
                step="prev + (usable_x100(metrics_data[elem]) / 100 if qualifies_capacity(metrics_data, elem) else 0.0)"),
    CNT=dict(over="elements(working_batteries)", shape=Int, init="0",
             step="prev + (1 if qualifies_capacity(metrics_data, elem) else 0)"),
)
N = "len(elements(working_batteries))"
INLINE = [f"{CMD}.get", "frequenz.sdk._internal._math:is_close_to_zero"]
PercentSampleT = Rec(SAMPLE, timestamp=Time, value=Opt(Qty("Percentage")))
EnergySampleT = Rec(SAMPLE, timestamp=Time, value=Opt(Qty("Energy")))


@contract(f"{MC}:CapacityCalculator.calculate")
class CapacityCalculate:
    self_shape = Obj(f"{MC}:CapacityCalculator")
    shapes = dict(metrics_data=DataT, working_batteries=WorkingT)
    result = EnergySampleT
    pure = True
    inline = INLINE
    ghost_seqs = CAP_GHOSTS
    requires = dict(sane="forall(0, " + N + ", lambda i: data_ok(metrics_data, elements(working_batteries)[i]))",
                    timestamps="forall(0, " + N + ", lambda i: not (elements(working_batteries)[i] in metrics_data)"
                               " or metrics_data[elements(working_batteries)[i]]._timestamp > datetime_min())")
    loops = {"for battery_id in working_batteries": dict(idx="_i", invariant=dict(
        running_sum="total_capacity == CAPSUM(_i)",
        none_yet_iff="(timestamp == datetime_min()) == (CNT(_i) == 0)",
        count_nonneg="CNT(_i) >= 0",
    ))}
    ensures = dict(
        none_iff_no_battery_qualifies="(result.value is None) == (CNT(" + N + ") == 0)",
        sum_of_usable_capacities="implies(result.value is not None, close(result.value.base_value, CAPSUM(" + N + ")))",
    )


def datetime_min():
    import datetime as _dt
    return _dt.datetime.min.replace(tzinfo=_dt.timezone.utc)


@contract(f"{MC}:SoCCalculator.calculate")
class SoCCalculate:
    self_shape = Obj(f"{MC}:SoCCalculator")
    shapes = dict(metrics_data=DataT, working_batteries=WorkingT)
    result = PercentSampleT
    pure = True
    inline = INLINE
    ghost_seqs = SOC_GHOSTS
    requires = CapacityCalculate.requires
    loops = {"for battery_id in working_batteries": dict(idx="_i", invariant=dict(
        running_total="total_capacity_x100 == TOT(_i)",
        running_used="used_capacity_x100 == USED(_i)",
        used_within_total="0 <= used_capacity_x100 and used_capacity_x100 <= 100 * total_capacity_x100",
        none_yet_iff="(timestamp == datetime_min()) == (CNT(_i) == 0)",
        count_nonneg="CNT(_i) >= 0",
    ))}
    ensures = dict(
        none_iff_no_battery_qualifies="(result.value is None) == (CNT(" + N + ") == 0)",
        within_0_100="implies(result.value is not None, 0 <= result.value.base_value and result.value.base_value <= 100)",
        weighted_mean="implies(result.value is not None and not (abs(TOT(" + N + ")) <= 1e-9),"
                      " close(result.value.base_value, USED(" + N + ") / TOT(" + N + "))"
                      " or close(result.value.base_value, 100.0))",
        zero_capacity_pool="implies(result.value is not None and abs(TOT(" + N + ")) <= 1e-9, result.value.base_value == 0)",
    )


# ------------------------------------------------------------------ lemmas over the documented closed form
from pyvc.spec import lemma  # noqa: E402


@lemma("scaled_soc_is_monotone_and_bounded")
class ScaledSocMonotone:
    """Per battery: the rescaled, clamped SoC is within [0, 100] and non-decreasing in the battery's SoC."""
    shapes = dict(d1=MetricsT, d2=MetricsT)
    requires = dict(
        all_present="all(m(d, k) is not None for d in (d1, d2) for k in (ComponentMetricId.CAPACITY,"
                    " ComponentMetricId.SOC_LOWER_BOUND, ComponentMetricId.SOC_UPPER_BOUND, ComponentMetricId.SOC))",
        same_battery="m(d1, ComponentMetricId.SOC_LOWER_BOUND) == m(d2, ComponentMetricId.SOC_LOWER_BOUND)"
                     " and m(d1, ComponentMetricId.SOC_UPPER_BOUND) == m(d2, ComponentMetricId.SOC_UPPER_BOUND)",
        limits_ordered="m(d1, ComponentMetricId.SOC_LOWER_BOUND) <= m(d1, ComponentMetricId.SOC_UPPER_BOUND)",
        soc_not_lower="m(d1, ComponentMetricId.SOC) <= m(d2, ComponentMetricId.SOC)",
    )
    ensures = dict(bounded="0 <= scaled_soc(d1) and scaled_soc(d1) <= 100",
                   monotone="scaled_soc(d1) <= scaled_soc(d2)")


@lemma("usable_capacity_scales_linearly")
class UsableScales:
    """Scaling a battery's capacity by k scales its weight by k and leaves its rescaled SoC alone."""
    shapes = dict(d1=MetricsT, d2=MetricsT, k=Real)
    requires = dict(
        all_present=ScaledSocMonotone.requires["all_present"],
        same_but_capacity="m(d1, ComponentMetricId.SOC_LOWER_BOUND) == m(d2, ComponentMetricId.SOC_LOWER_BOUND)"
                          " and m(d1, ComponentMetricId.SOC_UPPER_BOUND) == m(d2, ComponentMetricId.SOC_UPPER_BOUND)"
                          " and m(d1, ComponentMetricId.SOC) == m(d2, ComponentMetricId.SOC)"
                          " and m(d2, ComponentMetricId.CAPACITY) == k * m(d1, ComponentMetricId.CAPACITY)",
    )
    ensures = dict(weight_scales="usable_x100(d2) == k * usable_x100(d1)",
                   soc_unchanged="scaled_soc(d2) == scaled_soc(d1)")


DATA2 = dict(metrics_data=DataT, other_data=DataT, working_batteries=WorkingT)


def same_except_soc_not_lower(a, b, bat):
    """Data sets a, b agree on battery bat except that its SoC in b is not lower."""
    return ((bat in a) == (bat in b) and (not (bat in a) or (
        qualifies_soc(a, bat) == qualifies_soc(b, bat) and (not qualifies_soc(a, bat) or (
            m(a[bat], ComponentMetricId.CAPACITY) == m(b[bat], ComponentMetricId.CAPACITY)
            and m(a[bat], ComponentMetricId.SOC_LOWER_BOUND) == m(b[bat], ComponentMetricId.SOC_LOWER_BOUND)
            and m(a[bat], ComponentMetricId.SOC_UPPER_BOUND) == m(b[bat], ComponentMetricId.SOC_UPPER_BOUND)
            and m(a[bat], ComponentMetricId.SOC) <= m(b[bat], ComponentMetricId.SOC))))))


@lemma("pool_soc_is_monotone_in_every_battery_soc")
class PoolSocMonotone:
    """By induction over the batteries: raising SoCs never lowers used/total (total unchanged)."""
    shapes = DATA2
    ghost_seqs = dict(
        TOT=SOC_GHOSTS["TOT"], USED=SOC_GHOSTS["USED"],
        TOT2=dict(SOC_GHOSTS["TOT"], step=SOC_GHOSTS["TOT"]["step"].replace("metrics_data", "other_data")),
        USED2=dict(SOC_GHOSTS["USED"], step=SOC_GHOSTS["USED"]["step"].replace("metrics_data", "other_data")),
    )
    requires = dict(
        sane="forall(0, " + N + ", lambda i: data_ok(metrics_data, elements(working_batteries)[i]))",
        socs_not_lower="forall(0, " + N + ", lambda i: same_except_soc_not_lower(metrics_data, other_data,"
                       " elements(working_batteries)[i]))",
    )
    induct = dict(var="k", bound=N, claim="TOT2(k) == TOT(k) and USED(k) <= USED2(k) and TOT(k) >= 0")
    ensures = dict(
        total_unchanged="TOT2(" + N + ") == TOT(" + N + ")",
        used_not_lower="USED(" + N + ") <= USED2(" + N + ")",
        mean_not_lower="implies(TOT(" + N + ") > 0 and TOT2(" + N + ") > 0, USED(" + N + ") / TOT(" + N + ") <= USED2(" + N + ") / TOT2(" + N + "))",
    )


# ------------------------------------------------------------------ the aggregator's working set
METHODS = "frequenz.sdk.timeseries.battery_pool._methods"
from pyvc.spec import ExtObj, OpaqueT, Bool   # noqa: E402  pylint: disable=wrong-import-position

AggregatorT = Obj(f"{METHODS}:SendOnUpdate", _working_batteries=SetOf(Int),
                  _metric_calculator=ExtObj("MetricCalculator", batteries=SetOf(Int)),
                  _cached_metrics=ExtObj("dict[int, ComponentMetricsData]", methods={
                      "pop": dict(effects={"n_pop": "self.n_pop + 1"}),
                      # nothing is known about WHICH components have a cache entry (a battery that never sent data has
                      # none): deleting an entry outright may raise
                      "__delitem__": dict(effects={"n_pop": "self.n_pop + 1"}, raises=["KeyError"], raise_before_effects=True)},
                      n_pop=Int), _bat_inv_map=ExtObj("dict[int, set[int]]", methods={"__getitem__": dict(returns="invs")}),
                  _update_event=ExtObj("asyncio.Event", methods=dict(set=dict(effects={"n_set": "self.n_set + 1"})),
                                       n_set=Int))


@contract(f"{METHODS}:SendOnUpdate.update_working_batteries")
class UpdateWorkingBatteries:
    """C18 (which batteries the aggregate covers): after a status update the aggregator's working set is exactly
    the reported working batteries the calculator knows and a recalculation is requested exactly when that set
    changed.  (Which cache entries are dropped is not stated here: the cache is a scripted collaborator.)"""
    self_shape = AggregatorT
    shapes = dict(new_working_batteries=SetOf(Int))
    modifies = ["self._working_batteries", "self._cached_metrics", "self._update_event"]
    ghost = dict(invs=SetOf(Int))      # the inverters adjacent to a battery: some set (every battery is mapped)
    _LOOP = dict(
        havoc_fields={"self._cached_metrics.n_pop": Int, "self._cached_metrics.calls": OpaqueT("log"),
                      "self._cached_metrics.results": OpaqueT("log")},
        invariant=dict(
            working_set_untouched="self._working_batteries == old(self._working_batteries)",
            event_untouched="self._update_event.n_set == old(self._update_event.n_set)",
        ))
    loops = {"for battery_id in stopped_working": _LOOP, "for inv_id in self._bat_inv_map[battery_id]": _LOOP}
    ensures = dict(
        working_set_is_reported_set="self._working_batteries == new_working_batteries.intersection(self._metric_calculator.batteries)",
        recalculation_iff_changed="(self._update_event.n_set > old(self._update_event.n_set))"
                                  " == (self._working_batteries != old(self._working_batteries))",
    )


# ------------------------------------------------------------------ which working set a new aggregator starts with
BP = "frequenz.sdk.timeseries.battery_pool._battery_pool"
from pyvc.spec import Const, Delta   # noqa: E402  pylint: disable=wrong-import-position

SOC_KEY = "SendOnUpdate_SoCCalculator"
CAP_KEY = "SendOnUpdate_CapacityCalculator"
FactoryT = ExtObj("SendOnUpdate factory", methods={"__call__": dict(returns="aggregator", effects={
    "n_made": "self.n_made + 1", "given_working": "kwargs['working_batteries']", "given_calc": "kwargs['metric_calculator']"})},
    n_made=Int, given_working=SetOf(Int), given_calc=OpaqueT("calculator"))
RefStoreT = Obj("frequenz.sdk.timeseries.battery_pool._battery_pool_reference_store:BatteryPoolReferenceStore",
                _batteries=SetOf(Int, frozen=True), _working_batteries=SetOf(Int), _min_update_interval=Delta,
                _active_methods=DictOpt({SOC_KEY: OpaqueT("aggregator"), CAP_KEY: OpaqueT("aggregator")}))
PoolT = Obj(f"{BP}:BatteryPool", _pool_ref_store=RefStoreT)


def pool_metric_contract(prop, key, calc_cls):
    @contract(f"{BP}:BatteryPool.{prop}")
    class _C:
        """A new aggregator starts from the pool's CURRENT set of working batteries (the one kept up to date from
        the status channel), not from all batteries of the pool; an existing aggregator is reused."""
        self_shape = PoolT
        ghost = dict(factory=FactoryT, aggregator=OpaqueT("aggregator"),
                     calculator=ExtObj("MetricCalculator", batteries=SetOf(Int, frozen=True)))
        externals = {f"{METHODS}:SendOnUpdate": "call factory", f"{MC}:{calc_cls}": "calculator",
                     f"{METHODS}:SendOnUpdate.name": "'SendOnUpdate'", f"{MC}:{calc_cls}.name": f"'{calc_cls}'"}
        modifies = ["self._pool_ref_store._active_methods", "factory"]
        requires = dict(fresh="factory.n_made == 0")
        ensures = dict(
            created_once_when_missing="factory.n_made == (0 if old(KEY in self._pool_ref_store._active_methods) else 1)".replace("KEY", repr(key)),
            starts_from_current_working_set="implies(factory.n_made == 1,"
                                            " factory.given_working is self._pool_ref_store._working_batteries)",
        )
    return _C


PoolSoc = pool_metric_contract("soc", SOC_KEY, "SoCCalculator")
PoolCapacity = pool_metric_contract("capacity", CAP_KEY, "CapacityCalculator")
