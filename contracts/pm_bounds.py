"""Contracts for frequenz.sdk.microgrid._power_managing._bounds (C03, C04, C11).

Postconditions are taken from the property statements: a clamped value is *usable*
(inside the inclusion range, not strictly inside the exclusion zone), it is the
*nearest* usable value, and nothing is returned exactly when nothing is usable.
`x` is a ghost (universally quantified) power used to state "for every usable x".
"""
from pyvc.spec import contract, Tup, Opt, PowerT, Bool, implies
from contracts.common import BoundsT, OptBoundsT, zero, in_zone, usable

M = "frequenz.sdk.microgrid._power_managing._bounds"


@contract(f"{M}:check_exclusion_bounds_overlap")
class CheckOverlap:
    shapes = dict(lower_bound=PowerT, upper_bound=PowerT, exclusion_bounds=OptBoundsT)
    result = Tup(Bool, Bool)
    pure = True
    ensures = dict(
        lower="result[0] == in_zone(lower_bound, exclusion_bounds)",
        upper="result[1] == in_zone(upper_bound, exclusion_bounds)",
    )


@contract(f"{M}:adjust_exclusion_bounds")
class AdjustExclusion:
    shapes = dict(lower_bound=PowerT, upper_bound=PowerT, exclusion_bounds=OptBoundsT)
    ghost = dict(x=PowerT)
    result = Tup(PowerT, PowerT)
    pure = True
    ensures = dict(
        swallowed="implies(in_zone(lower_bound, exclusion_bounds) and in_zone(upper_bound, exclusion_bounds),"
                  " result[0] == zero() and result[1] == zero())",
        untouched="implies(not in_zone(lower_bound, exclusion_bounds) and not in_zone(upper_bound, exclusion_bounds),"
                  " result[0] == lower_bound and result[1] == upper_bound)",
        # unless the whole range is swallowed by the zone, exactly the usable points survive
        usable_preserved="implies(not (in_zone(lower_bound, exclusion_bounds) and in_zone(upper_bound, exclusion_bounds)),"
                         " usable(x, lower_bound, upper_bound, exclusion_bounds)"
                         " == usable(x, result[0], result[1], exclusion_bounds))",
        endpoints_clear="implies(not (in_zone(lower_bound, exclusion_bounds) and in_zone(upper_bound, exclusion_bounds)),"
                        " not in_zone(result[0], exclusion_bounds) and not in_zone(result[1], exclusion_bounds))",
        shrinks="implies(not (in_zone(lower_bound, exclusion_bounds) and in_zone(upper_bound, exclusion_bounds)),"
                " lower_bound <= result[0] and result[1] <= upper_bound)",
        lower_side="implies(in_zone(lower_bound, exclusion_bounds) and not in_zone(upper_bound, exclusion_bounds),"
                   " result[0] == exclusion_bounds.upper and result[1] == upper_bound)",
        upper_side="implies(not in_zone(lower_bound, exclusion_bounds) and in_zone(upper_bound, exclusion_bounds),"
                   " result[0] == lower_bound and result[1] == exclusion_bounds.lower)",
    )


def one_sided(result):
    return (result[0] is None) != (result[1] is None)


def the_one(result):
    return result[0] if result[0] is not None else result[1]


def dist(a, b):
    return abs(a - b)


@contract(f"{M}:clamp_to_bounds")
class Clamp:
    shapes = dict(value=PowerT, lower_bound=PowerT, upper_bound=PowerT, exclusion_bounds=OptBoundsT)
    ghost = dict(x=PowerT)
    result = Tup(Opt(PowerT), Opt(PowerT))
    pure = True
    requires = dict(ordered="lower_bound <= upper_bound")
    ensures = dict(
        # every returned option is usable, or it is the zero request handed back unchanged
        components_usable="all(r is None or usable(r, lower_bound, upper_bound, exclusion_bounds) for r in result)"
                          " or (value == zero() and result[0] == value and result[1] == value)",
        identity_iff_usable="(result[0] == value and result[1] == value) == ("
                            "usable(value, lower_bound, upper_bound, exclusion_bounds)"
                            " or (value == zero() and lower_bound <= value <= upper_bound"
                            "     and not in_zone(lower_bound, exclusion_bounds)"
                            "     and not in_zone(upper_bound, exclusion_bounds)))",
        none_iff_nothing_usable="(result[0] is None and result[1] is None) =="
                                " (in_zone(lower_bound, exclusion_bounds) and in_zone(upper_bound, exclusion_bounds))",
        none_means_empty="implies(result[0] is None and result[1] is None,"
                         " not usable(x, lower_bound, upper_bound, exclusion_bounds))",
        two_sided="implies(result[0] is not None and result[1] is not None and result[0] != result[1],"
                  " result[0] == exclusion_bounds.lower and result[1] == exclusion_bounds.upper"
                  " and result[0] < value < result[1])",
        two_sided_iff="(result[0] is not None and result[1] is not None and result[0] != result[1]) == ("
                      "in_zone(value, exclusion_bounds) and value != zero() and lower_bound <= value <= upper_bound"
                      " and not in_zone(lower_bound, exclusion_bounds) and not in_zone(upper_bound, exclusion_bounds))",
        both_equal_means_identity="implies(result[0] is not None and result[1] is not None and result[0] == result[1],"
                                  " result[0] == value)",
        two_sided_nearest="implies(result[0] is not None and result[1] is not None and result[0] != result[1]"
                          " and usable(x, lower_bound, upper_bound, exclusion_bounds),"
                          " x <= result[0] or x >= result[1])",
        one_sided_nearest="implies(one_sided(result) and usable(x, lower_bound, upper_bound, exclusion_bounds),"
                          " dist(x, value) >= dist(the_one(result), value))",
        one_sided_means_unusable="implies(one_sided(result),"
                                 " not usable(value, lower_bound, upper_bound, exclusion_bounds))",
    )
