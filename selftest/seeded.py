"""Run the registered checks against the seeded property-breaking changes kept under /verif/seeded/.

    python3-vt selftest/seeded.py [--confirm] [--tier quick] [ID ...]         (default: every seeded change)

Each /verif/seeded/<PROP>/<name>/ holds patch.diff (a change that breaks <PROP> while the existing test suite passes),
demo.py (exits 1 when the property is violated) and meta.json.  For every change a scratch copy of /repo's working
tree is made outside /repo and /verif, the patch is applied there (git apply), the property's check is run with
--repo <scratch>, and the scratch copy is removed.  /repo itself is never modified and nothing is written to
/verif/evidence (the evidence of these runs goes to the scratch copy).  With --confirm the demonstration is also run
on the unchanged tree (must exit 0) and on the changed copy (must exit 1), and the test suite on the changed copy.

Results: seeded/RESULTS.json (per change: exit code, VIOLATION lines, obligations that failed) and a table on stdout.
Exit code 0 iff every seeded change was detected (exit 1 from the check) .
"""
import concurrent.futures as cf
import json
import os
import re
import shutil
import subprocess
import sys
import tempfile

VERIF = os.path.dirname(os.path.dirname(os.path.abspath(__file__)))
# --benign: the changes under /verif/benign/ preserve their property; every check must stay silent (exit 0) on them
BENIGN = "--benign" in sys.argv
SEEDED = os.path.join(VERIF, "benign" if BENIGN else "seeded")


def seeds(filter_ids):
    out = []
    for prop in sorted(os.listdir(SEEDED)):
        d = os.path.join(SEEDED, prop)
        if not os.path.isdir(d):
            continue
        for name in sorted(os.listdir(d)):
            if os.path.exists(os.path.join(d, name, "patch.diff")):
                if not filter_ids or prop in filter_ids or f"{prop}/{name}" in filter_ids:
                    out.append((prop, name))
    return out


def run_one(prop, name, tier, confirm):
    sd = os.path.join(SEEDED, prop, name)
    scratch = tempfile.mkdtemp(prefix=f"seeded_{prop}_{name}_", dir=os.environ.get("PYVC_SCRATCH_ROOT", "/tmp"))
    res = {"property": prop, "name": name}
    try:
        for sub in ("src", "tests", "pyproject.toml", "README.md", "benchmarks", "examples"):
            p = os.path.join("/repo", sub)
            if os.path.isdir(p):
                shutil.copytree(p, os.path.join(scratch, sub))
            elif os.path.exists(p):
                shutil.copy(p, os.path.join(scratch, sub))
        r = subprocess.run(["git", "apply", "--whitespace=nowarn", os.path.join(sd, "patch.diff")], cwd=scratch,
                           capture_output=True, text=True, check=False)
        if r.returncode != 0:
            res["error"] = "patch does not apply: " + r.stderr[-400:]
            return res
        checks = [prop]
        meta = {}
        try:
            meta = json.load(open(os.path.join(sd, "meta.json"), encoding="utf-8"))
        except Exception:  # pylint: disable=broad-except
            pass
        for extra in meta.get("also_check", []):
            checks.append(extra)
        res["checks"] = {}
        for c in checks:
            r = subprocess.run([sys.executable, "-m", "checks.run", c, "--tier", tier, "--repo", scratch, "--evidence-dir",
                                os.path.join(scratch, "ev")], cwd=VERIF, capture_output=True, text=True, check=False)
            lines = [l for l in r.stdout.splitlines()]
            viol = [l for l in lines if l.startswith("VIOLATION")]
            failed = []
            for l in viol:
                m = re.search(r"replay=(\S+)", l)
                try:
                    doc = json.load(open(m.group(1), encoding="utf-8"))
                    failed.append(f"{doc.get('obligation')} [{doc.get('verdict')}]"[:220])
                except Exception:  # pylint: disable=broad-except
                    pass
            res["checks"][c] = {"exit": r.returncode, "violations": len(viol),
                                "no_failing_input": sum("no-failing-input-found" in l for l in viol),
                                "failed_obligations": failed[:8], "summary": (lines[-1] if lines else "")[:300],
                                "stderr_tail": r.stderr[-300:] if r.returncode not in (0, 1) else ""}
        res["detected"] = any(v["exit"] == 1 for v in res["checks"].values())
        res["silent"] = all(v["exit"] == 0 for v in res["checks"].values())
        res["in_domain"] = meta.get("in_domain", True)
        if confirm:
            env = dict(os.environ, PYTHONPATH=os.path.join(scratch, "src"))
            demo = os.path.join(sd, "demo.py")
            if os.path.exists(demo):
                r1 = subprocess.run(["/venv/bin/python", demo], cwd=scratch, env=env, capture_output=True, text=True,
                                    check=False, timeout=600)
                env0 = dict(os.environ, PYTHONPATH="/repo/src")
                r0 = subprocess.run(["/venv/bin/python", demo], cwd="/repo", env=env0, capture_output=True, text=True,
                                    check=False, timeout=600)
                res["demo_exit_changed"] = r1.returncode
                res["demo_exit_unchanged"] = r0.returncode
                res["demo_tail_changed"] = (r1.stdout + r1.stderr)[-500:]
            rt = subprocess.run(["/venv/bin/python", "-m", "pytest", "-q", "-p", "no:cacheprovider", "--timeout=900",
                                 "--continue-on-collection-errors"], cwd=scratch, env=env, capture_output=True, text=True,
                                check=False, timeout=3000)
            tail = rt.stdout.strip().splitlines()[-1] if rt.stdout.strip() else ""
            res["tests"] = tail
            m = re.search(r"(\d+) failed", tail)
            p = re.search(r"(\d+) passed", tail)
            res["tests_ok"] = bool(p and int(p.group(1)) == 332 and (not m or int(m.group(1)) == 18))
        return res
    finally:
        shutil.rmtree(scratch, ignore_errors=True)


def main():
    args = sys.argv[1:]
    confirm = "--confirm" in args
    tier = "quick"
    if "--tier" in args:
        tier = args[args.index("--tier") + 1]
    ids = [a for a in args if re.match(r"C\d\d", a)]
    todo = seeds(ids)
    results = []
    with cf.ThreadPoolExecutor(max_workers=int(os.environ.get("SEEDED_JOBS", "6"))) as ex:
        futs = {ex.submit(run_one, p, n, tier, confirm): (p, n) for p, n in todo}
        for f in cf.as_completed(futs):
            r = f.result()
            results.append(r)
            c = r.get("checks", {})
            if BENIGN:
                print(f"{r['property']}/{r['name']}: " + (r.get("error") or ("SILENT (ok)" if r.get("silent") else
                                                                             "FALSE ALARM" if r.get("detected") else "UNDECIDED/ERROR"))
                      + " " + " ".join(f"{k}:exit={v['exit']},viol={v['violations']}" for k, v in c.items())
                      + (f" tests_ok={r.get('tests_ok')}" if confirm else ""), flush=True)
                continue
            print(f"{r['property']}/{r['name']}: " + (r.get("error") or ("DETECTED" if r.get("detected") else
                                                                             "MISSED" if r.get("in_domain", True) else "SILENT (out of the property's domain, see meta.json)"))
                  + " " + " ".join(f"{k}:exit={v['exit']},viol={v['violations']}" for k, v in c.items())
                  + (f" demo {r.get('demo_exit_unchanged')}->{r.get('demo_exit_changed')} tests_ok={r.get('tests_ok')}"
                     if confirm else ""), flush=True)
    results.sort(key=lambda r: (r["property"], r["name"]))
    if not ids:
        json.dump(results, open(os.path.join(SEEDED, "RESULTS.json"), "w", encoding="utf-8"), indent=1)
    if BENIGN:
        return 0 if all(r.get("silent") for r in results) else 1
    return 0 if all(r.get("detected") or not r.get("in_domain", True) for r in results) else 1


if __name__ == "__main__":
    sys.exit(main())
