"""Apply a textual mutation to a scratch copy of /repo/src and run a property's check against it.

    python3-vt selftest/mutate.py C16 <file under src/frequenz/sdk> <old text> <new text> [--tier quick]

The scratch copy lives under $PYVC_SCRATCH (default /tmp/pyvc_scratch) and is removed afterwards.
Exit code = the check's exit code (1 expected for a property-breaking mutant, 0 for a benign edit).
"""
import os
import shutil
import subprocess
import sys

VERIF = os.path.dirname(os.path.dirname(os.path.abspath(__file__)))


def main():
    prop, rel, old, new = sys.argv[1:5]
    scratch = os.environ.get("PYVC_SCRATCH", "/tmp/pyvc_scratch") + f"_{os.getpid()}"
    shutil.rmtree(scratch, ignore_errors=True)
    os.makedirs(scratch)
    try:
        shutil.copytree("/repo/src", scratch + "/src")
        p = os.path.join(scratch, "src/frequenz/sdk", rel)
        s = open(p, encoding="utf-8").read()
        if s.count(old) < 1:
            print("MUTATION TEXT NOT FOUND")
            return 4
        s = s.replace(old, new, 1)
        open(p, "w", encoding="utf-8").write(s)
        r = subprocess.run([sys.executable, "-m", "checks.run", prop, "--repo", scratch, "--evidence-dir",
                            scratch + "/ev"] + sys.argv[5:], cwd=VERIF, capture_output=True, text=True, check=False)
        out = [l for l in r.stdout.splitlines() if "conda" not in l]
        print("\n".join(l[:260] for l in out[-12:]))
        print("exit", r.returncode)
        return r.returncode
    finally:
        shutil.rmtree(scratch, ignore_errors=True)


if __name__ == "__main__":
    sys.exit(main())
