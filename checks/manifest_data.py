"""Data for MANIFEST.json (see tools_gen_manifest.py)."""


def chk(pid, category, text, note, technique, design_ref):
    return {
        "property_id": pid,
        "quick_cmd": f"python3-vt -m checks.run {pid} --tier quick",
        "thorough_cmd": f"python3-vt -m checks.run {pid} --tier thorough",
        "evidence_file": f"/verif/evidence/{pid}.json",
        "replay_cmd_template": f"python3-vt -m checks.run {pid} --replay {{path}}",
        "engine": "pyvc",
        "level_claimed": {"category": category, "text": text, "design_ref": design_ref},
        "level_note": note,
        "technique": technique,
    }


REALS = "floats as mathematical reals; assumed library models listed in evidence.coverage.trusted_base; the VC generator's encoding of Python semantics (DESIGN 2.1, 2.10)"

CHECKS = [
    chk("C03", "proof",
        "Deductive proof, for all inputs and any number of proposals, that the target computed by the real "
        "Matryoshka._calc_target_power is zero or inside the system inclusion bounds and outside the exclusion zone: "
        "contracts on the three _bounds functions and a loop invariant for the priority sweep, discharged by z3.",
        REALS, "contract-based deductive verification (AST->VC generator, z3)", "DESIGN.md 3 (C03)"),
]

_PENDING = "check under construction in this session (contracts not yet written); will be claimed once its obligations discharge"
NOT_APPLICABLE = [
    {"property_id": "C12", "reason": "formula generators are graph algorithms over networkx.DiGraph (recursive dfs, successor-set classification); no contract within reach of the VC generator expresses 'the generated formula balances for every valid graph' (DESIGN.md 4)"},
] + [{"property_id": f"C{n:02d}", "reason": _PENDING} for n in (1, 2, 4, 5, 6, 7, 8, 9, 10, 11, 13, 14, 15, 16, 17, 18, 19, 20)]
