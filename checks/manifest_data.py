"""Data for MANIFEST.json (see tools_gen_manifest.py)."""


def chk(pid, category, text, note, technique, design_ref):
    return {
        "property_id": pid,
        "quick_cmd": f"python3-vt -m checks.run {pid} --tier quick",
        "thorough_cmd": f"python3-vt -m checks.run {pid} --tier thorough",
        "evidence_file": f"/verif/evidence/{pid}.json",
        "replay_cmd_template": f"python3-vt -m checks.run {pid} --replay {{path}}",
        "engine": "pyvc",
        "level_claimed": {"category": category, "text": text, "design_ref": design_ref},
        "level_note": note,
        "technique": technique,
    }


REALS = "floats as mathematical reals; assumed library models listed in evidence.coverage.trusted_base; the VC generator's encoding of Python semantics (DESIGN 2.1, 2.10)"

CHECKS = [
    chk("C03", "proof",
        "Deductive proof, for all inputs and any number of proposals, that the target computed by the real "
        "Matryoshka._calc_target_power is zero or inside the system inclusion bounds and outside the exclusion zone: "
        "contracts on the three _bounds functions and a loop invariant for the priority sweep (which also visits the proposals in "
        "the strict order of Proposal.__lt__: history-freedom), the bucket algebra of calculate_target_power, and expiry "
        "(drop_old_proposals removes exactly the proposals older than the maximum age), discharged by z3. "
        "A bounded native explorer on the real objects runs alongside as a second, structure-independent line of detection (labelled bounded in the evidence; not part of the proof, never counted in obligations/discharged).",
        REALS + "; uniqueness of a strictly ordered arrangement of a finite set assumed (mathematical fact)",
        "contract-based deductive verification (AST->VC generator, z3)", "DESIGN.md 3 (C03)"),
    chk("C04", "proof",
        "Deductive proof that both sweeps (the target sweep and get_status) compute the same documented recurrences - running "
        "range G and running target T, written from the property statement - for any number of conflict-free proposals: the "
        "range reported to an actor is exactly the range in which its preferred power is clamped, and adjust_to_bounds is that clamp.",
        REALS + "; conflict-free regime and exclusion-inside-inclusion required (the property's quantifier); sorted() modelled as a permutation ordered by the real __lt__ (proved a strict total order on keys)",
        "contract-based deductive verification with ghost recurrences and loop invariants (z3)", "DESIGN.md 3 (C04)"),
    chk("C11", "proof",
        "Deductive proof that PowerManagingActor._calculate_target_power returns stored regular target + stored operating-point "
        "target, inside the system inclusion bounds, in all three branches, against the proved contract of "
        "Matryoshka.calculate_target_power (None = unchanged); _send_updated_target_power sends exactly that value; the event loop "
        "_run sends requests only through that path (a PartialFailure triggers one recomputation, never a re-send) and the expiry "
        "timer's drop_old_proposals keeps buckets and stored targets. Found and repaired a genuine defect (fix: commit in /repo).",
        REALS + "; event-sequence quantifier carried by a class invariant required and proved preserved; frequenz.channels select/Timer "
        "assumed; one component group and one priority (structural bound); the bounds-tracker task and _send_reports not under contract",
        "contract-based deductive verification (z3), modular over Matryoshka's contracts", "DESIGN.md 3 (C11)"),
    chk("C13", "proof",
        "Deductive proof in IEEE-754 binary64 (z3 FloatingPoint) that every formula step pops/pushes exactly as documented, "
        "never raises on any float operands, and yields NaN when either operand is NaN (min/max in both operand orders, "
        "division by zero -> non-finite); MetricFetcher.apply's None/NaN/inf -> 0.0 or NaN mapping. Found and repaired two "
        "genuine defects (fix: commits in /repo). "
        "A bounded native explorer on the real objects runs alongside as a second, structure-independent line of detection (labelled bounded in the evidence; not part of the proof, never counted in obligations/discharged).",
        "z3's FloatingPoint theory = IEEE binary64 = python float; python max/min/ZeroDivisionError semantics as modelled (probed natively on every run); "
        "the evaluator's final NaN/inf -> None mapping and whole-expression composition are not yet under contract",
        "contract-based deductive verification in IEEE float mode (z3 FP theory)", "DESIGN.md 3 (C13)"),
    chk("C16", "proof",
        "Deductive proof of every synchronous handler of BatteryStatusTracker, BlockingStatus and ComponentPoolStatus: a stream's "
        "flag is true exactly if the handled message is fresh and fully healthy; expiry handlers clear it; WORKING/UNCERTAIN "
        "only with both flags; UNCERTAIN iff blocked; back-off doubles up to the maximum and resets; notifications only on "
        "change; uncertain components only as fallback. The select loop _run (loop invariant + per-iteration transition clauses): "
        "every event goes to its handler, the status is re-evaluated after each, exactly the changes are sent, and a data timer "
        "that fires while its own stream is stale marks that stream incorrect.",
        "frequenz.channels select()/selected_from assumed (any order and number of events); the pool tracker's update loop is under "
        "contract with its merged status stream scripted; library timers assumed "
        "to fire max_data_age after the last reset; datetime.now() modelled as arbitrary non-decreasing instants; library enum "
        "member lists declared in the sidecar and probed natively on every run",
        "contract-based deductive verification of atomic handlers (z3), class-invariant style", "DESIGN.md 3 (C16)"),
    chk("C07", "proof",
        "Deductive proof (integer microsecond arithmetic) that the first window end is after creation, at most two periods later and on "
        "the align_to grid, and - by a loop invariant over all ticks of Resampler.resample - that _window_end advances by exactly one "
        "period per tick and every series is asked exactly once per tick for exactly that window end, independent of the clock, "
        "of timer lateness and of failing sinks. "
        "A bounded native explorer on the real objects runs alongside as a second, structure-independent line of detection (labelled bounded in the evidence; not part of the proof, never counted in obligations/discharged).",
        "Timer(TriggerAllMissed) modelled as an arbitrary stream of ticks (one per elapsed period: library behaviour, assumed); series are "
        "scripted collaborators recording the timestamps requested; up to two series (structural bound), unbounded ticks; __init__'s "
        "timer alignment hack and add/remove_timeseries not under contract; a bounded native run of the same contract on the real "
        "event loop is reported separately",
        "contract-based deductive verification with loop invariant over an async tick stream (z3, LIA/NIA)", "DESIGN.md 3 (C07)"),
    chk("C08", "proof",
        "Deductive proof over buffers of any length: _ResamplingHelper's invariant (buffer time-sorted, within maxlen) is preserved by "
        "add_sample / _update_source_sample_period / _update_buffer_len; resample(T) hands the user's function exactly the contiguous "
        "run of buffered samples stamped in (T - max_age*max(period, input period), T], starting at the first relevant one, nothing "
        "relevant left out, nothing from the future, and the value is None iff nothing is relevant; _receive_samples never buffers "
        "None/NaN samples. Found and repaired a genuine defect (fix: commit in /repo).",
        "bisect/islice/deque(maxlen) by their documented contracts; input time-ordered (the property's quantifier) is the class "
        "invariant; timedelta*float rounds half-even; the user's resampling function and the sample source are scripted collaborators",
        "contract-based deductive verification with quantified array invariants (z3)", "DESIGN.md 3 (C08)"),
    chk("C18", "proof",
        "Deductive proof for any set of batteries iterated in arbitrary order: loop invariants tie SoCCalculator / CapacityCalculator's "
        "running sums to ghost recurrences written from the documented formulas; result None iff no working battery has all "
        "metrics; SoC in [0, 100] and equal to used/total; lemmas (one by induction over the batteries): rescaled SoC bounded "
        "and monotone, pool SoC non-decreasing in every battery's SoC, weights scale linearly with capacity. "
        "A bounded native explorer on the real objects runs alongside as a second, structure-independent line of detection (labelled bounded in the evidence; not part of the proof, never counted in obligations/discharged).",
        "floats as reals (math.isclose by its definition); capacity >= 0, lower <= upper limit; scale invariance of the quotient only "
        "per battery; metric fetcher's NaN dropping and cache eviction not under contract",
        "contract-based deductive verification: loop invariants + ghost recurrences + induction lemmas (z3, NRA)", "DESIGN.md 3 (C18)"),
    chk("C17", "proof",
        "Deductive proof over symbolic real-valued bounds: BatteryManager._get_bounds has the documented closed forms, its inclusion "
        "bounds equal the advertised ones and its exclusion zone lies inside the advertised one, so _check_request accepts every "
        "non-zero power the advertised bounds admit (both adjust_power settings); PowerBoundsCalculator.calculate computes those "
        "advertised aggregates; an admitted power covers the sum of the groups' minimum powers. "
        "A bounded native explorer on the real objects runs alongside as a second, structure-independent line of detection (labelled bounded in the evidence; not part of the proof, never counted in obligations/discharged).",
        "structural bound (stated in evidence): one or two battery groups, up to two inverters per group, up to three batteries per "
        "group, one fixed topology for PowerBoundsCalculator; all numeric data unbounded; floats as reals - in binary64 the two sides "
        "can differ in the last bits of an edge (recorded known finding C17-float-rounding-at-the-edge, found by the bounded explorer)",
        "contract-based deductive verification (z3, LRA), structural bound on topology", "DESIGN.md 3 (C17)"),
    chk("C14", "proof",
        "Deductive proof of the request scheduler as atomic steps: an arriving request starts a distribution only for a group with no "
        "registered task at all (a finished task whose done-callback is still pending counts as busy), a completion starts the parked "
        "one (preconditions of _process_request, obligations at both call sites); arrivals for a busy group are parked and the "
        "parked request is always the latest (loop invariant over the request stream with a ghost map); at completion - normal or "
        "exceptional - the parked request starts at once; other groups are never touched. "
        "A bounded native explorer on the real objects runs alongside as a second, structure-independent line of detection (labelled bounded in the evidence; not part of the proof, never counted in obligations/discharged).",
        "asyncio.create_task / done-callback behaviour assumed (callback exactly once after completion); two disjoint groups; "
        "scripted component manager; liveness reduced to safety + 'every distribution task finishes'; requests compared by content",
        "contract-based deductive verification of atomic steps with class invariant and ghost state (z3)", "DESIGN.md 3 (C14)"),
    chk("C15", "proof",
        "Deductive proof, for every assignment of an outcome (success / out-of-range / client error / unexpected exception / no reply "
        "before the timeout) to every set_power call, that battery and PV results satisfy succeeded + failed + excess = requested, "
        "with disjoint exhaustive component sets, failed power = sum of failed set-points, one API call per set-point with exactly "
        "that power. Found and repaired a genuine defect in the PV manager (fix: commit in /repo). "
        "A bounded native explorer on the real objects runs alongside as a second, structure-independent line of detection (labelled bounded in the evidence; not part of the proof, never counted in obligations/discharged).",
        "asyncio task model (create_task/wait(timeout)/cancel/gather) assumed; API client, connection manager, status tracker, "
        "results sender are scripted collaborators; structural bound: two inverters per pool; floats as reals",
        "contract-based deductive verification with a task/exception-outcome model (z3)", "DESIGN.md 3 (C15)"),
    chk("C10", "proof",
        "Deductive proof of the restart policy (loop invariant over any sequence of outcomes of the run logic: re-invoked after an "
        "Exception while the limit allows, never after return / cancellation / other BaseException), of start()'s idempotence, "
        "cancel() and stop() - stop() under interference at its awaits (a task added meanwhile). One genuine defect is recorded as "
        "a known finding (stop() returns while a task added during the wait is still running) with a native witness. "
        "A bounded native explorer on the real objects runs alongside as a second, structure-independent line of detection (labelled bounded in the evidence; not part of the proof, never counted in obligations/discharged).",
        "asyncio task model assumed (incl. wait(FIRST_COMPLETED)); run logic is a scripted collaborator; interference bounded to one added "
        "task; run(*actors) for two actors; the restart delay is the actor's own RESTART_DELAY; wait() alone, cancel_and_await not under contract",
        "contract-based deductive verification with loop invariant, exception-outcome model and rely (interference) at awaits (z3)",
        "DESIGN.md 3 (C10)"),
    chk("C19", "proof",
        "Deductive proof of MetricFetcher's primary/fallback switching against scripted streams on a common grid: forward-only "
        "synchronisation of the fallback stream up to the primary sample's timestamp (loop invariant), invalid primary sample replaced "
        "by the fallback sample of the same timestamp, valid primary used, fallback started lazily and once, failing primary falls "
        "through to the fallback, and no other exception escapes. Found and repaired a genuine defect (fix: commit in /repo); a second one "
        "- a multi-term formula stays misaligned after a term's primary stream is closed - was found by the bounded explorer and is a "
        "recorded known finding (the proof is per term and says nothing about the other terms of the formula). "
        "A bounded native explorer on the real objects runs alongside as a second, structure-independent line of detection (labelled bounded in the evidence; not part of the proof, never counted in obligations/discharged).",
        "channel behaviour (receive returns the next sample or raises) is the scripted stream model; timestamps as integer grid ticks; "
        "IEEE doubles for sample values; FallbackFormulaMetricFetcher's lazy engine creation not under contract",
        "contract-based deductive verification with scripted stream collaborators and exception tables (z3)", "DESIGN.md 3 (C19)"),
    chk("C06", "proof",
        "Deductive proof of FormulaEvaluator.apply (initial synchronisation inlined) against scripted input streams with arbitrary first "
        "timestamps: the steps read exactly the samples stamped with the emitted timestamp; the first run lands on the latest first "
        "timestamp without reading beyond it; afterwards timestamps advance by one step, none skipped or repeated (class invariant "
        "'aligned'). FormulaEngine3Phase._run never mixes timestamps, whatever the first timestamps of its phase streams (outer loop "
        "invariant + invariant of the alignment loop); the unaligned start was a genuine defect, repaired (fix: commit in /repo). "
        "A bounded native explorer on the real objects runs alongside as a second, structure-independent line of detection (labelled bounded in the evidence; not part of the proof, never counted in obligations/discharged).",
        "stream/channel model assumed (per-stream in-order delivery of first + k*step; interleavings irrelevant under it); two input "
        "streams (structural bound); FormulaEngine._run not under contract",
        "contract-based deductive verification with class invariant over scripted streams (z3)", "DESIGN.md 3 (C06)"),
    chk("C09", "other",
        "Two parts, reported separately in the evidence. Proved deductively: the slot arithmetic (normalize_timestamp = nearest grid "
        "slot with ties to even, wrap = slot mod capacity). Bounded only (labelled, not counted as proved): the real OrderedRingBuffer "
        "against an abstract sliding time-indexed map over all update histories of a small scope plus seeded random longer ones, "
        "including datetime/index window queries, and the real MovingWindow (alignment on and off the epoch grid, at(), window(), "
        "oldest/newest) against the same map. The bounded part found genuine defects in window(), MovingWindow.at() and count_covered() (non-binary sampling periods), repaired by "
        "three fix: commits.",
        "gap-list maintenance, window assembly and MovingWindow are outside the verifier's subset (in-place mutation of aliased objects, "
        "numpy, tasks): only the stated bounded scope is covered for them; even-microsecond periods for the proof",
        "contract-based deductive verification of the index arithmetic + bounded native exploration of the real class (stand-in)",
        "DESIGN.md 3 (C09)"),
    chk("C05", "exploration",
        "Bounded exploration (stand-in, not a proof): every flat expression with up to 4 operands and one parenthesised pair, seeded "
        "random nested formula strings and seeded random composition-API trees (min/max/consumption/production/constants) are "
        "compiled by the real Tokenizer / FormulaBuilder / HigherOrderFormulaBuilder, executed on a float stack and compared with exact "
        "Fraction arithmetic under ordinary precedence. The steps' stack effects and operand order are proved deductively (IEEE mode).",
        "compiler correctness over all programs is not proved (needs a parse-forest invariant and re-association over the reals); the "
        "explored shapes and value lattice are stated in the evidence",
        "bounded exploration of the real compiler against an exact oracle (stand-in) + deductive step contracts (z3 FP)",
        "DESIGN.md 3 (C05)"),
    chk("C01", "other",
        "Two parts, reported separately. Proved deductively (symbolic reals, every iteration order of inverter sets): greedy top-up "
        "conserves power within caps, the per-inverter split never hands out more than the set got, zero requests give zeros, both "
        "directions hand the main allocation a positive magnitude. Bounded only: the main allocation loop and the end-to-end identity "
        "set-points + remainder = request, on seeded random consistent configurations; genuine defects found there are recorded as "
        "known findings C01-A / C01-B with native witnesses.",
        "main allocation (_distribute_power) is not proved: its contract is assumed at call sites; structural bound (two groups) for the "
        "proved helpers; floats as reals",
        "contract-based deductive verification of the helper functions + bounded native exploration of the main loop (stand-in)",
        "DESIGN.md 3 (C01/C02)"),
    chk("C02", "other",
        "Proved deductively: per-inverter set-points are zero or within that inverter's exclusion/inclusion magnitudes; inverter "
        "inclusion bounds are clipped by the battery's; top-up never exceeds a set's inclusion bound. Bounded only: group totals vs "
        "battery bounds and 'no SoC headroom => zero' for the main allocation; known findings C02-C, C02-D (and C01-B) with witnesses.",
        "main allocation not proved; structural bound (two groups) for the proved helpers; floats as reals",
        "contract-based deductive verification of the helper functions + bounded native exploration of the main loop (stand-in)",
        "DESIGN.md 3 (C01/C02)"),
    chk("C20", "other",
        "Two parts, reported separately. Proved deductively (per call, all inputs): add_metric ignores unknown components; a request "
        "for an already subscribed channel changes nothing and does not restart the streaming task; a new request is appended once "
        "behind the unchanged existing ones and the component's task is replaced by exactly one new pending task, the old one being "
        "asked to cancel. Bounded only (labelled, never counted as proved): exactly-once in-order delivery on every subscribed stream "
        "across the cancel/recreate hand-over, explored on the real MicrogridApiSource with real channels and a scripted API client.",
        "the whole-history clause (no loss/duplication/reordering across hand-over) is only explored on the stated bounded scope; "
        "_handle_data_stream is outside the verifier's subset; one component / one metric id in the proof; category lookup and channel "
        "naming by assumed contract",
        "contract-based deductive verification of the subscription bookkeeping + bounded native exploration of the hand-over (stand-in)",
        "DESIGN.md 3 (C20)"),
]

_PENDING = "check under construction in this session (contracts not yet written); will be claimed once its obligations discharge"
NOT_APPLICABLE = [
    {"property_id": "C12", "reason": "formula generators are graph algorithms over networkx.DiGraph (recursive dfs, successor-set classification); no contract within reach of the VC generator expresses 'the generated formula balances for every valid graph' (DESIGN.md 4)"},
]
