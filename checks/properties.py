"""Registry: which contracts, lemmas and bounded stand-ins decide which property."""

PM = "frequenz.sdk.microgrid._power_managing"
FS = "frequenz.sdk.timeseries.formula_engine._formula_steps"
RS = "frequenz.sdk.timeseries._resampling"
BPM = "frequenz.sdk.timeseries.battery_pool._metric_calculator"
PVM = "frequenz.sdk.microgrid._power_distributing._component_managers._pv_inverter_manager._pv_inverter_manager:PVManager"
ALGC = "frequenz.sdk.microgrid._power_distributing._distribution_algorithm._battery_distribution_algorithm:BatteryDistributionAlgorithm"
RBUF = "frequenz.sdk.timeseries._ringbuffer.buffer:OrderedRingBuffer"
DSRC = "frequenz.sdk.microgrid._data_sourcing.microgrid_api_source:MicrogridApiSource"
FEV = "frequenz.sdk.timeseries.formula_engine._formula_evaluator"
FENG = "frequenz.sdk.timeseries.formula_engine._formula_engine"
ACTM = "frequenz.sdk.actor._actor"
BGSM = "frequenz.sdk.actor._background_service"
PDA = "frequenz.sdk.microgrid._power_distributing.power_distributing:PowerDistributingActor"
BMGR = "frequenz.sdk.microgrid._power_distributing._component_managers._battery_manager:BatteryManager"
ALGO = "frequenz.sdk.microgrid._power_distributing._distribution_algorithm._battery_distribution_algorithm"
CSM = "frequenz.sdk.microgrid._power_distributing._component_status"
BT = f"{CSM}._battery_status_tracker:BatteryStatusTracker"

REALS = "assume:python floats are treated as mathematical reals (rounding, NaN and overflow are not modelled)"
EXTRACTION = ("extraction: the verified text is the function's AST re-read from /repo on every run; dropped: "
              "docstrings, annotations, logging calls, typing.cast")

C03_ASSUME = [REALS, EXTRACTION]

PM_MODULES = ["pm_bounds", "pm_matryoshka"]
PM_BOUNDS = [
    f"{PM}._bounds:check_exclusion_bounds_overlap",
    f"{PM}._bounds:adjust_exclusion_bounds",
    f"{PM}._bounds:clamp_to_bounds",
]
MAT = f"{PM}._matryoshka:Matryoshka"

PROPS = {
    "C03": dict(
        modules=PM_MODULES,
        contracts=PM_BOUNDS + [
            f"{MAT}._calc_target_power",
            f"{MAT}.calculate_target_power",
            f"{MAT}.get_target_power",
            f"{MAT}.drop_old_proposals",
            f"{MAT}.__init__",
        ],
        lemmas=["proposal_eq_is_key_equality", "proposal_hash_respects_eq", "proposal_lt_strict_total_order_on_keys"],
        bounded=[dict(kind="native_script", name="history-freedom on the real Matryoshka: every arrival order and replacement history "
                                                 "of a proposal set (ties included) gives one target",
                      module="native.explore_matryoshka")],
        level="proof",
        explanation="Envelope: contracts on the three _bounds functions and an inductive invariant for the priority sweep "
                    "(any number of proposals). History-freedom: _calc_target_power is proved pure (frame) and "
                    "calculate_target_power is proved to keep bucket' = (bucket minus same-key) + proposal (sets of "
                    "proposals modelled as finite maps keyed by (priority, source_id), justified by a lemma about the "
                    "real __eq__), to store exactly the callee's value, and to leave other groups alone; __lt__ is proved "
                    "a strict total order on keys, and the sweep is proved to visit the proposals in exactly that strict order. Expiry: "
                    "drop_old_proposals is proved (two loop invariants with a ghost index list) to remove exactly the proposals "
                    "older than the maximum age and to leave every other proposal, the bucket and the stored target alone.",
        assumptions=[REALS, EXTRACTION,
                     "assume: a strictly ordered arrangement of a finite set under a strict total order is unique "
                     "(mathematical fact, not re-proved); with the proved purity of _calc_target_power this gives "
                     "'the target is a function of the set of live proposals'"],
    ),
    "C04": dict(
        modules=PM_MODULES + ["pm_actor"],
        contracts=PM_BOUNDS + [
            f"{MAT}._calc_target_power#c04",
            f"{MAT}.get_status",
            f"{MAT}.get_status#c04",
            f"{MAT}.calculate_target_power",
            # ... and what expiry leaves behind: the bucket stays (possibly empty), so the next recalculation sees "no
            # live proposal" instead of "never had one" and resets the stored target
            f"{MAT}.drop_old_proposals",
            f"{PM}._base_classes:_Report.adjust_to_bounds",
            "frequenz.sdk.timeseries.battery_pool._battery_pool:BatteryPool.propose_power",
            "frequenz.sdk.timeseries.battery_pool._battery_pool:BatteryPool.propose_charge",
            "frequenz.sdk.timeseries.battery_pool._battery_pool:BatteryPool.propose_discharge",
        ],
        lemmas=["proposal_eq_is_key_equality", "proposal_hash_respects_eq", "proposal_lt_strict_total_order_on_keys"],
        bounded=[],
        level="proof",
        explanation="Ghost recurrences written from the property statement - G (running range: intersect with each higher "
                    "priority's bounds, carve the exclusion zone) and T (running target: nearest usable value to the latest "
                    "stated preference) - are proved to be what BOTH sweeps compute (loop invariants over any number of "
                    "proposals): _calc_target_power returns T(n), get_status(priority) reports exactly G(k) for k = number "
                    "of strictly higher proposals, and adjust_to_bounds is clamp_to_bounds on that range. calculate_target_power "
                    "(C03's contract) keeps the bucket both sweeps read at (bucket minus same key) + the proposal, so a "
                    "higher-priority proposal cannot be dropped on its way in.",
        assumptions=[REALS, EXTRACTION,
                     "regime: proved for conflict-free proposal sets (C04's quantifier) with the exclusion zone inside "
                     "the inclusion range (documented SystemBounds invariant)"],
    ),
    "C11": dict(
        modules=PM_MODULES + ["pm_actor"],
        contracts=[
            f"{MAT}.calculate_target_power#c11",
            # the sweep whose result is stored and sent (C04's recurrence contract: also decides degenerate bounds lower == upper)
            f"{MAT}._calc_target_power#c04",
            f"{MAT}.get_target_power",
            # the expiry event: the class invariant 'a stored target has a bucket' must survive drop_old_proposals
            f"{MAT}.drop_old_proposals",
            f"{PM}._power_managing_actor:PowerManagingActor._calculate_shifted_bounds",
            f"{PM}._power_managing_actor:PowerManagingActor._calculate_target_power",
            f"{PM}._power_managing_actor:PowerManagingActor._send_updated_target_power",
            f"{PM}._power_managing_actor:PowerManagingActor._run",
            f"{PM}._power_managing_actor:PowerManagingActor._bounds_tracker",
        ],
        lemmas=["proposal_eq_is_key_equality", "proposal_hash_respects_eq", "proposal_lt_strict_total_order_on_keys"],
        bounded=[],
        level="proof",
        explanation="_calculate_target_power is verified against Matryoshka.calculate_target_power's contract (None = stored "
                    "target unchanged; returned value = stored target; stored target inside the bounds it was computed "
                    "against): the value to send equals stored regular target + stored operating-point target and lies in "
                    "the system inclusion bounds, in all three branches.",
        assumptions=[REALS, EXTRACTION,
                     "history quantifier: carried by the class invariant 'a stored target has a bucket' (required, and "
                     "proved preserved) - the event loop _run is proved (frequenz.channels select()/selected_from and Timer assumed, "
                     "events in any order and number, one component group and one priority as structural bound) to send "
                     "requests only through _send_updated_target_power, which recomputes from the current state; the expiry "
                     "timer's drop_old_proposals is proved to keep buckets and stored targets",
                     "_bounds_tracker is proved to cache every received bounds message and to recompute once; not under contract: "
                     "_add_system_bounds_tracker (which pool's bounds stream is subscribed) and _send_reports"],
    ),
    "C13": dict(
        modules=["fe_steps", "fe_evaluator"],
        contracts=[f"{FS}:{c}.apply" for c in ("Adder", "Subtractor", "Multiplier", "Divider", "Maximizer", "Minimizer",
                                               "Consumption", "Production", "Clipper", "ConstantValue", "MetricFetcher")]
                  + [f"{FEV}:FormulaEvaluator.apply#c13"],
        lemmas=[],
        bounded=[dict(kind="native_script", name="whole expressions: output None iff a needed input is missing or the result is undefined",
                      module="native.explore_formulas"),
                 dict(kind="native_script", name="missing values in time on the real FormulaEngine: streams starting at different steps, "
                                                 "one None sample; output None exactly when an input of its own timestamp is missing",
                      module="native.explore_evaluator")],
        level="proof",
        explanation="Every formula step's apply() is verified in IEEE-754 binary64 (z3 FloatingPoint theory, python's max/min "
                    "and ZeroDivisionError semantics): a NaN operand in either position gives NaN, no step raises on any float "
                    "operands, the stack effect is exact; MetricFetcher.apply pushes 0.0 / NaN / base_value as documented.",
        assumptions=[EXTRACTION, "IEEE-754 binary64 with round-to-nearest-even as implemented by z3's FloatingPoint theory; "
                     "python float == C double"],
    ),
    "C16": dict(
        modules=["pd_status"],
        contracts=[f"{BT}._is_capacity_present", f"{BT}._no_critical_error", f"{BT}._no_critical_error#inverter",
                   f"{BT}._is_battery_state_correct", f"{BT}._is_inverter_state_correct", f"{BT}._is_message_reliable",
                   f"{BT}._handle_status_battery", f"{BT}._handle_status_inverter",
                   f"{BT}._handle_status_battery_timer", f"{BT}._handle_status_inverter_timer",
                   f"{BT}._get_current_status", f"{BT}._get_new_status_if_changed",
                   f"{BT}._handle_status_set_power_result", f"{BT}._run",
                   f"{CSM}._blocking_status:BlockingStatus.block", f"{CSM}._blocking_status:BlockingStatus.unblock",
                   f"{CSM}._blocking_status:BlockingStatus.is_blocked",
                   f"{CSM}._component_status:ComponentPoolStatus.get_working_components",
                   "frequenz.sdk.microgrid._power_distributing._component_pool_status_tracker:ComponentPoolStatusTracker._update_status",
                   "frequenz.sdk.microgrid._power_distributing._component_pool_status_tracker:ComponentPoolStatusTracker."
                   "_make_merged_status_receiver"],
        lemmas=[],
        bounded=[],
        level="proof",
        explanation="All handlers of BatteryStatusTracker are synchronous (atomic steps). Each is verified: the per-stream flag is "
                    "true exactly if the handled message is fresh, operational, relay closed, without critical error and with "
                    "a capacity; expiry handlers clear it; the status is WORKING/UNCERTAIN only if both flags hold; "
                    "UNCERTAIN iff blocked; BlockingStatus.block doubles up to the maximum and resets; notifications only "
                    "on change; uncertain components only as fallback. The select loop _run dispatches every event to its handler, "
                    "re-evaluates the status after each handled event, sends exactly the changes, and a data timer firing while "
                    "its own stream is stale marks that stream incorrect (status NOT_WORKING).",
        assumptions=[EXTRACTION,
                     "capacity is an IEEE double (NaN modelled); times are integer microseconds",
                     "the select() loop of _run is under contract with frequenz.channels.select / selected_from assumed (select "
                     "yields items of its five sources in any order and number; selected_from identifies the producing source): "
                     "loop invariant + per-iteration transition clauses (dispatch, staleness guard of both data timers, "
                     "notification iff the status changed)",
                     "ComponentPoolStatusTracker._update_status under contract (merged status stream scripted); freshness BETWEEN events rests on the "
                     "library timers firing max_data_age after their last reset"],
    ),
    "C07": dict(
        modules=["ts_resampler"],
        contracts=[f"{RS}:Resampler._calculate_window_end", f"{RS}:Resampler.resample"],
        lemmas=[],
        bounded=[dict(kind="contract_search", name="Resampler.resample on the real event loop (scripted timer/helpers)",
                      target=f"{RS}:Resampler.resample", contract_module="contracts.ts_resampler", budget_s=6,
                      thorough_budget_s=40),
                 dict(kind="native_script", name="MovingWindow hands its ResamplerConfig to its resampler unchanged",
                      module="native.explore_mw_config"),
                 dict(kind="native_script", name="error and housekeeping paths on the real Resampler (simulated clock): a closing source "
                                                 "removed by the caller, samples without a value, duplicate registration",
                      module="native.explore_resampler")],
        level="proof",
        explanation="_calculate_window_end: integer (microsecond) arithmetic proof that the first window end is after now, at "
                    "most two periods away, on the align_to grid, and that the timer delay is the gap to the grid. "
                    "resample(): loop invariant over ALL ticks - _window_end = W0 + n*period and every series was asked "
                    "exactly once per tick for exactly the previous window end - independent of the clock, of the drift the "
                    "timer reports and of exceptions from sinks.",
        assumptions=[EXTRACTION, "datetime/timedelta as integer microseconds",
                     "model: Timer(TriggerAllMissed) yields one item per elapsed period (an arbitrary stream of drifts)",
                     "structural bound: up to two series in the resampler (all series are handled by one comprehension); "
                     "the number of ticks is unbounded",
                     "not under contract: Resampler.__init__ (timer start alignment), add/remove_timeseries"],
    ),
    "C08": dict(
        modules=["ts_resampling_helper"],
        contracts=[f"{RS}:_ResamplingHelper.add_sample", f"{RS}:_ResamplingHelper._update_source_sample_period",
                   f"{RS}:_ResamplingHelper._update_buffer_len", f"{RS}:_ResamplingHelper.resample",
                   f"{RS}:_StreamingHelper._receive_samples"],
        lemmas=[],
        bounded=[],
        level="proof",
        explanation="Class invariant of _ResamplingHelper (buffer sorted by time, within maxlen) preserved by every method; "
                    "resample(T) hands the user's function exactly the contiguous run of buffered samples stamped in "
                    "(T - max_age*max(period, input period), T], starting at the first relevant one, none left out, none "
                    "from the future; value None iff nothing relevant.",
        assumptions=[EXTRACTION, "datetime/timedelta as integer microseconds; timedelta*float rounds half-even",
                     "bisect / islice / deque(maxlen) by their documented contracts (trusted_base)",
                     "the user's resampling function is a scripted callable that records its argument"],
    ),
    "C18": dict(
        modules=["bp_metrics"],
        contracts=[f"{BPM}:CapacityCalculator.calculate", f"{BPM}:SoCCalculator.calculate",
                   "frequenz.sdk.timeseries.battery_pool._methods:SendOnUpdate.update_working_batteries",
                   "frequenz.sdk.timeseries.battery_pool._battery_pool:BatteryPool.soc",
                   "frequenz.sdk.timeseries.battery_pool._battery_pool:BatteryPool.capacity"],
        lemmas=["scaled_soc_is_monotone_and_bounded", "usable_capacity_scales_linearly",
                "pool_soc_is_monotone_in_every_battery_soc"],
        bounded=[dict(kind="native_script", name="a NaN metric (any NaN object) is dropped by the real LatestBatteryMetricsFetcher and never "
                                                 "reaches the pool aggregate", module="native.explore_pool_fetcher")],
        level="proof",
        explanation="Loop invariants over any set of batteries (iterated in arbitrary order): the running sums equal the ghost "
                    "recurrences written from the documented formulas (usable capacity = capacity*(hi-lo)/100; SoC rescaled to "
                    "the limits and clamped); result None iff no working battery has all required metrics; SoC within [0, 100] "
                    "and equal to used/total (0 for a zero-capacity pool).",
        assumptions=[REALS, EXTRACTION, "capacity >= 0 and lower limit <= upper limit per battery (the property's quantifier)",
                     "scale invariance of the pool SoC: proved per battery (weight scales linearly, rescaled SoC unchanged); "
                     "the step to the quotient of the two sums is distributivity and is not machine-checked (the inductive "
                     "version went `unknown`: nonlinear arithmetic under quantifiers)",
                     "SendOnUpdate.update_working_batteries under contract for the working set and the recalculation request "
                     "(cache and battery-inverter map are scripted collaborators: which cache entries are evicted is not stated)",
                     "LatestMetricsFetcher.fetch_next (NaN metrics dropped) only by a bounded native run; SendOnUpdate._update_and_notify "
                     "not under contract"],
    ),
    "C17": dict(
        modules=["pd_bounds"],
        contracts=[f"{BMGR}._get_bounds#one_group", f"{BMGR}._get_bounds#two_groups",
                   f"{BMGR}._check_request#one_group", f"{BMGR}._check_request#two_groups",
                   f"{ALGO}:_aggregate_battery_power_bounds#n1", f"{ALGO}:_aggregate_battery_power_bounds#n2",
                   f"{ALGO}:_aggregate_battery_power_bounds#n3", f"{ALGO}:AggregatedBatteryData.__init__",
                   f"{BPM}:PowerBoundsCalculator.calculate", f"{BPM}:PowerBoundsCalculator.inverter_metrics",
                   f"{BPM}:PowerBoundsCalculator.battery_metrics"],
        lemmas=["advertised_power_covers_every_group_minimum"],
        bounded=[dict(kind="native_script", name="same readings on both sides: the real metric fetchers hand every finite reading on "
                                                 "unchanged (non-integer bounds included)", module="native.explore_pool_fetcher"),
                 dict(kind="native_script", name="end to end with history: real BatteryManager next to the real PowerBoundsCalculator through "
                                                 "working-set changes and data updates; advertised powers admitted, inclusion bounds agree",
                      module="native.explore_bounds_agreement"),
                 dict(kind="native_script", name="'... so it can be distributed without entering any exclusion zone': the distribution of "
                                                 "admitted requests (the bound clauses of C02 on the real algorithm)", module="native.explore_distribution",
                      prop="C17")],
        level="proof",
        explanation="For symbolic (real-valued) bounds data: BatteryManager._get_bounds returns the documented closed forms, its "
                    "inclusion bounds are identical to the advertised ones and its exclusion zone lies inside the advertised one; "
                    "_check_request therefore accepts every non-zero power the advertised bounds admit (both adjust_power "
                    "settings); such a power is at least the sum of the groups' minimum powers.",
        assumptions=[REALS, EXTRACTION,
                     "structural bound: one or two battery groups with up to two inverters each, up to three batteries per group "
                     "in _aggregate_battery_power_bounds; all numeric data unbounded",
                     "PowerBoundsCalculator.calculate is verified against the same advertised aggregates for one fixed "
                     "topology (batteries {1,2} behind inverter {11}; battery {3} behind {12,13}), complete data, every "
                     "subset of working batteries; the link between the two formulations of 'advertised' (spec functions "
                     "adv_* over InvBatPair data vs pool_adv over metrics data) is by reading, not machine-checked"],
    ),
    "C14": dict(
        modules=["pd_actor"],
        contracts=[f"{PDA}._process_request", f"{PDA}._process_request#from_run", f"{PDA}._handle_task_completion", f"{PDA}._run",
                   "frequenz.sdk.microgrid._power_wrapper:PowerWrapper._start_power_distributing_actor"],
        lemmas=[],
        bounded=[dict(kind="native_script", name="real PowerDistributingActor with a gated probe manager: seeded schedules of requests, "
                                                 "completions (also failing ones) and same-iteration arrivals", module="native.explore_scheduler")],
        level="proof",
        explanation="The actor's three pieces are verified as atomic steps (none of them awaits between reading and writing the "
                    "two dicts): _process_request starts exactly one distribution and is only legal when none is in flight for "
                    "the group - its precondition is an obligation at both call sites; _run parks a request iff the group is in "
                    "flight and the parked one is always the latest (loop invariant with a ghost `last` map); "
                    "_handle_task_completion starts the parked request at once, whether the finished task returned or "
                    "raised, and never touches another group. PowerWrapper creates and starts the actor once and hands it a "
                    "request receiver with at least the default buffer (back-to-back requests for different groups are not lost).",
        assumptions=[EXTRACTION,
                     "model: asyncio.create_task starts the coroutine and returns a task that is not done; the done-callback "
                     "is invoked exactly once, after the task is done (library behaviour, assumed)",
                     "two component groups (disjoint); the component manager is a scripted collaborator counting "
                     "distribute_power calls; cancellation of a distribution task is outside the property's quantifier",
                     "'eventually applied' is the safety fact 'parked request starts at completion' + the progress assumption "
                     "that every distribution task finishes"],
    ),
    "C15": dict(
        modules=["pd_results"],
        contracts=[f"{BMGR}._parse_result", f"{BMGR}._set_distributed_power", f"{BMGR}._set_distributed_power#assumed_by_distribute",
                   f"{BMGR}._distribute_power", f"{PVM}._set_api_power", f"{PVM}._set_api_power#for_caller",
                   f"{PVM}.distribute_power", f"{PVM}.distribute_power#no_inverters"],
        lemmas=[],
        bounded=[dict(kind="native_script", name="calls that really take time: the real set-power routines of both managers against a "
                                                 "scripted API with reply latencies below / above the timeout",
                      module="native.explore_setpower_timeouts")],
        level="proof",
        explanation="For every assignment of an outcome (success, out-of-range rejection, client error, unexpected exception, no "
                    "reply before the timeout) to each set_power call: _parse_result's failed power is the sum of the failed "
                    "set-points and the failed batteries are those behind the failed inverters; _set_distributed_power issues one "
                    "call per set-point with that power and cancels unanswered calls; _distribute_power's and the PV manager's "
                    "results satisfy succeeded + failed + excess = requested with disjoint, exhaustive component sets.",
        assumptions=[REALS, EXTRACTION,
                     "asyncio.create_task / wait(timeout) / cancel / gather by the task model (trusted_base); the API client, "
                     "connection manager, status tracker and results sender are scripted collaborators",
                     "structural bound: two inverters (batteries {1,2} behind 11, {3} behind 12; PV inverters 21, 22)",
                     "PVManager.distribute_power's water-filling loop (unrolled over the two inverters) is verified to hand "
                     "_set_api_power allocations with allocations + remainder = request (its precondition, an obligation at "
                     "the call site)"],
    ),
    "C10": dict(
        modules=["actor_lifecycle"],
        contracts=[f"{ACTM}:Actor._run_loop", f"{ACTM}:Actor._delay_if_restart", f"{ACTM}:Actor.start", f"{BGSM}:BackgroundService.cancel",
                   f"{BGSM}:BackgroundService.stop", f"{BGSM}:BackgroundService.wait", "frequenz.sdk.actor._run_utils:run"],
        lemmas=[],
        bounded=[dict(kind="native_script", name="restart policy on the real Actor (scripted outcomes, restart limits, second start, "
                                                 "restart delay of a subclass)", module="native.explore_actor"),
                 dict(kind="native_script", name="a real actor of the SDK (the resampling actor with its two internal tasks): stop() returns "
                                                 "only when none of the tasks it spawned is running", module="native.explore_resampler")],
        level="proof",
        explanation="_run_loop: loop invariant (one invocation of the run logic per restart, within the limit) with the run logic as "
                    "a scripted collaborator that may return, raise Exception, be cancelled or raise another BaseException at "
                    "each invocation; exits re-raise without another invocation exactly as documented. start(): idempotent. "
                    "cancel(): every task asked to cancel. stop(): every task spawned before the call is finished on return - "
                    "with interference at awaits (a task may be added while stop() waits): awaited too when the first batch ends "
                    "cleanly, otherwise a known finding. run(*actors): starts exactly the actors that are not running and returns "
                    "only when every waiter finished, whatever the order and outcome.",
        assumptions=[EXTRACTION,
                     "asyncio task model (create_task / wait / cancel / result) assumed; interference: at most one task added "
                     "while stop() awaits; up to two tasks in a service initially",
                     "run(*actors) under contract for two actors (structural bound) with asyncio.wait(FIRST_COMPLETED) assumed to "
                     "return a non-empty set of finished tasks; not under contract: wait() on its own (it is inlined into "
                     "stop()), cancel_and_await, run_forever; 'never runs twice "
                     "concurrently' rests on start()'s idempotence plus _run_loop awaiting each invocation before the next"],
    ),
    "C19": dict(
        modules=["fe_fetcher"],
        contracts=[f"{FS}:MetricFetcher._synchronize_and_fetch_fallback", f"{FS}:MetricFetcher.fetch_next_with_fallback",
                   f"{FS}:MetricFetcher._fetch_next",
                   "frequenz.sdk.timeseries.formula_engine._formula_generators._fallback_formula_metric_fetcher:"
                   "FallbackFormulaMetricFetcher.start",
                   "frequenz.sdk.timeseries.formula_engine._formula_generators._formula_generator:"
                   "FormulaGenerator._get_meter_fallback_components"],
        lemmas=[],
        bounded=[dict(kind="native_script", name="the primary's way into the formula (pool -> resampled builder -> engine): a valid "
                                                 "reading, exactly 0.0 included, reaches the formula as that number",
                      module="native.explore_formula_pool"),
                 dict(kind="native_script", name="switching on the real engine with a real FallbackFormulaMetricFetcher: validity patterns "
                                                 "of the primary, a closing primary stream, fallback inputs ahead / behind / starting late",
                      module="native.explore_fallback")],
        level="proof",
        explanation="MetricFetcher's switching logic against scripted primary/fallback streams on a common grid (timestamps "
                    "counted in grid steps): the fallback stream is read forward until it reaches the primary sample's "
                    "timestamp (loop invariant), an invalid primary sample is replaced by the fallback sample of the same "
                    "timestamp, a valid one is used, the fallback is started lazily and once, a failing primary stream falls "
                    "through to the fallback; no exception other than the streams' own errors escapes.",
        assumptions=[EXTRACTION, "sample values in IEEE mode (NaN / inf are 'missing'); timestamps as integer grid ticks",
                     "streams are scripted collaborators implementing the channel model (receive returns the next sample or "
                     "raises ReceiverStoppedError / ReceiverError)",
                     "the no-loss part of the stream model for the fallback rests on FallbackFormulaMetricFetcher.start() "
                     "subscribing once with at least the engine's default buffer: that is a proved postcondition of start()",
                     "end-to-end 'output equals the true value' additionally needs C05/C06; not re-proved here"],
    ),
    "C06": dict(
        modules=["fe_evaluator", "fe_fetcher"],
        contracts=[f"{FEV}:FormulaEvaluator.apply", f"{FENG}:FormulaEngine3Phase._run",
                   # what a fetcher hands to the evaluator for a timestamp (primary or fallback sample of THAT timestamp)
                   f"{FS}:MetricFetcher._synchronize_and_fetch_fallback", f"{FS}:MetricFetcher.fetch_next_with_fallback",
                   f"{FS}:MetricFetcher._fetch_next"],
        lemmas=[],
        bounded=[dict(kind="native_script", name="real FormulaEngine over real channels: streams starting at different steps, "
                                                 "every sample from inputs of its own timestamp", module="native.explore_evaluator")],
        level="proof",
        explanation="FormulaEvaluator.apply (with _synchronize_metric_timestamps inlined) against two scripted input streams on a "
                    "common grid with arbitrary first timestamps: on return both inputs the steps read are the samples stamped "
                    "with the emitted timestamp; first run lands on the latest first timestamp reading nothing beyond it (loop "
                    "invariant for the drain loop); afterwards timestamps advance by exactly one step and the streams stay "
                    "aligned (class invariant). FormulaEngine3Phase._run: loop invariant 'never mixes timestamps' for phase "
                    "streams with arbitrary first timestamps - the samples held are always the latest read of their streams "
                    "(invariant of the alignment loop) and a message is built only once their timestamps agree.",
        assumptions=[EXTRACTION,
                     "stream model (assumed): each receiver delivers first + k*step in order; delivery interleavings are "
                     "irrelevant under it (receive returns the same sample whatever the interleaving)",
                     "two input streams (structural bound); timestamps counted in grid steps; asyncio.wait(ALL_COMPLETED) model",
                     "not under contract: FormulaEngine._run (one send per successful apply)"],
    ),
    "C09": dict(
        modules=["ts_ringbuffer"],
        contracts=[f"{RBUF}.normalize_timestamp", f"{RBUF}.wrap"],
        lemmas=[],
        bounded=[dict(kind="native_script", name="OrderedRingBuffer vs abstract sliding time-indexed map",
                      module="native.explore_ringbuffer"),
                 dict(kind="native_script", name="MovingWindow (at / window / timestamps, alignment on and off the epoch grid) vs the same map",
                      module="native.explore_movingwindow")],
        level="other",
        explanation="PROVED (deductive, unbounded): normalize_timestamp rounds to the nearest grid slot, ties to the even slot, "
                    "fixed on aligned timestamps; wrap() is the slot modulo the capacity. BOUNDED (never counted as proved): "
                    "the real OrderedRingBuffer is driven through every update history of a small scope and seeded random "
                    "longer ones and compared after every update with an abstract sliding map (rejections, is_missing per slot, "
                    "count_valid, oldest/newest, gap-list sanity) and on datetime (aligned/unaligned) and index window queries.",
        assumptions=[EXTRACTION, "sampling periods with an even number of microseconds (timedelta / 2 is then exact)",
                     "gap-list maintenance (_update_gaps/_cleanup_gaps/_remove_gap: in-place mutation of aliased Gap objects "
                     "while deleting) and window assembly over numpy/list slices are outside the verifier's subset: bounded only",
                     "MovingWindow (alignment pass-through, at(), window(), oldest/newest) only by the second bounded explorer"],
    ),
    "C20": dict(
        modules=["ds_source"],
        contracts=[f"{DSRC}._update_streams", f"{DSRC}.add_metric",
                   "frequenz.sdk.microgrid._data_pipeline:_DataPipeline._data_sourcing_request_sender"],
        lemmas=[],
        bounded=[dict(kind="native_script", name="MicrogridApiSource hand-over: exactly-once in-order delivery across subscription changes",
                      module="native.explore_datasource")],
        level="other",
        explanation="PROVED (deductive, per call): add_metric ignores unknown components, a request naming an already subscribed "
                    "channel changes nothing (no task restart, the running task is not asked to cancel), a new request is appended "
                    "once behind the existing ones (which keep their order) and the component's streaming task is replaced by "
                    "exactly one new pending task while the old one is asked to cancel. BOUNDED (never counted as proved): the "
                    "whole-history part - exactly-once, in-order delivery on every subscribed stream while subscriptions arrive "
                    "between, before and back-to-back with data messages - is explored with the real MicrogridApiSource, real "
                    "channels and event loop and a scripted API client.",
        assumptions=[EXTRACTION, "one component and one metric id in the proof (structural bound; the metric id is only a dict key there); "
                     "component category lookup and channel names by assumed contract (the name is injective in namespace and start "
                     "time for a fixed component and metric)",
                     "_handle_data_stream (TaskGroup fan-out, asyncio.wait bookkeeping, cancellation at every await) is outside the "
                     "verifier's subset: hand-over across cancel/recreate is covered only by the bounded exploration (meter category, "
                     "two metrics, two namespaces, <= 3 messages, 0/1/3/20 loop iterations between events)",
                     "the request channel of the data sourcing actor: _DataPipeline._data_sourcing_request_sender is proved to create "
                     "the actor once and to give it a request receiver with at least the documented buffer (500 requests); larger "
                     "bursts may drop requests in the channel library",
                     "DataSourcingActor._run and the registry are thin wrappers, not under contract"],
    ),
    "C05": dict(
        modules=["fe_steps", "fe_evaluator"],
        contracts=[f"{FS}:{c}.apply" for c in ("Adder", "Subtractor", "Multiplier", "Divider", "Maximizer", "Minimizer",
                                               "Consumption", "Production", "Clipper", "ConstantValue", "MetricFetcher")]
                  + [f"{FEV}:FormulaEvaluator.apply"],      # "... on the input values of the same timestamp"
        lemmas=[],
        bounded=[dict(kind="native_script", name="compiled formula vs exact arithmetic (Tokenizer, FormulaBuilder, composition API)",
                      module="native.explore_formulas"),
                 dict(kind="native_script", name="values of the SAME timestamp: real FormulaEngine over real channels, streams "
                                                 "starting at different steps", module="native.explore_evaluator"),
                 dict(kind="native_script", name="string formulas from one FormulaEnginePool, alone and composed with the operator API",
                      module="native.explore_formula_pool")],
        level="exploration",
        explanation="The property proper (compiler correctness of the shunting-yard with its unconventional precedence table and of "
                    "the composition API's implicit parenthesisation) is only EXPLORED, bounded: real Tokenizer/FormulaBuilder/"
                    "HigherOrderFormulaBuilder output executed on a float stack vs exact Fraction evaluation with ordinary "
                    "precedence. Proved deductively (and listed under obligations): every step's stack effect and operand order.",
        assumptions=[EXTRACTION, "bounded: expression shapes and input lattice as stated in coverage.rule",
                     "a deductive proof would need a grammar-level invariant relating the operator stack to a parse forest plus "
                     "re-association over the reals; not attempted (DESIGN 3, C05)"],
    ),
    "C01": dict(
        modules=["pd_distribution", "pd_results"],
        contracts=[f"{ALGC}._greedy_distribute_remaining_power", f"{ALGC}._distribute_multi_inverter_pairs",
                   f"{ALGC}._inclusion_exclusion_bounds", f"{ALGC}._distribute_consume_power",
                   f"{ALGC}._distribute_supply_power", f"{ALGC}.distribute_power",
                   # "the power reported as set is the power commanded": what the manager reports about a distribution
                   f"{BMGR}._parse_result", f"{BMGR}._set_distributed_power",
                   f"{BMGR}._set_distributed_power#assumed_by_distribute", f"{BMGR}._distribute_power"],
        lemmas=[],
        bounded=[dict(kind="native_script", name="distribute_power: conservation, signs, remainder (C01 clauses)",
                      module="native.explore_distribution")],
        level="other",
        explanation="PROVED (deductive): the helpers around the main allocation - greedy top-up conserves power and respects the "
                    "caps, the split over a set's inverters never hands out more than the set got and keeps every set-point "
                    "in that inverter's bounds (every iteration order of the inverter set), per-direction bounds are the "
                    "documented magnitudes, zero requests give all-zero results, and both directions call the main allocation "
                    "with a positive magnitude. BOUNDED ONLY: the main allocation loop (_distribute_power) and the end-to-end "
                    "conservation identity, by seeded random consistent configurations; four genuine defects are recorded as "
                    "known findings (not small repairs).",
        assumptions=[REALS, EXTRACTION,
                     "structural bound for the proved helpers: two battery groups (1 and 2 inverters)",
                     "_distribute_power's contract is ASSUMED at its call sites (only its precondition is checked there)"],
    ),
    "C02": dict(
        modules=["pd_distribution", "pd_bounds"],
        contracts=[f"{ALGC}._distribute_multi_inverter_pairs", f"{ALGC}._inclusion_exclusion_bounds",
                   f"{ALGC}._greedy_distribute_remaining_power",
                   # admission: what reaches the distribution at all
                   f"{BMGR}._get_bounds#one_group", f"{BMGR}._get_bounds#two_groups",
                   f"{BMGR}._check_request#one_group", f"{BMGR}._check_request#two_groups",
                   # what the algorithm sees of a group of batteries: aggregated SoC (headroom) and power bounds
                   f"{ALGO}:AggregatedBatteryData.__init__", f"{ALGO}:_aggregate_battery_power_bounds#n1",
                   f"{ALGO}:_aggregate_battery_power_bounds#n2", f"{ALGO}:_aggregate_battery_power_bounds#n3"],
        lemmas=[],
        bounded=[dict(kind="native_script", name="distribute_power: per-inverter and per-group bounds, no-headroom groups (C02 clauses)",
                      module="native.explore_distribution")],
        level="other",
        explanation="PROVED (deductive): every set-point produced by the split over a set's inverters is zero or within that "
                    "inverter's [exclusion, inclusion] magnitudes; inverter inclusion bounds are clipped by the battery's; the "
                    "greedy top-up never exceeds a set's inclusion bound; admission (_check_request): a non-zero power strictly "
                    "inside the enforced exclusion zone is rejected in both modes and, without adjust_power, so is any power "
                    "outside the inclusion bounds. BOUNDED ONLY: group totals vs battery bounds and "
                    "'no SoC headroom => zero' on the main allocation (known findings C02-C, C02-D, C01-B).",
        assumptions=[REALS, EXTRACTION, "structural bound for the proved helpers: two battery groups (1 and 2 inverters)"],
    ),
}
