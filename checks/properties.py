"""Registry: which contracts, lemmas and bounded stand-ins decide which property."""

PM = "frequenz.sdk.microgrid._power_managing"

REALS = "assume:python floats are treated as mathematical reals (rounding, NaN and overflow are not modelled)"
EXTRACTION = ("extraction: the verified text is the function's AST re-read from /repo on every run; dropped: "
              "docstrings, annotations, logging calls, typing.cast")

C03_ASSUME = [REALS, EXTRACTION]

PROPS = {
    "C03": dict(
        modules=["pm_bounds", "pm_matryoshka"],
        contracts=[
            f"{PM}._bounds:check_exclusion_bounds_overlap",
            f"{PM}._bounds:adjust_exclusion_bounds",
            f"{PM}._bounds:clamp_to_bounds",
            f"{PM}._matryoshka:Matryoshka._calc_target_power",
        ],
        lemmas=[],
        bounded=[],
        level="proof",
        explanation="Contracts on the real functions, discharged per function (callers use callee contracts) by a "
                    "VC generator over the source AST with z3; loops by inductive invariants.",
        assumptions=[REALS, EXTRACTION],
    ),
    "C04": dict(
        modules=["pm_bounds", "pm_matryoshka"],
        contracts=[
            f"{PM}._bounds:check_exclusion_bounds_overlap",
            f"{PM}._bounds:adjust_exclusion_bounds",
            f"{PM}._bounds:clamp_to_bounds",
            f"{PM}._matryoshka:Matryoshka._calc_target_power#c04",
        ],
        lemmas=[],
        bounded=[],
        level="proof",
        explanation="Ghost recurrences G (running bounds) and T (running target) written from the property statement; "
                    "both sweeps are proved to compute them (loop invariants), so what an actor is told equals what the "
                    "manager then does.",
        assumptions=[REALS, EXTRACTION],
    ),
}
