"""Entry point of every registered check.

    python3-vt -m checks.run C03 [--tier quick|thorough] [--repo /repo] [--replay FILE]

exit 0  every obligation discharged (known findings are printed as KNOWN-FINDING lines)
exit 1  VIOLATION property=<id> replay=<path>   (a refuted obligation not covered by a listed finding)
exit 2  undecided (solver unknown on some obligation; no VIOLATION line)
exit 3  checker error (semantic probe failed, contract out of date, crash)
"""
from __future__ import annotations

import argparse
import hashlib
import importlib
import json
import multiprocessing as mp
import os
import subprocess
import sys
import time
import traceback

VERIF = os.path.dirname(os.path.dirname(os.path.abspath(__file__)))
if VERIF not in sys.path:
    sys.path.insert(0, VERIF)

NATIVE_PY = "/venv/bin/python"


def native(req, timeout=600):
    env = dict(os.environ)
    env["PYTHONPATH"] = VERIF
    env.pop("PYTHONHOME", None)
    p = subprocess.run([NATIVE_PY, "-m", "native.runner"], input=json.dumps(req), capture_output=True,
                       text=True, cwd=VERIF, env=env, timeout=timeout, check=False)
    try:
        out = p.stdout[p.stdout.index("{"):]
        return json.loads(out)
    except Exception:  # pylint: disable=broad-except
        return {"error": f"native runner failed: rc={p.returncode} stdout={p.stdout[-2000:]} stderr={p.stderr[-3000:]}"}


def verify_one(job):
    """Worker: verify one function under contract (runs in its own process)."""
    modules, target, repo, seed, regimes, timeout_ms = job
    try:
        from pyvc.verify import Engine
        from pyvc import spec
        for m in modules:
            importlib.import_module("contracts." + m)
        eng = Engine(repo_root=repo, verif_root=VERIF, seed=seed, timeout_ms=timeout_ms)
        eng.function_budget_s = 600.0 if timeout_ms <= 10000 else 1800.0
        c = spec.CONTRACTS[target]
        rep = eng.verify_function(c, regimes=regimes)
        return {
            "target": target, "contract_module": c.__module__, "source_hash": rep.source_hash, "paths": rep.paths,
            "fallback_loops": sorted(getattr(rep, "fallback_loops", [])),
            "exits": rep.exits, "live_exits": rep.live_exits, "unknown_exits": rep.unknown_exits, "error": rep.error, "trusted": sorted(rep.trusted),
            "uses_contracts": sorted(rep.uses_contracts), "solver_time": rep.solver_time, "wall": rep.wall,
            "obligations": [dict(ob.to_json(), model=ob.model) for ob in rep.obligations],
            "excluded": [dict(ob.to_json(), finding=fid, model=ob.model) for ob, fid in rep.excluded],
            "assumed": bool(getattr(c, "assumed", False)),
        }
    except Exception:  # pylint: disable=broad-except
        return {"target": target, "error": "crash: " + traceback.format_exc(), "obligations": [], "excluded": [],
                "trusted": [], "uses_contracts": [], "paths": 0, "exits": 0, "solver_time": 0, "wall": 0,
                "contract_module": None, "source_hash": None}


def verify_lemma(job):
    modules, name, repo, seed, timeout_ms = job
    try:
        from pyvc.lemmas import verify_lemma as vl
        from pyvc import spec
        for m in modules:
            importlib.import_module("contracts." + m)
        return vl(spec.LEMMAS[name], repo, VERIF, seed, timeout_ms)
    except Exception:  # pylint: disable=broad-except
        return {"lemma": name, "error": "crash: " + traceback.format_exc(), "obligations": []}


def load_findings():
    p = os.path.join(VERIF, "known_findings.json")
    if not os.path.isfile(p):
        return {"findings": [], "fixed": []}
    with open(p, encoding="utf-8") as fh:
        return json.load(fh)


def main(argv=None):
    ap = argparse.ArgumentParser()
    ap.add_argument("prop")
    ap.add_argument("--tier", default=os.environ.get("VERIF_TIER", "quick"))
    ap.add_argument("--repo", default="/repo")
    ap.add_argument("--replay", default=None)
    ap.add_argument("--jobs", type=int, default=16)
    ap.add_argument("--evidence-dir", default=os.path.join(VERIF, "evidence"))
    a = ap.parse_args(argv)
    t0 = time.time()
    seed = int(os.environ.get("VERIF_SEED", "0") or 0)
    from checks.properties import PROPS
    if a.prop not in PROPS:
        print(f"unknown property {a.prop}")
        return 3
    P = PROPS[a.prop]
    tier = "thorough" if a.tier == "thorough" else "quick"
    repo = os.path.abspath(a.repo)
    if a.replay:
        return do_replay(a.replay, repo)

    # 1. semantic probes of the assumed library models
    pr = native({"mode": "probe", "repo": repo})
    if "error" in pr or not all(v is True for v in pr.values()):
        print("CHECKER-ERROR: semantic probe failed:", json.dumps(pr)[:3000])
        return 3

    findings = load_findings()
    my_findings = [f for f in findings.get("findings", []) if f["property"] == a.prop]
    timeout_ms = 10000 if tier == "quick" else 30000

    # 2. witnesses of known findings: still failing?  (a repaired defect lifts its regime exclusion)
    active = []
    known_lines = []
    for f in my_findings:
        w = f.get("witness")
        still = True
        if w is not None:
            r = native(dict(w, mode=w.get("mode", "replay"), repo=repo))
            still = r.get("replay", {}).get("status") == "failed"
            f["_witness_result"] = r
        if still:
            active.append(f)
            known_lines.append(f"KNOWN-FINDING: property={a.prop} {f['text']}")

    # 3. verify every function under contract
    jobs = []
    for target in P["contracts"]:
        regimes = [dict(f["regime"], id=f["id"]) for f in active if f.get("function") == target and f.get("regime")]
        jobs.append((P["modules"], target, repo, seed, regimes, timeout_ms))
    ljobs = [(P["modules"], name, repo, seed, timeout_ms) for name in P.get("lemmas", [])]
    with mp.get_context("fork").Pool(min(a.jobs, max(1, len(jobs) + len(ljobs)))) as pool:
        r1 = pool.map_async(verify_one, jobs, chunksize=1)
        r2 = pool.map_async(verify_lemma, ljobs, chunksize=1)
        reports = r1.get()
        lreports = r2.get()

    # 4. bounded stand-ins
    bounded = []
    for b in P.get("bounded", []):
        bounded.append(run_bounded(dict(b, prop=a.prop), repo, seed, tier))

    # 5. verdicts
    violations = []
    undecided = []
    errors = []
    fallback_notes = []
    n_obl = n_dis = 0
    n_excluded = 0
    functions = []
    trusted = set()
    samples = []
    for rep in reports:
        if rep.get("error"):
            err = rep["error"]
            if err.startswith("unsupported") or err.startswith("path budget") or err.startswith("contract out of date"):
                # the function left the verifier's subset: bounded native run of the same contract
                fb = run_bounded({"kind": "contract_search", "target": rep["target"],
                                  "contract_module": rep["contract_module"] or find_module(P, rep["target"]),
                                  "budget_s": 20 if tier == "quick" else 120, "fallback": True,
                                  "reason": err}, repo, seed, tier)
                bounded.append(fb)
                fallback_notes.append(f"{rep['target']}: outside the verifier's subset after this change ({err[:160]}); "
                                      f"bounded native run of its contract: {'FAILED' if fb.get('found') else 'no failure found'}")
            else:
                errors.append(f"{rep['target']}: {err}")
        for ob in rep["obligations"]:
            n_obl += 1
            if ob["status"] == "valid":
                n_dis += 1
                if len(samples) < 4 and ob["backend"] != "trivial":
                    samples.append({"obligation": ob["name"], "path": ob["path"][:6], "status": "valid",
                                    "backend": ob["backend"], "time_s": round(ob["time_s"], 4)})
            elif ob["status"] == "refuted":
                if rep.get("fallback_loops"):
                    # the loop the invariants were written for has changed its header: a failing obligation may mean
                    # broken code or merely an invariant that no longer fits - it counts only with a reproduced input
                    ob = dict(ob, needs_reproduction=True)
                    if ob.get("model") is None:
                        ob["model"] = {}
                    undecided.append((rep, ob))
                else:
                    violations.append((rep, ob))
            else:
                undecided.append((rep, ob))
        n_excluded += len(rep["excluded"])
        trusted |= set(rep["trusted"])
        functions.append({"function": rep["target"], "source_sha": rep["source_hash"], "paths": rep["paths"],
                          "exits_reached": rep["exits"], "exits_with_model": rep.get("live_exits"), "obligations": len(rep["obligations"]),
                          "discharged": sum(1 for o in rep["obligations"] if o["status"] == "valid"),
                          "excluded_by_known_finding": len(rep["excluded"]),
                          "solver_s": round(rep["solver_time"], 3), "wall_s": round(rep["wall"], 3),
                          "callee_contracts_used": rep["uses_contracts"], "error": rep.get("error"),
                          "backends": sorted({o["backend"] for o in rep["obligations"]})})
        if not rep.get("error") and (rep["exits"] == 0 or rep.get("live_exits", 0) + rep.get("unknown_exits", 0) == 0):
            errors.append(f"{rep['target']}: vacuous: no satisfiable exit reached")
        if not rep.get("error") and len(rep["obligations"]) + len(rep["excluded"]) == 0:
            errors.append(f"{rep['target']}: vacuous: zero obligations")
    lemma_out = []
    for lr in lreports:
        if lr.get("error"):
            errors.append(f"lemma {lr.get('lemma')}: {lr['error']}")
        for ob in lr["obligations"]:
            n_obl += 1
            if ob["status"] == "valid":
                n_dis += 1
            elif ob["status"] == "refuted":
                violations.append(({"target": "lemma:" + lr["lemma"], "contract_module": None}, ob))
            else:
                undecided.append(({"target": "lemma:" + lr["lemma"]}, ob))
        lemma_out.append({"lemma": lr.get("lemma"), "obligations": len(lr["obligations"]),
                          "discharged": sum(1 for o in lr["obligations"] if o["status"] == "valid"),
                          "wall_s": lr.get("wall")})
        trusted |= set(lr.get("trusted", []))

    # 6. replay refuted obligations on the real code
    os.makedirs(os.path.join(VERIF, "replays"), exist_ok=True)
    vio_lines = []
    seen_obl = set()
    for rep, ob in violations:
        key = (rep["target"], ob["name"])
        if key in seen_obl:
            continue
        seen_obl.add(key)
        path, reproduced = write_replay(a.prop, rep, ob, repo, seed, tier)
        line = f"VIOLATION property={a.prop} replay={path}"
        if not reproduced:
            line += " no-failing-input-found"
        vio_lines.append(line)
    # an undecided obligation that comes with a CANDIDATE counter-model (found among bounded instances of facts that
    # also quantify over keys) is a violation only if the native replay reproduces it; otherwise it stays undecided
    still_undecided = []
    for rep, ob in undecided:
        key = (rep["target"], ob["name"])
        if ob.get("model") is None or key in seen_obl:
            still_undecided.append((rep, ob))
            continue
        path, reproduced = write_replay(a.prop, rep, ob, repo, seed, tier)
        if reproduced:
            seen_obl.add(key)
            vio_lines.append(f"VIOLATION property={a.prop} replay={path}")
        else:
            still_undecided.append((rep, ob))
    undecided = still_undecided
    for b in bounded:
        if b.get("found"):
            path = write_bounded_replay(a.prop, b, repo)
            if b.get("known_finding"):
                continue
            vio_lines.append(f"VIOLATION property={a.prop} replay={path}")
        for kl in b.get("known_lines", []):
            known_lines.append(f"KNOWN-FINDING: property={a.prop} {kl}")
        if b.get("error"):
            errors.append(f"bounded {b.get('name')}: {b['error']}")

    wall = time.time() - t0
    level = P["level"]
    assumptions = sorted(trusted | set(P.get("assumptions", [])))
    cov = {
        "obligations": n_obl, "discharged": n_dis,
        "checker_cmd": f"python3-vt -m checks.run {a.prop} --tier {tier}",
        "trusted_base": sorted(t for t in trusted if t.split(":")[0] in ("model", "opaque", "assumed-contract", "external")),
        "functions_under_contract": functions, "lemmas": lemma_out,
        "excluded_by_known_finding": n_excluded,
        "bounded": [strip_bounded(b) for b in bounded],
        "samples": samples or [{"note": "no solver-discharged obligation in this run"}],
        "explanation": P["explanation"],
        "undecided": [{"function": r["target"], "obligation": o["name"], "path": o["path"][:8]} for r, o in undecided][:20],
        "known_findings_reported": known_lines,
        "solver": "z3 %s (python API); unknowns re-tried on /usr/bin/cvc5 and /usr/bin/z3" % z3_version(),
        "solver_time_s": round(sum(f["solver_s"] for f in functions), 3),
    }
    if any(b.get("evaluations") for b in bounded):
        cov["evaluations"] = sum(b.get("evaluations", 0) for b in bounded)
        cov["distinct_nontrivial"] = sum(b.get("distinct", 0) for b in bounded)
        cov["rule"] = "; ".join(b.get("rule", "") for b in bounded if b.get("rule"))
    if level in ("exploration",) and "evaluations" not in cov:
        cov["evaluations"] = 0
    ev = {"property_id": a.prop, "tier": tier, "seed": seed, "level": level, "coverage": cov,
          "assumptions": assumptions, "wall_s": round(wall, 2), "violations": len(vio_lines)}
    os.makedirs(a.evidence_dir, exist_ok=True)
    with open(os.path.join(a.evidence_dir, f"{a.prop}.json"), "w", encoding="utf-8") as fh:
        json.dump(ev, fh, indent=1, default=str)

    seen_kl = set()
    for kl in known_lines:
        key_ = kl.split("[")[0].strip()
        if key_ in seen_kl:
            continue
        seen_kl.add(key_)
        print(kl)
    print(f"{a.prop}: {n_dis}/{n_obl} obligations discharged over {len(functions)} functions and {len(lemma_out)} lemmas; "
          f"{n_excluded} excluded by known-finding regimes; bounded stand-ins: {len(bounded)}; wall {wall:.1f}s")
    if vio_lines:
        # a refuted obligation / a failing bounded run is reported even if something else went wrong in this run
        for e in errors:
            print("CHECKER-ERROR (in addition to the violations below):", e[:2000])
        for v in vio_lines:
            print(v)
        return 1
    if errors:
        for e in errors:
            print("CHECKER-ERROR:", e[:2000])
        return 3
    if undecided or fallback_notes:
        for r, o in undecided[:10]:
            print(f"UNDECIDED: {r['target']} {o['name']} path={o['path'][:6]}")
        for n in fallback_notes:
            print("UNDECIDED:", n)
        return 2
    return 0


def find_module(P, target):
    from pyvc import spec
    for m in P["modules"]:
        importlib.import_module("contracts." + m)
    c = spec.CONTRACTS.get(target)
    return c.__module__ if c else None


def z3_version():
    try:
        import z3
        return z3.get_version_string()
    except Exception:  # pylint: disable=broad-except
        return "?"


def strip_bounded(b):
    return {k: v for k, v in b.items() if k not in ("inputs", "model")}


def run_bounded(b, repo, seed, tier):
    """A bounded stand-in: the same contract evaluated natively on generated inputs."""
    kind = b["kind"]
    out = {"name": b.get("name") or b.get("target"), "kind": kind, "labelled": "bounded (never counted as proved)"}
    if b.get("fallback"):
        out["labelled"] = "bounded (fallback: function outside the verifier's subset: %s)" % b.get("reason")
    if kind == "contract_search":
        budget = b.get("budget_s", 20) if tier == "quick" else b.get("thorough_budget_s", b.get("budget_s", 20) * 5)
        # known-finding regimes of this function apply to the native run as they do to the proof
        regimes = [dict(f["regime"], id=f["id"]) for f in load_findings().get("findings", [])
                   if f.get("function") == b["target"] and f.get("regime") and f["regime"].get("kind") == "input"]
        r = native({"mode": "search", "repo": repo, "contract_module": b["contract_module"], "target": b["target"],
                    "seed": seed, "budget_s": budget, "max_cases": b.get("max_cases", 50000), "size": b.get("size", 3),
                    "regimes": regimes},
                   timeout=budget + 120)
        if "error" in r:
            out["error"] = r["error"]
            return out
        s = r["search"]
        out.update({"evaluations": s["evaluations"], "distinct": s["distinct"], "found": s["found"],
                    "rule": f"seeded random inputs by shape for {b['target']} (lattice values, small sizes); "
                            "distinct = distinct input tuples whose requires hold",
                    "samples": s.get("samples", [])[:2]})
        if s["found"]:
            out["inputs"] = s["inputs"]
            out["ghost"] = s.get("ghost")
            out["failure"] = s["failure"]
            out["target"] = b["target"]
            out["contract_module"] = b["contract_module"]
        return out
    if kind == "native_script":
        r = native({"mode": "script", "module": b["module"], "repo": repo, "seed": seed, "tier": tier,
                    "prop": b.get("prop")}, timeout=1200)
        if "error" in r:
            out["error"] = r["error"]
            return out
        rr = r["replay"]
        out.update({"evaluations": rr.get("evaluations", 0), "distinct": rr.get("distinct", 0),
                    "found": rr.get("status") == "failed", "rule": rr.get("rule", ""), "samples": rr.get("samples", [])[:2],
                    "wall_s": rr.get("wall_s")})
        listed = {f["id"]: f for f in load_findings().get("findings", [])}
        out["known_lines"] = []
        for fid, what in (rr.get("known") or {}).items():
            if fid in listed:
                out["known_lines"].append(f"{listed[fid]['text']} [{what}]")
            else:
                # a recognised-but-unlisted deviation is a violation like any other
                out["found"] = True
                out.setdefault("failure", {"clause": fid, "detail": what})
        if rr.get("status") == "failed":
            out["failure"] = rr.get("failure")
            out["inputs"] = rr.get("inputs")
            out["replay_script"] = b["module"]
        return out
    if kind == "script":
        mod = importlib.import_module(b["module"])
        try:
            r = mod.run(repo=repo, seed=seed, tier=tier, native=native)
        except Exception:  # pylint: disable=broad-except
            out["error"] = traceback.format_exc()
            return out
        out.update(r)
        return out
    out["error"] = f"unknown bounded kind {kind}"
    return out


def write_replay(prop, rep, ob, repo, seed, tier):
    h = hashlib.sha256((rep["target"] + ob["name"] + json.dumps(ob["path"])).encode()).hexdigest()[:12]
    path = os.path.join(VERIF, "replays", f"{prop}-{h}.json")
    doc = {"property": prop, "obligation": ob["name"], "function": rep["target"], "source_sha": rep.get("source_hash"),
           "path": ob["path"], "backend": ob["backend"], "solver_answer": "sat (counter-model below)" if ob.get("model")
           else "sat / refuted without model (%s)" % ob.get("detail"), "detail": ob.get("detail"),
           "model": ob.get("model"), "repo": repo,
           "rerun": f"python3-vt -m checks.run {prop} --replay {path}"}
    reproduced = False
    model = ob.get("model")
    cm = rep.get("contract_module")
    if cm and not rep["target"].startswith("lemma:"):
        inputs = {k: v for k, v in (model or {}).items() if not k.startswith("__")}
        ghost = (model or {}).get("__ghost__")
        req = {"mode": "replay", "repo": repo, "contract_module": cm, "target": rep["target"], "inputs": inputs,
               "ghost": ghost, "search_budget_s": 10 if tier == "quick" else 60, "seed": seed}
        if not model:
            req = {"mode": "search", "repo": repo, "contract_module": cm, "target": rep["target"], "seed": seed,
                   "budget_s": 10 if tier == "quick" else 60}
        r = native(req)
        doc["native"] = r
        if r.get("replay", {}).get("status") == "failed":
            reproduced = True
            doc["verdict"] = "reproduced"
            doc["failing_input"] = inputs
            doc["native_failure"] = r["replay"]
        elif r.get("search", {}).get("found"):
            reproduced = True
            doc["verdict"] = "reproduced (native search seeded by the counter-model)"
            doc["failing_input"] = r["search"]["inputs"]
            doc["failing_ghost"] = r["search"].get("ghost")
            doc["native_failure"] = r["search"]["failure"]
        else:
            doc["verdict"] = "no-failing-input-found"
    else:
        doc["verdict"] = "no-failing-input-found"
    with open(path, "w", encoding="utf-8") as fh:
        json.dump(doc, fh, indent=1, default=str)
    return path, reproduced


def write_bounded_replay(prop, b, repo):
    h = hashlib.sha256(json.dumps(b, default=str, sort_keys=True).encode()).hexdigest()[:12]
    path = os.path.join(VERIF, "replays", f"{prop}-bounded-{h}.json")
    doc = {"property": prop, "obligation": f"bounded:{b.get('name')}::{(b.get('failure') or {}).get('clause')}",
           "native_script": b.get("replay_script"),
           "function": b.get("target"), "contract_module": b.get("contract_module"), "repo": repo,
           "failing_input": b.get("inputs"), "failing_ghost": b.get("ghost"), "native_failure": b.get("failure"),
           "verdict": "reproduced (found natively by the bounded stand-in)",
           "rerun": f"python3-vt -m checks.run {prop} --replay {path}"}
    with open(path, "w", encoding="utf-8") as fh:
        json.dump(doc, fh, indent=1, default=str)
    return path


def do_replay(path, repo):
    with open(path, encoding="utf-8") as fh:
        doc = json.load(fh)
    if doc.get("native_script"):
        r = native({"mode": "script", "module": doc["native_script"], "repo": repo, "seed": 0, "tier": "quick"}, timeout=1200)
        print(json.dumps(r, indent=1)[:3000])
        if r.get("replay", {}).get("status") == "failed":
            print(f"VIOLATION property={doc['property']} replay={path}")
            return 1
        return 0
    if not doc.get("failing_input"):
        print("replay file carries no concrete input (no-failing-input-found); solver output:")
        print(json.dumps({k: doc.get(k) for k in ("obligation", "path", "solver_answer", "model")}, indent=1)[:4000])
        return 2
    cm = doc.get("contract_module")
    if cm is None:
        from pyvc import spec
        from checks.properties import PROPS
        cm = find_module(PROPS[doc["property"]], doc["function"])
    r = native({"mode": "replay", "repo": repo, "contract_module": cm, "target": doc["function"],
                "inputs": doc["failing_input"], "ghost": doc.get("failing_ghost") or (doc.get("model") or {}).get("__ghost__")})
    print(json.dumps(r, indent=1)[:4000])
    if r.get("replay", {}).get("status") == "failed":
        print(f"VIOLATION property={doc['property']} replay={path}")
        return 1
    return 0


if __name__ == "__main__":
    sys.exit(main())
